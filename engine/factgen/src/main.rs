//! factgen: rustc_private driver that dumps, per workspace crate, the resolved program
//! (MIR, type-checked HIR, item tables, derive-helper attributes) as one JSON fact file.
//! Injected with RUSTC_WORKSPACE_WRAPPER under `cargo +nightly check`.
#![feature(rustc_private)]
#![allow(clippy::all)]

extern crate rustc_abi;
extern crate rustc_ast;
extern crate rustc_ast_pretty;
extern crate rustc_data_structures;
extern crate rustc_driver;
extern crate rustc_hir;
extern crate rustc_interface;
extern crate rustc_middle;
extern crate rustc_session;
extern crate rustc_span;

mod hirdump;
mod json;
mod mirdump;

use json::*;
use rustc_driver::Compilation;
use rustc_hir::def::DefKind;
use rustc_hir::def_id::{DefId, LOCAL_CRATE};
use rustc_middle::ty::print::{with_no_trimmed_paths, with_no_visible_paths, with_resolve_crate_name};
use rustc_middle::ty::{self, Ty, TyCtxt};
use rustc_span::Span;

pub fn key<'tcx>(tcx: TyCtxt<'tcx>, did: DefId) -> String {
    with_resolve_crate_name!(with_no_visible_paths!(with_no_trimmed_paths!(tcx.def_path_str(did))))
}
pub fn ty_str<'tcx>(ty: Ty<'tcx>) -> String {
    with_resolve_crate_name!(with_no_visible_paths!(with_no_trimmed_paths!(ty.to_string())))
}

/// file, line of the *expansion root* call site (where the user wrote the code) plus macro backtrace
pub fn span_info<'tcx>(tcx: TyCtxt<'tcx>, sp: Span) -> (String, usize, usize, Vec<String>) {
    let mut macs = Vec::new();
    for e in sp.macro_backtrace() {
        match e.kind {
            rustc_span::ExpnKind::Macro(_, name) => macs.push(name.to_string()),
            rustc_span::ExpnKind::Desugaring(k) => macs.push(format!("~{:?}", k)),
            rustc_span::ExpnKind::AstPass(k) => macs.push(format!("~{:?}", k)),
            rustc_span::ExpnKind::Root => {}
        }
    }
    let root = sp.source_callsite();
    let sm = tcx.sess.source_map();
    let lo = sm.lookup_char_pos(root.lo());
    let hi = sm.lookup_char_pos(root.hi());
    let file = format!("{}", lo.file.name.prefer_local_unconditionally());
    (file, lo.line, hi.line, macs)
}

pub fn span_j<'tcx>(tcx: TyCtxt<'tcx>, sp: Span) -> J {
    let (file, lo, hi, macs) = span_info(tcx, sp);
    J::Obj(vec![
        ("file", s(file)),
        ("lo", u(lo)),
        ("hi", u(hi)),
        ("mac", if macs.is_empty() { J::Null } else { J::Arr(macs.into_iter().map(s).collect()) }),
    ])
}

struct Cb {
    out_dir: String,
    attrs: Vec<J>,
}

impl rustc_driver::Callbacks for Cb {
    fn after_expansion<'tcx>(
        &mut self,
        _compiler: &rustc_interface::interface::Compiler,
        tcx: TyCtxt<'tcx>,
    ) -> Compilation {
        // derive-helper attributes (#[token], #[regex], #[br(..)]) are dropped at lowering:
        // read them from the expanded AST.
        let resolver = tcx.resolver_for_lowering().borrow();
        let krate: &rustc_ast::Crate = &resolver.1;
        let mut out = Vec::new();
        collect_attrs_items(&krate.items, &mut Vec::new(), &mut out);
        self.attrs = out;
        Compilation::Continue
    }

    fn after_analysis<'tcx>(
        &mut self,
        _compiler: &rustc_interface::interface::Compiler,
        tcx: TyCtxt<'tcx>,
    ) -> Compilation {
        let crate_name = tcx.crate_name(LOCAL_CRATE).to_string();
        let crate_types: Vec<String> =
            tcx.crate_types().iter().map(|t| format!("{:?}", t)).collect();
        let mut bodies = Vec::new();
        let mut nbodies = 0usize;
        for ldid in tcx.mir_keys(()).iter() {
            let did = ldid.to_def_id();
            let kind = tcx.def_kind(did);
            if !matches!(kind, DefKind::Fn | DefKind::AssocFn | DefKind::Closure) {
                continue;
            }
            if tcx.is_constructor(did) {
                continue;
            }
            if generated_noise(tcx, did) {
                continue;
            }
            nbodies += 1;
            bodies.push(mirdump::dump_body(tcx, *ldid));
        }
        let hir = hirdump::dump_hir(tcx);
        let items = hirdump::dump_items(tcx);
        let root = J::Obj(vec![
            ("crate", s(crate_name.clone())),
            ("crate_types", J::Arr(crate_types.iter().cloned().map(s).collect())),
            ("nbodies", u(nbodies)),
            ("bodies", J::Arr(bodies)),
            ("hir", hir),
            ("items", items),
            ("attrs", J::Arr(std::mem::take(&mut self.attrs))),
        ]);
        let mut text = String::new();
        root.write(&mut text);
        let ct = crate_types.first().cloned().unwrap_or_default().to_lowercase();
        let path = format!("{}/{}.{}.json", self.out_dir, crate_name, ct);
        let tmp = format!("{}.tmp{}", path, std::process::id());
        std::fs::write(&tmp, text).expect("factgen: cannot write fact file");
        std::fs::rename(&tmp, &path).expect("factgen: cannot rename fact file");
        Compilation::Continue
    }
}

fn attr_strings(attrs: &[rustc_ast::Attribute]) -> Vec<J> {
    attrs
        .iter()
        .filter(|a| !a.is_doc_comment())
        .map(|a| s(rustc_ast_pretty::pprust::attribute_to_string(a)))
        .collect()
}

fn collect_attrs_items(
    items: &[Box<rustc_ast::Item>],
    path: &mut Vec<String>,
    out: &mut Vec<J>,
) {
    use rustc_ast::ItemKind;
    for it in items {
        match &it.kind {
            ItemKind::Mod(_, ident, rustc_ast::ModKind::Loaded(inner, ..)) => {
                path.push(ident.name.to_string());
                collect_attrs_items(inner, path, out);
                path.pop();
            }
            ItemKind::Enum(ident, _, def) => {
                let mut vs = Vec::new();
                for v in &def.variants {
                    let mut fields = Vec::new();
                    for (k, f) in v.data.fields().iter().enumerate() {
                        fields.push(J::Obj(vec![
                            ("name", s(f.ident.map(|x| x.name.to_string()).unwrap_or(format!("{}", k)))),
                            ("attrs", J::Arr(attr_strings(&f.attrs))),
                        ]));
                    }
                    vs.push(J::Obj(vec![
                        ("name", s(v.ident.name.to_string())),
                        ("attrs", J::Arr(attr_strings(&v.attrs))),
                        ("fields", J::Arr(fields)),
                    ]));
                }
                out.push(J::Obj(vec![
                    ("kind", s("enum")),
                    ("path", s(format!("{}::{}", path.join("::"), ident.name))),
                    ("attrs", J::Arr(attr_strings(&it.attrs))),
                    ("variants", J::Arr(vs)),
                ]));
            }
            ItemKind::Struct(ident, _, data) => {
                let mut fields = Vec::new();
                for (k, f) in data.fields().iter().enumerate() {
                    fields.push(J::Obj(vec![
                        ("name", s(f.ident.map(|x| x.name.to_string()).unwrap_or(format!("{}", k)))),
                        ("attrs", J::Arr(attr_strings(&f.attrs))),
                    ]));
                }
                out.push(J::Obj(vec![
                    ("kind", s("struct")),
                    ("path", s(format!("{}::{}", path.join("::"), ident.name))),
                    ("attrs", J::Arr(attr_strings(&it.attrs))),
                    ("fields", J::Arr(fields)),
                ]));
            }
            _ => {}
        }
    }
}

pub fn impl_info<'tcx>(tcx: TyCtxt<'tcx>, did: DefId) -> J {
    // for an associated fn: the impl's self type and trait
    if let Some(parent) = tcx.opt_parent(did) {
        if let DefKind::Impl { .. } = tcx.def_kind(parent) {
            let self_ty = tcx.type_of(parent).instantiate_identity().skip_norm_wip();
            let tr = tcx.impl_opt_trait_ref(parent).map(|t| {
                let t = t.instantiate_identity().skip_norm_wip();
                key(tcx, t.def_id)
            });
            return J::Obj(vec![
                ("self_ty", s(ty_str(self_ty))),
                ("trait", opt(tr, s)),
            ]);
        }
    }
    J::Null
}

fn main() {
    let mut args: Vec<String> = std::env::args().collect();
    // RUSTC_WORKSPACE_WRAPPER: argv[1] is the real rustc path
    if args.len() > 1 && (args[1].ends_with("rustc") || args[1].contains("/rustc")) {
        args.remove(1);
    }
    let out_dir = std::env::var("FACTGEN_OUT").unwrap_or_else(|_| "/tmp/factgen-out".into());
    let crate_name = args
        .iter()
        .position(|a| a == "--crate-name")
        .and_then(|p| args.get(p + 1))
        .cloned()
        .unwrap_or_default();
    let is_probe = args.iter().any(|a| a == "-vV" || a == "--version" || a.starts_with("--print"));
    let skip = crate_name.starts_with("build_script") || crate_name.is_empty() || is_probe;
    if skip {
        struct Nop;
        impl rustc_driver::Callbacks for Nop {}
        rustc_driver::run_compiler(&args, &mut Nop);
        return;
    }
    let _ = std::fs::create_dir_all(&out_dir);
    let mut cb = Cb { out_dir, attrs: Vec::new() };
    rustc_driver::run_compiler(&args, &mut cb);
}

#[allow(dead_code)]
pub fn is_ty_adt_named<'tcx>(tcx: TyCtxt<'tcx>, t: Ty<'tcx>, name: &str) -> bool {
    match t.kind() {
        ty::Adt(def, _) => key(tcx, def.did()).ends_with(name),
        _ => false,
    }
}

pub fn ty_str_sig<'tcx>(_tcx: TyCtxt<'tcx>, sig: ty::PolyFnSig<'tcx>) -> String {
    with_resolve_crate_name!(with_no_visible_paths!(with_no_trimmed_paths!(format!("{}", sig))))
}

/// lalrpop output compiled from OUT_DIR: only the semantic actions (`__actionN` and their
/// closures) carry repository logic; the LR tables and reducers are the trusted runtime.
pub fn generated_noise<'tcx>(tcx: TyCtxt<'tcx>, did: DefId) -> bool {
    let sp = tcx.def_span(did);
    let (file, _, _, _) = span_info(tcx, sp);
    if file.contains("/build/") && file.ends_with("/out/grammar.rs") {
        let k = key(tcx, did);
        return !k.contains("::__action");
    }
    false
}

pub fn generic_arg_str<'tcx>(a: ty::GenericArg<'tcx>) -> String {
    with_resolve_crate_name!(with_no_visible_paths!(with_no_trimmed_paths!(format!("{}", a))))
}
