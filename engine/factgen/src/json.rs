//! Minimal JSON value + writer (the driver has no crates.io dependencies).
use std::fmt::Write;

pub enum J {
    Null,
    Bool(bool),
    Int(i128),
    Str(String),
    Arr(Vec<J>),
    Obj(Vec<(&'static str, J)>),
}

pub fn s<T: Into<String>>(t: T) -> J {
    J::Str(t.into())
}
pub fn i<T: Into<i128>>(t: T) -> J {
    J::Int(t.into())
}
pub fn u(t: usize) -> J {
    J::Int(t as i128)
}
pub fn opt<T>(o: Option<T>, f: impl FnOnce(T) -> J) -> J {
    match o {
        Some(x) => f(x),
        None => J::Null,
    }
}

impl J {
    pub fn write(&self, out: &mut String) {
        match self {
            J::Null => out.push_str("null"),
            J::Bool(b) => out.push_str(if *b { "true" } else { "false" }),
            J::Int(n) => {
                // ints beyond 2^53 are emitted as strings to stay exact in every reader
                if *n > (1i128 << 62) || *n < -(1i128 << 62) {
                    let _ = write!(out, "\"{}\"", n);
                } else {
                    let _ = write!(out, "{}", n);
                }
            }
            J::Str(st) => write_str(st, out),
            J::Arr(v) => {
                out.push('[');
                for (k, x) in v.iter().enumerate() {
                    if k > 0 {
                        out.push(',');
                    }
                    x.write(out);
                }
                out.push(']');
            }
            J::Obj(v) => {
                out.push('{');
                let mut first = true;
                for (k, x) in v.iter() {
                    if let J::Null = x {
                        continue;
                    }
                    if !first {
                        out.push(',');
                    }
                    first = false;
                    write_str(k, out);
                    out.push(':');
                    x.write(out);
                }
                out.push('}');
            }
        }
    }
}

fn write_str(st: &str, out: &mut String) {
    out.push('"');
    for c in st.chars() {
        match c {
            '"' => out.push_str("\\\""),
            '\\' => out.push_str("\\\\"),
            '\n' => out.push_str("\\n"),
            '\r' => out.push_str("\\r"),
            '\t' => out.push_str("\\t"),
            c if (c as u32) < 0x20 => {
                let _ = write!(out, "\\u{:04x}", c as u32);
            }
            c => out.push(c),
        }
    }
    out.push('"');
}
