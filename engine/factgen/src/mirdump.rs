//! MIR → small JSON IR.
use crate::json::*;
use crate::{impl_info, key, span_info, span_j, ty_str};
use rustc_hir::def_id::{DefId, LocalDefId};
use rustc_middle::mir::*;
use rustc_middle::ty::{self, Instance, Ty, TyCtxt, TypingEnv};

struct Cx<'a, 'tcx> {
    tcx: TyCtxt<'tcx>,
    body: &'a Body<'tcx>,
    did: DefId,
    tenv: TypingEnv<'tcx>,
}

pub fn dump_body<'tcx>(tcx: TyCtxt<'tcx>, ldid: LocalDefId) -> J {
    let did = ldid.to_def_id();
    let body = tcx.optimized_mir(did);
    let cx = Cx { tcx, body, did, tenv: TypingEnv::post_analysis(tcx, did) };
    let mut names: Vec<Option<String>> = vec![None; body.local_decls.len()];
    for vdi in body.var_debug_info.iter() {
        if let VarDebugInfoContents::Place(p) = &vdi.value {
            if p.projection.is_empty() {
                names[p.local.as_usize()] = Some(vdi.name.to_string());
            }
        }
    }
    // closure upvar names: var_debug_info with projections on _1
    let mut upvars = Vec::new();
    for vdi in body.var_debug_info.iter() {
        if let VarDebugInfoContents::Place(p) = &vdi.value {
            if !p.projection.is_empty() {
                upvars.push(J::Obj(vec![
                    ("name", s(vdi.name.to_string())),
                    ("place", cx.place(p)),
                ]));
            }
        }
    }
    let locals: Vec<J> = body
        .local_decls
        .iter_enumerated()
        .map(|(l, d)| {
            J::Obj(vec![
                ("ty", s(ty_str(d.ty))),
                ("name", opt(names[l.as_usize()].clone(), s)),
            ])
        })
        .collect();
    let blocks: Vec<J> = body
        .basic_blocks
        .iter_enumerated()
        .map(|(_bb, data)| {
            let stmts: Vec<J> = data.statements.iter().filter_map(|st| cx.stmt(st)).collect();
            J::Obj(vec![
                ("c", if data.is_cleanup { J::Bool(true) } else { J::Null }),
                ("s", J::Arr(stmts)),
                ("t", cx.term(data.terminator())),
            ])
        })
        .collect();
    let parent = tcx.opt_parent(did).map(|p| key(tcx, p));
    let vis = match tcx.def_kind(did) {
        rustc_hir::def::DefKind::Fn | rustc_hir::def::DefKind::AssocFn => {
            if tcx.visibility(did).is_public() { "pub" } else { "priv" }
        }
        _ => "n/a",
    };
    J::Obj(vec![
        ("key", s(key(tcx, did))),
        ("name", s(tcx.opt_item_name(did).map(|n| n.to_string()).unwrap_or_default())),
        ("kind", s(format!("{:?}", tcx.def_kind(did)))),
        ("parent", opt(parent, s)),
        ("impl", impl_info(tcx, did)),
        ("vis", s(vis)),
        ("span", span_j(tcx, body.span)),
        ("argc", u(body.arg_count)),
        ("locals", J::Arr(locals)),
        ("upvars", if upvars.is_empty() { J::Null } else { J::Arr(upvars) }),
        ("blocks", J::Arr(blocks)),
    ])
}

impl<'a, 'tcx> Cx<'a, 'tcx> {
    fn loc(&self, sp: rustc_span::Span) -> (J, J) {
        let (_f, lo, _hi, macs) = span_info(self.tcx, sp);
        (u(lo), if macs.is_empty() { J::Null } else { J::Arr(macs.into_iter().map(s).collect()) })
    }

    fn place(&self, p: &Place<'tcx>) -> J {
        let mut proj = Vec::new();
        let mut pty = rustc_middle::mir::PlaceTy::from_ty(self.body.local_decls[p.local].ty);
        for elem in p.projection.iter() {
            let j = match elem {
                ProjectionElem::Deref => s("*"),
                ProjectionElem::Field(f, fty) => {
                    let name = match pty.ty.kind() {
                        ty::Adt(adt, _) => {
                            let vi = pty.variant_index.unwrap_or(rustc_abi::FIRST_VARIANT);
                            adt.variants()
                                .get(vi)
                                .and_then(|v| v.fields.get(f))
                                .map(|fd| fd.name.to_string())
                        }
                        _ => None,
                    };
                    J::Obj(vec![
                        ("f", u(f.as_usize())),
                        ("n", opt(name, s)),
                        ("ty", s(ty_str(fty))),
                    ])
                }
                ProjectionElem::Index(l) => J::Obj(vec![("i", u(l.as_usize()))]),
                ProjectionElem::ConstantIndex { offset, min_length, from_end } => J::Obj(vec![
                    ("ci", i(offset as i128)),
                    ("min", i(min_length as i128)),
                    ("end", J::Bool(from_end)),
                ]),
                ProjectionElem::Subslice { from, to, from_end } => J::Obj(vec![
                    ("sub", J::Arr(vec![i(from as i128), i(to as i128)])),
                    ("end", J::Bool(from_end)),
                ]),
                ProjectionElem::Downcast(name, vi) => {
                    let nm = name.map(|n| n.to_string()).or_else(|| match pty.ty.kind() {
                        ty::Adt(adt, _) => adt.variants().get(vi).map(|v| v.name.to_string()),
                        _ => None,
                    });
                    J::Obj(vec![("d", opt(nm, s)), ("vi", u(vi.as_usize()))])
                }
                ProjectionElem::OpaqueCast(_) => s("opaque"),
                ProjectionElem::UnwrapUnsafeBinder(_) => s("unwrap_binder"),
            };
            proj.push(j);
            pty = pty.projection_ty(self.tcx, elem);
        }
        J::Obj(vec![
            ("l", u(p.local.as_usize())),
            ("p", if proj.is_empty() { J::Null } else { J::Arr(proj) }),
        ])
    }

    fn constant(&self, c: &ConstOperand<'tcx>) -> J {
        let cty = c.const_.ty();
        let mut fields: Vec<(&'static str, J)> = vec![("ty", s(ty_str(cty)))];
        match cty.kind() {
            ty::FnDef(fdid, args) => {
                fields.push(("fn", s(key(self.tcx, *fdid))));
                let ga: Vec<J> = args.iter().map(|a| s(format!("{}", a))).collect();
                if !ga.is_empty() {
                    fields.push(("ga", J::Arr(ga)));
                }
                // resolve trait methods to their impl where the types allow it
                if let Ok(Some(inst)) = Instance::try_resolve(self.tcx, self.tenv, *fdid, args) {
                    let rdid = inst.def_id();
                    if rdid != *fdid {
                        fields.push(("res", s(key(self.tcx, rdid))));
                    }
                }
            }
            ty::Closure(cdid, _) => {
                fields.push(("closure", s(key(self.tcx, *cdid))));
            }
            _ => {
                let is_scalar = cty.is_integral() || cty.is_bool() || cty.is_char();
                if is_scalar {
                    if let Some(si) = c.const_.try_eval_scalar_int(self.tcx, self.tenv) {
                        let size = si.size();
                        let v: i128 = if cty.is_signed() {
                            si.to_int(size)
                        } else {
                            let uv = si.to_uint(size);
                            if uv > i128::MAX as u128 {
                                fields.push(("big", s(format!("{}", uv))));
                                -1
                            } else {
                                uv as i128
                            }
                        };
                        fields.push(("int", J::Int(v)));
                    }
                } else if let ty::Ref(_, inner, _) = cty.kind() {
                    if inner.is_str() {
                        if let Const::Val(cv, _) = c.const_ {
                            if let Some(bytes) = cv.try_get_slice_bytes_for_diagnostics(self.tcx) {
                                fields.push(("str", s(String::from_utf8_lossy(bytes).to_string())));
                            }
                        }
                    }
                }
                if let Const::Unevaluated(uv, _) = c.const_ {
                    fields.push(("def", s(key(self.tcx, uv.def))));
                }
            }
        }
        fields.push(("dbg", s(format!("{:?}", c.const_))));
        J::Obj(vec![("k", J::Obj(fields))])
    }

    fn operand(&self, o: &Operand<'tcx>) -> J {
        match o {
            Operand::Copy(p) => J::Obj(vec![("c", self.place(p))]),
            Operand::Move(p) => J::Obj(vec![("m", self.place(p))]),
            Operand::Constant(c) => self.constant(c),
            #[allow(unreachable_patterns)]
            other => J::Obj(vec![("x", s(format!("{:?}", other)))]),
        }
    }

    fn rvalue(&self, rv: &Rvalue<'tcx>) -> J {
        match rv {
            Rvalue::Use(o, ..) => J::Obj(vec![("k", s("use")), ("o", self.operand(o))]),
            Rvalue::Repeat(o, n) => J::Obj(vec![
                ("k", s("repeat")),
                ("o", self.operand(o)),
                ("n", s(format!("{}", n))),
            ]),
            Rvalue::Ref(_, bk, p) => J::Obj(vec![
                ("k", s("ref")),
                ("bk", s(match bk {
                    BorrowKind::Shared => "shared",
                    BorrowKind::Fake(_) => "fake",
                    BorrowKind::Mut { .. } => "mut",
                })),
                ("p", self.place(p)),
            ]),
            Rvalue::RawPtr(_, p) => J::Obj(vec![("k", s("rawptr")), ("p", self.place(p))]),
            Rvalue::Cast(ck, o, t) => J::Obj(vec![
                ("k", s("cast")),
                ("ck", s(format!("{:?}", ck))),
                ("o", self.operand(o)),
                ("ty", s(ty_str(*t))),
            ]),
            Rvalue::BinaryOp(op, ab) => J::Obj(vec![
                ("k", s("bin")),
                ("op", s(format!("{:?}", op))),
                ("a", self.operand(&ab.0)),
                ("b", self.operand(&ab.1)),
            ]),
            Rvalue::UnaryOp(op, a) => J::Obj(vec![
                ("k", s("un")),
                ("op", s(format!("{:?}", op))),
                ("a", self.operand(a)),
            ]),
            Rvalue::Discriminant(p) => J::Obj(vec![("k", s("discr")), ("p", self.place(p))]),
            Rvalue::Aggregate(ak, ops) => {
                let mut f: Vec<(&'static str, J)> = vec![("k", s("agg"))];
                match &**ak {
                    AggregateKind::Array(t) => {
                        f.push(("ak", s("array")));
                        f.push(("ty", s(ty_str(*t))));
                    }
                    AggregateKind::Tuple => f.push(("ak", s("tuple"))),
                    AggregateKind::Adt(adid, vi, _, _, _) => {
                        f.push(("ak", s("adt")));
                        f.push(("adt", s(key(self.tcx, *adid))));
                        let adt = self.tcx.adt_def(*adid);
                        let v = adt.variant(*vi);
                        f.push(("variant", s(v.name.to_string())));
                        f.push((
                            "fields",
                            J::Arr(v.fields.iter().map(|fd| s(fd.name.to_string())).collect()),
                        ));
                    }
                    AggregateKind::Closure(cdid, _) => {
                        f.push(("ak", s("closure")));
                        f.push(("closure", s(key(self.tcx, *cdid))));
                    }
                    other => {
                        f.push(("ak", s("other")));
                        f.push(("dbg", s(format!("{:?}", other))));
                    }
                }
                f.push(("ops", J::Arr(ops.iter().map(|o| self.operand(o)).collect())));
                J::Obj(f)
            }
            Rvalue::CopyForDeref(p) => J::Obj(vec![
                ("k", s("use")),
                ("o", J::Obj(vec![("c", self.place(p))])),
                ("deref_tmp", J::Bool(true)),
            ]),
            other => J::Obj(vec![("k", s("other")), ("dbg", s(format!("{:?}", other)))]),
        }
    }

    fn stmt(&self, st: &Statement<'tcx>) -> Option<J> {
        let (ln, mac) = self.loc(st.source_info.span);
        match &st.kind {
            StatementKind::Assign(b) => Some(J::Obj(vec![
                ("k", s("assign")),
                ("p", self.place(&b.0)),
                ("r", self.rvalue(&b.1)),
                ("ln", ln),
                ("mac", mac),
            ])),
            StatementKind::SetDiscriminant { place, variant_index } => Some(J::Obj(vec![
                ("k", s("setdiscr")),
                ("p", self.place(place)),
                ("vi", u(variant_index.as_usize())),
                ("ln", ln),
            ])),
            StatementKind::StorageDead(l) => {
                Some(J::Obj(vec![("k", s("dead")), ("l", u(l.as_usize()))]))
            }
            StatementKind::StorageLive(_) => None,
            _ => None,
        }
    }

    fn bb(&self, b: BasicBlock) -> J {
        u(b.as_usize())
    }

    fn unwind(&self, ua: &UnwindAction) -> J {
        match ua {
            UnwindAction::Cleanup(b) => self.bb(*b),
            _ => J::Null,
        }
    }

    fn term(&self, t: &Terminator<'tcx>) -> J {
        let (ln, mac) = self.loc(t.source_info.span);
        let mut f: Vec<(&'static str, J)> = Vec::new();
        match &t.kind {
            TerminatorKind::Goto { target } => {
                f.push(("k", s("goto")));
                f.push(("t", self.bb(*target)));
            }
            TerminatorKind::SwitchInt { discr, targets } => {
                f.push(("k", s("switch")));
                f.push(("d", self.operand(discr)));
                let dty: Ty<'tcx> = discr.ty(self.body, self.tcx);
                f.push(("dty", s(ty_str(dty))));
                let mut vals = Vec::new();
                let mut ts = Vec::new();
                for (v, b) in targets.iter() {
                    vals.push(J::Int(v as i128));
                    ts.push(self.bb(b));
                }
                f.push(("vals", J::Arr(vals)));
                f.push(("ts", J::Arr(ts)));
                f.push(("o", self.bb(targets.otherwise())));
            }
            TerminatorKind::Return => f.push(("k", s("return"))),
            TerminatorKind::Unreachable => f.push(("k", s("unreachable"))),
            TerminatorKind::UnwindResume => f.push(("k", s("resume"))),
            TerminatorKind::UnwindTerminate(_) => f.push(("k", s("terminate"))),
            TerminatorKind::Drop { place, target, unwind, .. } => {
                f.push(("k", s("drop")));
                f.push(("p", self.place(place)));
                f.push(("t", self.bb(*target)));
                f.push(("u", self.unwind(unwind)));
            }
            TerminatorKind::Call { func, args, destination, target, unwind, fn_span, .. } => {
                f.push(("k", s("call")));
                f.push(("f", self.operand(func)));
                f.push(("args", J::Arr(args.iter().map(|a| self.operand(&a.node)).collect())));
                f.push(("dest", self.place(destination)));
                f.push(("t", opt(*target, |b| self.bb(b))));
                f.push(("u", self.unwind(unwind)));
                let (fl, _m) = self.loc(*fn_span);
                f.push(("fln", fl));
            }
            TerminatorKind::TailCall { func, args, .. } => {
                f.push(("k", s("tailcall")));
                f.push(("f", self.operand(func)));
                f.push(("args", J::Arr(args.iter().map(|a| self.operand(&a.node)).collect())));
            }
            TerminatorKind::Assert { cond, expected, msg, target, unwind } => {
                f.push(("k", s("assert")));
                f.push(("c", self.operand(cond)));
                f.push(("exp", J::Bool(*expected)));
                let (mk, ops): (String, Vec<J>) = match &**msg {
                    AssertKind::BoundsCheck { len, index } => {
                        ("bounds".into(), vec![self.operand(len), self.operand(index)])
                    }
                    AssertKind::Overflow(op, a, b) => {
                        (format!("overflow:{:?}", op), vec![self.operand(a), self.operand(b)])
                    }
                    AssertKind::OverflowNeg(a) => ("overflow:Neg".into(), vec![self.operand(a)]),
                    AssertKind::DivisionByZero(a) => ("div0".into(), vec![self.operand(a)]),
                    AssertKind::RemainderByZero(a) => ("rem0".into(), vec![self.operand(a)]),
                    other => (format!("other:{:?}", other), vec![]),
                };
                f.push(("msg", s(mk)));
                f.push(("ops", J::Arr(ops)));
                f.push(("t", self.bb(*target)));
                f.push(("u", self.unwind(unwind)));
            }
            TerminatorKind::FalseEdge { real_target, .. } => {
                f.push(("k", s("goto")));
                f.push(("t", self.bb(*real_target)));
            }
            TerminatorKind::FalseUnwind { real_target, .. } => {
                f.push(("k", s("goto")));
                f.push(("t", self.bb(*real_target)));
            }
            other => {
                f.push(("k", s("other")));
                f.push(("dbg", s(format!("{:?}", other))));
            }
        }
        f.push(("ln", ln));
        f.push(("mac", mac));
        let _ = self.did;
        J::Obj(f)
    }
}
