//! Type-checked HIR → JSON expression trees with resolved paths, plus item tables.
use crate::json::*;
use crate::{impl_info, key, span_info, span_j, ty_str};
use rustc_hir as hir;
use rustc_hir::def::{CtorOf, DefKind, Res};
use rustc_hir::def_id::LocalDefId;
use rustc_middle::ty::{self, TyCtxt, TypeckResults};

struct Hx<'tcx> {
    tcx: TyCtxt<'tcx>,
    tr: &'tcx TypeckResults<'tcx>,
}

pub fn dump_hir<'tcx>(tcx: TyCtxt<'tcx>) -> J {
    let mut out = Vec::new();
    for ldid in tcx.hir_body_owners() {
        let did = ldid.to_def_id();
        let kind = tcx.def_kind(did);
        match kind {
            DefKind::Fn | DefKind::AssocFn | DefKind::Const { .. } | DefKind::Static { .. } | DefKind::AssocConst { .. } => {}
            _ => continue, // closures are inlined into their parents; anon consts skipped
        }
        if crate::generated_noise(tcx, did) {
            continue;
        }
        let body = tcx.hir_body_owned_by(ldid);
        let tr = tcx.typeck(ldid);
        let hx = Hx { tcx, tr };
        let params: Vec<J> = body.params.iter().map(|p| hx.pat(p.pat)).collect();
        out.push(J::Obj(vec![
            ("key", s(key(tcx, did))),
            ("name", s(tcx.opt_item_name(did).map(|n| n.to_string()).unwrap_or_default())),
            ("kind", s(format!("{:?}", kind).split(' ').next().unwrap_or("").trim_end_matches('{').to_string())),
            ("impl", impl_info(tcx, did)),
            ("span", span_j(tcx, tcx.def_span(did))),
            ("params", J::Arr(params)),
            ("body", hx.expr(body.value)),
        ]));
    }
    J::Arr(out)
}

impl<'tcx> Hx<'tcx> {
    fn res(&self, r: Res) -> J {
        match r {
            Res::Def(DefKind::Ctor(of, _), did) => {
                let parent = self.tcx.parent(did);
                J::Obj(vec![
                    ("kind", s(match of { CtorOf::Variant => "Variant", CtorOf::Struct => "Struct" })),
                    ("path", s(key(self.tcx, parent))),
                    ("ctor", J::Bool(true)),
                ])
            }
            Res::Def(k, did) => {
                let ks = format!("{:?}", k);
                let ks = ks.split(|c| c == ' ' || c == '(' || c == '{').next().unwrap_or("").to_string();
                J::Obj(vec![("kind", s(ks)), ("path", s(key(self.tcx, did)))])
            }
            Res::Local(id) => J::Obj(vec![
                ("kind", s("Local")),
                ("path", s(self.tcx.hir_name(id).to_string())),
            ]),
            Res::SelfCtor(did) => J::Obj(vec![("kind", s("SelfCtor")), ("path", s(key(self.tcx, did)))]),
            Res::SelfTyAlias { alias_to, .. } => {
                J::Obj(vec![("kind", s("SelfTy")), ("path", s(key(self.tcx, alias_to)))])
            }
            Res::PrimTy(p) => J::Obj(vec![("kind", s("PrimTy")), ("path", s(p.name_str()))]),
            other => J::Obj(vec![("kind", s("Other")), ("path", s(format!("{:?}", other)))]),
        }
    }

    fn ga(&self, id: hir::HirId, f: &mut Vec<(&'static str, J)>) {
        if let Some(args) = self.tr.node_args_opt(id) {
            let v: Vec<J> = args
                .iter()
                .filter(|a| a.as_region().is_none())
                .map(|a| s(crate::generic_arg_str(a)))
                .collect();
            if !v.is_empty() {
                f.push(("ga", J::Arr(v)));
            }
        }
    }

    fn qres(&self, q: &hir::QPath<'_>, id: hir::HirId) -> J {
        self.res(self.tr.qpath_res(q, id))
    }

    fn lit(&self, l: &rustc_ast::LitKind, neg: bool) -> J {
        use rustc_ast::LitKind::*;
        match l {
            Str(sym, _) => J::Obj(vec![("str", s(sym.to_string()))]),
            ByteStr(b, _) | CStr(b, _) => J::Obj(vec![(
                "bytes",
                J::Arr(b.as_byte_str().iter().map(|x| J::Int(*x as i128)).collect()),
            )]),
            Byte(b) => J::Obj(vec![("int", J::Int(*b as i128)), ("byte", J::Bool(true))]),
            Char(c) => J::Obj(vec![("char", s(c.to_string()))]),
            Int(v, _) => {
                let v = v.get();
                if v > i128::MAX as u128 {
                    J::Obj(vec![("big", s(format!("{}", v)))])
                } else {
                    let v = v as i128;
                    J::Obj(vec![("int", J::Int(if neg { -v } else { v }))])
                }
            }
            Float(sym, _) => J::Obj(vec![("float", s(format!("{}{}", if neg { "-" } else { "" }, sym)))]),
            Bool(b) => J::Obj(vec![("bool", J::Bool(*b))]),
            Err(_) => J::Null,
        }
    }

    fn ln(&self, sp: rustc_span::Span, f: &mut Vec<(&'static str, J)>) {
        let (_file, lo, _hi, macs) = span_info(self.tcx, sp);
        f.push(("ln", u(lo)));
        if !macs.is_empty() {
            f.push(("mac", J::Arr(macs.into_iter().map(s).collect())));
        }
    }

    fn pat_expr(&self, pe: &hir::PatExpr<'_>) -> J {
        match &pe.kind {
            hir::PatExprKind::Lit { lit, negated } => {
                J::Obj(vec![("k", s("lit")), ("v", self.lit(&lit.node, *negated))])
            }
            hir::PatExprKind::Path(q) => {
                J::Obj(vec![("k", s("path")), ("res", self.qres(q, pe.hir_id))])
            }
        }
    }

    fn pat(&self, p: &hir::Pat<'_>) -> J {
        use hir::PatKind::*;
        match &p.kind {
            Wild | Missing => J::Obj(vec![("k", s("wild"))]),
            Never => J::Obj(vec![("k", s("never"))]),
            Binding(mode, _id, ident, sub) => J::Obj(vec![
                ("k", s("bind")),
                ("n", s(ident.name.to_string())),
                ("by", s(format!("{:?}", mode.0))),
                ("sub", opt(*sub, |x| self.pat(x))),
                ("ty", opt(self.tr.node_type_opt(p.hir_id), |t| s(ty_str(t)))),
            ]),
            Struct(q, fields, rest) => J::Obj(vec![
                ("k", s("struct")),
                ("res", self.qres(q, p.hir_id)),
                (
                    "fields",
                    J::Arr(
                        fields
                            .iter()
                            .map(|f| J::Arr(vec![s(f.ident.name.to_string()), self.pat(f.pat)]))
                            .collect(),
                    ),
                ),
                ("rest", J::Bool(rest.is_some())),
            ]),
            TupleStruct(q, subs, ddpos) => J::Obj(vec![
                ("k", s("ts")),
                ("res", self.qres(q, p.hir_id)),
                ("subs", J::Arr(subs.iter().map(|x| self.pat(x)).collect())),
                ("dd", opt(ddpos.as_opt_usize(), u)),
            ]),
            Or(subs) => J::Obj(vec![
                ("k", s("or")),
                ("subs", J::Arr(subs.iter().map(|x| self.pat(x)).collect())),
            ]),
            Tuple(subs, ddpos) => J::Obj(vec![
                ("k", s("tuple")),
                ("subs", J::Arr(subs.iter().map(|x| self.pat(x)).collect())),
                ("dd", opt(ddpos.as_opt_usize(), u)),
            ]),
            Box(x) | Deref(x) => J::Obj(vec![("k", s("deref")), ("sub", self.pat(x))]),
            Ref(x, _, _) => J::Obj(vec![("k", s("ref")), ("sub", self.pat(x))]),
            Expr(pe) => self.pat_expr(pe),
            Guard(x, e) => J::Obj(vec![("k", s("guard")), ("sub", self.pat(x)), ("cond", self.expr(e))]),
            Range(lo, hi, end) => J::Obj(vec![
                ("k", s("range")),
                ("lo", opt(*lo, |x| self.pat_expr(x))),
                ("hi", opt(*hi, |x| self.pat_expr(x))),
                ("incl", J::Bool(matches!(end, hir::RangeEnd::Included))),
            ]),
            Slice(a, m, b) => J::Obj(vec![
                ("k", s("slice")),
                ("pre", J::Arr(a.iter().map(|x| self.pat(x)).collect())),
                ("mid", opt(*m, |x| self.pat(x))),
                ("post", J::Arr(b.iter().map(|x| self.pat(x)).collect())),
            ]),
            Err(_) => J::Null,
        }
    }

    fn block(&self, b: &hir::Block<'_>) -> J {
        let mut stmts = Vec::new();
        for st in b.stmts {
            match &st.kind {
                hir::StmtKind::Let(l) => {
                    let mut f = vec![
                        ("k", s("slet")),
                        ("pat", self.pat(l.pat)),
                        ("init", opt(l.init, |e| self.expr(e))),
                        ("els", opt(l.els, |e| self.block(e))),
                    ];
                    self.ln(l.span, &mut f);
                    stmts.push(J::Obj(f));
                }
                hir::StmtKind::Item(_) => {}
                hir::StmtKind::Expr(e) => stmts.push(self.expr(e)),
                hir::StmtKind::Semi(e) => stmts.push(J::Obj(vec![("k", s("semi")), ("e", self.expr(e))])),
            }
        }
        let mut f = vec![
            ("k", s("block")),
            ("stmts", J::Arr(stmts)),
            ("e", opt(b.expr, |e| self.expr(e))),
        ];
        if let hir::BlockCheckMode::UnsafeBlock(_) = b.rules {
            f.push(("unsafe", J::Bool(true)));
        }
        J::Obj(f)
    }

    fn expr(&self, e: &hir::Expr<'_>) -> J {
        use hir::ExprKind::*;
        let mut f: Vec<(&'static str, J)> = Vec::new();
        match &e.kind {
            DropTemps(x) | Use(x, _) => return self.expr(x),
            ConstBlock(_) => f.push(("k", s("constblock"))),
            Array(xs) => {
                f.push(("k", s("array")));
                f.push(("es", J::Arr(xs.iter().map(|x| self.expr(x)).collect())));
            }
            Call(fun, args) => {
                f.push(("k", s("call")));
                // resolved callee when the callee is a path
                if let Path(q) = &fun.kind {
                    f.push(("callee", self.qres(q, fun.hir_id)));
                    self.ga(fun.hir_id, &mut f);
                } else {
                    f.push(("f", self.expr(fun)));
                }
                f.push(("args", J::Arr(args.iter().map(|x| self.expr(x)).collect())));
            }
            MethodCall(seg, recv, args, _) => {
                f.push(("k", s("mcall")));
                f.push(("m", s(seg.ident.name.to_string())));
                if let Some(d) = self.tr.type_dependent_def_id(e.hir_id) {
                    f.push(("callee", s(key(self.tcx, d))));
                }
                self.ga(e.hir_id, &mut f);
                f.push(("recv_ty", s(ty_str(self.tr.expr_ty_adjusted(recv)))));
                f.push(("recv", self.expr(recv)));
                f.push(("args", J::Arr(args.iter().map(|x| self.expr(x)).collect())));
            }
            Tup(xs) => {
                f.push(("k", s("tup")));
                f.push(("es", J::Arr(xs.iter().map(|x| self.expr(x)).collect())));
            }
            Binary(op, a, b) => {
                f.push(("k", s("bin")));
                f.push(("op", s(format!("{:?}", op.node))));
                f.push(("a", self.expr(a)));
                f.push(("b", self.expr(b)));
                f.push(("aty", s(ty_str(self.tr.expr_ty(a)))));
            }
            Unary(op, a) => {
                f.push(("k", s("un")));
                f.push(("op", s(format!("{:?}", op))));
                f.push(("a", self.expr(a)));
            }
            Lit(l) => {
                f.push(("k", s("lit")));
                f.push(("v", self.lit(&l.node, false)));
            }
            Cast(x, _) | Type(x, _) => {
                f.push(("k", s("cast")));
                f.push(("e", self.expr(x)));
                f.push(("ty", s(ty_str(self.tr.expr_ty(e)))));
                f.push(("from", s(ty_str(self.tr.expr_ty(x)))));
            }
            Let(l) => {
                f.push(("k", s("let")));
                f.push(("pat", self.pat(l.pat)));
                f.push(("init", self.expr(l.init)));
                f.push(("ity", s(ty_str(self.tr.expr_ty(l.init)))));
            }
            If(c, t, el) => {
                f.push(("k", s("if")));
                f.push(("c", self.expr(c)));
                f.push(("t", self.expr(t)));
                f.push(("e", opt(*el, |x| self.expr(x))));
            }
            Loop(b, _, src, _) => {
                f.push(("k", s("loop")));
                f.push(("src", s(format!("{:?}", src))));
                f.push(("body", self.block(b)));
            }
            Match(scrut, arms, src) => {
                f.push(("k", s("match")));
                f.push(("src", s(format!("{:?}", src).split('(').next().unwrap_or("").to_string())));
                f.push(("sty", s(ty_str(self.tr.expr_ty(scrut)))));
                f.push(("scrut", self.expr(scrut)));
                let arms_j: Vec<J> = arms
                    .iter()
                    .map(|a| {
                        let mut af = vec![
                            ("pat", self.pat(a.pat)),
                            ("guard", opt(a.guard, |g| self.expr(g))),
                            ("body", self.expr(a.body)),
                        ];
                        self.ln(a.span, &mut af);
                        J::Obj(af)
                    })
                    .collect();
                f.push(("arms", J::Arr(arms_j)));
            }
            Closure(c) => {
                f.push(("k", s("closure")));
                f.push(("def", s(key(self.tcx, c.def_id.to_def_id()))));
                let body = self.tcx.hir_body(c.body);
                f.push(("params", J::Arr(body.params.iter().map(|p| self.pat(p.pat)).collect())));
                f.push(("body", self.expr(body.value)));
            }
            Block(b, _) => return self.block(b),
            Assign(a, b, _) => {
                f.push(("k", s("assign")));
                f.push(("a", self.expr(a)));
                f.push(("b", self.expr(b)));
            }
            AssignOp(op, a, b) => {
                f.push(("k", s("assignop")));
                f.push(("op", s(format!("{:?}", op.node))));
                f.push(("a", self.expr(a)));
                f.push(("b", self.expr(b)));
                f.push(("aty", s(ty_str(self.tr.expr_ty(a)))));
            }
            Field(x, ident) => {
                f.push(("k", s("field")));
                f.push(("n", s(ident.name.to_string())));
                f.push(("e", self.expr(x)));
                f.push(("bty", s(ty_str(self.tr.expr_ty_adjusted(x)))));
            }
            Index(a, b, _) => {
                f.push(("k", s("index")));
                f.push(("a", self.expr(a)));
                f.push(("b", self.expr(b)));
                f.push(("aty", s(ty_str(self.tr.expr_ty_adjusted(a)))));
                if let Some(d) = self.tr.type_dependent_def_id(e.hir_id) {
                    f.push(("callee", s(key(self.tcx, d))));
                }
            }
            Path(q) => {
                f.push(("k", s("path")));
                f.push(("res", self.qres(q, e.hir_id)));
                self.ga(e.hir_id, &mut f);
            }
            AddrOf(_, m, x) => {
                f.push(("k", s("ref")));
                f.push(("mut", J::Bool(matches!(m, hir::Mutability::Mut))));
                f.push(("e", self.expr(x)));
            }
            Break(_, x) => {
                f.push(("k", s("break")));
                f.push(("e", opt(*x, |x| self.expr(x))));
            }
            Continue(_) => f.push(("k", s("continue"))),
            Ret(x) => {
                f.push(("k", s("ret")));
                f.push(("e", opt(*x, |x| self.expr(x))));
            }
            Become(x) => {
                f.push(("k", s("become")));
                f.push(("e", self.expr(x)));
            }
            Struct(q, fields, tail) => {
                f.push(("k", s("struct")));
                f.push(("res", self.qres(q, e.hir_id)));
                f.push((
                    "fields",
                    J::Arr(
                        fields
                            .iter()
                            .map(|fl| J::Arr(vec![s(fl.ident.name.to_string()), self.expr(fl.expr)]))
                            .collect(),
                    ),
                ));
                if let hir::StructTailExpr::Base(b) = tail {
                    f.push(("base", self.expr(b)));
                }
            }
            Repeat(x, _) => {
                f.push(("k", s("repeat")));
                f.push(("e", self.expr(x)));
            }
            Yield(..) | InlineAsm(..) | OffsetOf(..) | UnsafeBinderCast(..) | Err(_) => {
                f.push(("k", s("other")));
            }
        }
        // type of the expression for the kinds where rules need it
        match &e.kind {
            Call(..) | MethodCall(..) | Path(..) | Field(..) | Struct(..) | Index(..) => {
                if let Some(t) = self.tr.expr_ty_opt(e) {
                    f.push(("ty", s(ty_str(t))));
                }
            }
            _ => {}
        }
        self.ln(e.span, &mut f);
        J::Obj(f)
    }
}

pub fn dump_items<'tcx>(tcx: TyCtxt<'tcx>) -> J {
    let mut out = Vec::new();
    for ldid in tcx.hir_crate_items(()).definitions() {
        let did = ldid.to_def_id();
        match tcx.def_kind(did) {
            DefKind::Enum | DefKind::Struct => {
                let adt = tcx.adt_def(did);
                let mut vs = Vec::new();
                let discrs: Vec<String> = if adt.is_enum() {
                    adt.discriminants(tcx).map(|(_, d)| format!("{}", d)).collect()
                } else {
                    vec![]
                };
                for (k, v) in adt.variants().iter().enumerate() {
                    let fields: Vec<J> = v
                        .fields
                        .iter()
                        .map(|fd| {
                            let t = tcx.type_of(fd.did).instantiate_identity().skip_norm_wip();
                            J::Obj(vec![
                                ("name", s(fd.name.to_string())),
                                ("ty", s(ty_str(t))),
                                ("pub", J::Bool(fd.vis.is_public())),
                            ])
                        })
                        .collect();
                    vs.push(J::Obj(vec![
                        ("name", s(v.name.to_string())),
                        ("discr", opt(discrs.get(k).cloned(), s)),
                        ("fields", J::Arr(fields)),
                        ("ctor", s(format!("{:?}", v.ctor_kind()))),
                    ]));
                }
                out.push(J::Obj(vec![
                    ("kind", s(if adt.is_enum() { "enum" } else { "struct" })),
                    ("key", s(key(tcx, did))),
                    ("pub", J::Bool(tcx.visibility(did).is_public())),
                    ("span", span_j(tcx, tcx.def_span(did))),
                    ("variants", J::Arr(vs)),
                ]));
            }
            DefKind::Impl { .. } => {
                let self_ty = tcx.type_of(did).instantiate_identity().skip_norm_wip();
                let tr = tcx.impl_opt_trait_ref(did).map(|t| {
                    let t = t.instantiate_identity().skip_norm_wip();
                    (key(tcx, t.def_id), with_trait_args(tcx, t))
                });
                let items: Vec<J> = tcx
                    .associated_items(did)
                    .in_definition_order()
                    .map(|ai| J::Obj(vec![("name", s(ai.name().to_string())), ("key", s(key(tcx, ai.def_id)))]))
                    .collect();
                out.push(J::Obj(vec![
                    ("kind", s("impl")),
                    ("self_ty", s(ty_str(self_ty))),
                    ("trait", opt(tr.clone().map(|x| x.0), s)),
                    ("trait_ref", opt(tr.map(|x| x.1), s)),
                    ("span", span_j(tcx, tcx.def_span(did))),
                    ("items", J::Arr(items)),
                ]));
            }
            DefKind::Const { .. } | DefKind::Static { .. } | DefKind::AssocConst { .. } => {
                let t = tcx.type_of(did).instantiate_identity().skip_norm_wip();
                out.push(J::Obj(vec![
                    ("kind", s("const")),
                    ("key", s(key(tcx, did))),
                    ("ty", s(ty_str(t))),
                    ("pub", J::Bool(tcx.visibility(did).is_public())),
                ]));
            }
            DefKind::Fn | DefKind::AssocFn => {
                let sig = tcx.fn_sig(did).instantiate_identity().skip_norm_wip();
                out.push(J::Obj(vec![
                    ("kind", s("fn")),
                    ("key", s(key(tcx, did))),
                    ("pub", J::Bool(tcx.visibility(did).is_public())),
                    ("sig", s(crate::ty_str_sig(tcx, sig))),
                    ("impl", impl_info(tcx, did)),
                    ("span", span_j(tcx, tcx.def_span(did))),
                ]));
            }
            _ => {}
        }
    }
    let _ = ty::List::<ty::Ty<'tcx>>::empty();
    let _: Option<LocalDefId> = None;
    J::Arr(out)
}

fn with_trait_args<'tcx>(_tcx: TyCtxt<'tcx>, t: ty::TraitRef<'tcx>) -> String {
    use rustc_middle::ty::print::{with_no_trimmed_paths, with_no_visible_paths, with_resolve_crate_name};
    with_resolve_crate_name!(with_no_visible_paths!(with_no_trimmed_paths!(format!("{}", t))))
}
