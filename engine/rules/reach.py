"""Decode-reachable function set of a crate: closure of the resolved call graph from the decoding entry points,
with open edges (calls on type parameters bounded by serde traits, fmt traits) closed over all impls in the crate."""
import re

from facts import op_const, term_callee


def call_graph(c):
    g = {}
    for k, b in c.bodies.items():
        outs = set()
        for bi, t, cal in b.call_sites():
            d, r = term_callee(t)
            for x in (r, d):
                if x and x in c.bodies:
                    outs.add(x)
            for a in t["args"]:
                kk = op_const(a)
                if kk and kk.get("fn") in c.bodies:
                    outs.add(kk["fn"])
                if kk and kk.get("closure") in c.bodies:
                    outs.add(kk["closure"])
        for cl in b.closures():
            outs.add(cl.key)
        g[k] = outs
    return g


DECODE_ROOT_FILES = ("candid/src/de.rs",)
FMT_TYPES = r"(internal::(Type|TypeInner|Field|Label|Function|TypeId)|TypeEnv|error::Error|Principal|PrincipalError)"


def decode_roots(c, crate):
    roots = set()
    for k, b in c.bodies.items():
        fl = b.span["file"]
        im = b.impl or {}
        tr = im.get("trait") or ""
        if crate == "candid" and fl.endswith(DECODE_ROOT_FILES):
            roots.add(k)
        if tr.endswith("de::Deserialize") or tr.endswith("de::Visitor") or tr.endswith("de::DeserializeSeed"):
            roots.add(k)
        if (tr.endswith("fmt::Display") or tr.endswith("fmt::Debug")) and re.search(FMT_TYPES, im.get("self_ty", "")):
            roots.add(k)
        if re.search(r"value::IDLArgs::from_bytes|candid::utils::decode_|candid::binary_parser::", k):
            roots.add(k)
        if (tr.endswith("convert::TryFrom") or tr.endswith("convert::From")) and "Principal" in im.get("self_ty", ""):
            roots.add(k)
    return roots


def reachable(c, roots):
    g = call_graph(c)
    seen = set(roots)
    st = list(roots)
    while st:
        v = st.pop()
        for w in g.get(v, ()):
            if w not in seen:
                seen.add(w)
                st.append(w)
    return seen, g


def sccs(g, nodes=None):
    """strongly connected components with a cycle (size > 1 or self loop), iterative Tarjan"""
    nodes = list(g) if nodes is None else list(nodes)
    idx, low, on, stack, out = {}, {}, set(), [], []
    n = [0]
    for root in nodes:
        if root in idx:
            continue
        work = [(root, iter(g.get(root, ())))]
        idx[root] = low[root] = n[0]
        n[0] += 1
        stack.append(root)
        on.add(root)
        while work:
            v, it = work[-1]
            adv = False
            for w in it:
                if w not in g:
                    continue
                if w not in idx:
                    idx[w] = low[w] = n[0]
                    n[0] += 1
                    stack.append(w)
                    on.add(w)
                    work.append((w, iter(g.get(w, ()))))
                    adv = True
                    break
                elif w in on:
                    low[v] = min(low[v], idx[w])
            if adv:
                continue
            work.pop()
            if work:
                low[work[-1][0]] = min(low[work[-1][0]], low[v])
            if low[v] == idx[v]:
                comp = []
                while True:
                    w = stack.pop()
                    on.discard(w)
                    comp.append(w)
                    if w == v:
                        break
                if len(comp) > 1 or v in g.get(v, ()):
                    out.append(sorted(comp))
    return out
