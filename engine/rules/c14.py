"""C14 — the type checker accepts exactly the well-formed programs (structural clauses).

R1  every well-formedness rule has an enforcing check on every accepting path: entry points reach check_decs (and
    check_actor); check_decs runs the duplicate-binding test, check_defs, check_cycle, validate_decs before Ok and leaves
    the pre-pass flag off; check_type looks every name up (closedness) and applies both function-mode rules before
    building a Function; check_meths / validate_type require methods to be functions; check_actor requires a service.
    The error-return sites of the checker are inventoried with a floor.
R2  recursive helpers over a checked environment carry a visited set that guards the recursion on the Var arm.
R3  uniqueness of field ids / method names / argument names: every list constructor in the grammar sorts and then calls
    check_unique (shared rule, = C15.R3); resolve_actor rejects two imported methods with the same hash.
"""
import re

from facts import AnchorMissing, callee, expr_path, nodes, pat_variants, unblock, walk
from shared import Spec, arm_rows, the_match
import c13_util as U
import sorted_unique

TITLE = ("C14: each well-formedness rule of spec/Candid.md has an enforcing, result-propagating check on every accepting path of "
         "check_prog / check_init_args / check_file_; recursive environment walkers are guarded by a visited set; "
         "label / method / argument uniqueness is checked after sorting in every grammar action.")

TI = "candid::types::internal::TypeInner::"
ERR_SITE_FLOOR = 14


class Keys:
    def __init__(self, chk):
        self._c = chk

    @staticmethod
    def k(key):
        return key.replace("::", ".")

    def ok(self, key, detail=None, nontrivial=True):
        return self._c.ok(self.k(key), detail, nontrivial)

    def bad(self, key, msg, where=None, detail=None):
        return self._c.bad(self.k(key), msg, where, detail)

    def expect(self, cond, key, msg, where=None, detail=None, ok_detail=None):
        return self._c.expect(cond, self.k(key), msg, where, detail, ok_detail)

    def __getattr__(self, name):
        return getattr(self._c, name)


# ----------------------------------------------------------------------------------------------------------- helpers
def is_err_value(e):
    """`Err(..)` / `Err({ let error = …; error })` / `from_residual(..)`"""
    e = unblock(e)
    if isinstance(e, dict) and e.get("k") == "call":
        c = callee(e) or ""
        return c.endswith("Result::Err") or c.endswith("from_residual")
    return False


def ends_in_error(node):
    """the branch cannot fall through: its last statement / tail is `return Err(..)` (or an Err value as tail)"""
    n = unblock(node)
    if not isinstance(n, dict):
        return False
    if n.get("k") == "semi":
        return ends_in_error(n["e"])
    if n.get("k") == "ret":
        return n.get("e") is not None and is_err_value(n["e"])
    if n.get("k") == "block":
        if n.get("e") is not None:
            return ends_in_error(n["e"])
        st = n.get("stmts") or []
        return bool(st) and ends_in_error(st[-1])
    if n.get("k") == "if" and n.get("e") is not None:
        return ends_in_error(n["t"]) and ends_in_error(n["e"])
    if n.get("k") == "call" and (callee(n) or "").endswith("core::hint::must_use"):
        return False
    return is_err_value(n)


def diverges(node):
    """the branch ends in `return` / `continue` / `break` (any value)"""
    n = unblock(node)
    if not isinstance(n, dict):
        return False
    if n.get("k") == "semi":
        return diverges(n["e"])
    if n.get("k") in ("ret", "continue", "break"):
        return True
    if n.get("k") == "block":
        if n.get("e") is not None:
            return diverges(n["e"])
        st = n.get("stmts") or []
        return bool(st) and diverges(st[-1])
    return False


def within(tree, node, ancestor_field_owner, field):
    """is `node` inside ancestor[field]?"""
    target = ancestor_field_owner.get(field)
    return any(x is node for x in walk(target)) if target is not None else False


def test_guards_error(tree, test):
    """`test` is an is_err()/is_some()/is_ok()/is_none() call or an if-let/match: does its failing outcome end in an error?"""
    if test.get("k") == "mcall":
        bad_when_true = test["m"] in ("is_err", "is_some")
        if test["m"] not in ("is_err", "is_some", "is_ok", "is_none"):
            return False
        cur = test
        negs = 0
        for p in tree.ancestors(test):
            if p.get("k") == "un" and p.get("op") == "Not":
                negs += 1
            if p.get("k") == "bin" and p.get("op") == "Or":
                return False        # a disjunction does not make the test necessary
            if p.get("k") == "if" and within(tree, cur, p, "c"):
                err_branch = p["t"] if (bad_when_true != (negs % 2 == 1)) else p.get("e")
                return err_branch is not None and ends_in_error(err_branch)
            if p.get("k") in ("block", "slet", "semi", "closure"):
                return False
            cur = p
        return False
    if test.get("k") == "let":       # `if let Some(prev) = X { return Err }`
        par = tree.up(test)
        if par is not None and par.get("k") == "if" and par.get("c") is test:
            heads = [v.rsplit("::", 1)[-1] for v in pat_variants(test["pat"])]
            if "Some" in heads or "Err" in heads:
                return ends_in_error(par["t"])
            if "None" in heads or "Ok" in heads:
                return par.get("e") is not None and ends_in_error(par["e"])
        return False
    if test.get("k") == "match":
        for a in test["arms"]:
            heads = [v.rsplit("::", 1)[-1] for v in pat_variants(a["pat"])]
            if ("Some" in heads or "Err" in heads or "Break" in heads) and ends_in_error(a["body"]):
                return True
        return False
    if test.get("k") == "slet" and test.get("els") is not None:      # `let Ok(x) = X else { return Err }`
        return ends_in_error(test["els"])
    return False


def enforced(tree, call):
    """is the Result / Option of `call` turned into an error return when it signals failure?  -> (bool, how)"""
    kind, at = U.consumer(tree, call)
    if kind == "try":
        return True, "?"
    if kind == "returned":
        return True, "returned"
    if kind in ("test", "match"):
        return test_guards_error(tree, at), kind
    return False, kind


def calls_to(tree, callee_re):
    rx = re.compile(callee_re)
    return [n for n in walk(tree.h["body"]) if n.get("k") in ("call", "mcall") and rx.search(callee(n) or "")]


def mentions_local(node, name):
    return any(n.get("k") == "path" and (n.get("res") or {}).get("kind") == "Local" and n["res"]["path"] == name for n in walk(node))


def bind_names(pat):
    return [n["n"] for n in walk(pat) if n.get("k") == "bind"]


def accepting_blocks(body):
    """blocks that give the return place a non-error value"""
    out = []
    for bi, blk in enumerate(body.blocks):
        if body.is_cleanup(bi):
            continue
        for s in blk["s"]:
            if s["k"] == "assign" and s["p"]["l"] == 0 and not s["p"].get("p"):
                r = s["r"]
                if r.get("k") == "agg" and str(r.get("variant")) in ("Err", "1") and "Result" in str(r.get("adt")):
                    continue
                out.append(bi)
        t = blk["t"]
        if t["k"] == "call" and t.get("dest") is not None and t["dest"]["l"] == 0 and not t["dest"].get("p"):
            from facts import term_callee
            d, r = term_callee(t)
            if (r or d or "").endswith("from_residual"):
                continue
            out.append(bi)
    return sorted(set(out))


def call_blocks(body, callee_re):
    rx = re.compile(callee_re)
    return [bi for bi, _t, cal in body.call_sites() if cal and rx.search(cal) and not body.is_cleanup(bi)]


def run(chk, facts, tier, only=None):
    chk = Keys(chk)
    cp = facts.crate("candid_parser")
    ca = facts.crate("candid")
    trees = {}

    def tree(crate, key_re):
        h = crate.fn(key_re)
        if h["key"] not in trees:
            trees[h["key"]] = U.Tree(h)
        chk.analysed(h["key"])
        return trees[h["key"]]

    def where(t, n):
        return f"{t.h['span']['file']}:{n.get('ln')}" if isinstance(n, dict) else None

    def must_pass(fn_re, required):
        """every accepting exit of fn is dominated by a call of each required callee, whose result is enforced"""
        t = tree(cp, fn_re)
        b = cp.body(fn_re)
        fname = b.name
        acc = accepting_blocks(b)
        if not acc:
            raise AnchorMissing(f"{b.key}: no accepting exit found in the MIR")
        dom = b.dominators()
        for label, cre in required:
            k = f"mpt:{fname}:{label}"
            cbs = call_blocks(b, cre)
            hcalls = calls_to(t, cre)
            if not cbs or not hcalls:
                chk.bad(k, f"{b.key} never calls {label}: programs are accepted without that check", where=f"{b.span['file']}:{b.span['lo']}")
                continue
            undominated = [a for a in acc if a in dom and not any(cb in dom[a] for cb in cbs)]
            if undominated:
                chk.bad(k, f"{b.key}: an accepting exit (MIR block(s) {undominated}) is reachable without passing the call of {label}",
                        where=f"{b.span['file']}:{b.span['lo']}")
                continue
            enf = [enforced(t, c) for c in hcalls]
            chk.expect(all(e[0] for e in enf), k,
                       f"{b.key}: {label} is called but its failure is not propagated (result goes to `{[e[1] for e in enf if not e[0]]}`)",
                       where=where(t, hcalls[0]), ok_detail=f"dominates every accepting exit; result propagated by {sorted({e[1] for e in enf})}")

    # ------------------------------------------------------------------------------------------------ R1
    def r1():
        # (a) entry points
        must_pass(r"^candid_parser::typing::check_prog$", [("check_decs", r"typing::check_decs$"), ("check_actor", r"typing::check_actor$")])
        must_pass(r"^candid_parser::typing::check_init_args$", [("check_decs", r"typing::check_decs$")])
        must_pass(r"^candid_parser::typing::check_file_$", [("check_decs", r"typing::check_decs$"), ("check_actor", r"typing::check_actor$"),
                                                             ("resolve_actor", r"IDLMergedProg::resolve_actor$")])
        # every type of the init-args list / of an actor class goes through check_type
        t = tree(cp, r"^candid_parser::typing::check_init_args$")
        cts = calls_to(t, r"typing::check_type$")
        chk.expect(bool(cts) and all(enforced(t, c)[0] for c in cts), "mpt:check_init_args:check_type",
                   "check_init_args must check every argument type with check_type(..)?", ok_detail=f"{len(cts)} propagated call(s)")
        # (b) check_decs
        must_pass(r"^candid_parser::typing::check_decs$", [("check_defs", r"typing::check_defs$"), ("check_cycle", r"typing::check_cycle$"),
                                                            ("validate_decs", r"typing::validate_decs$")])
        t = tree(cp, r"^candid_parser::typing::check_decs$")
        ins = [n for n in calls_to(t, r"btree::map::BTreeMap::<K, V, A>::insert$") if "te" in (expr_path(n.get("recv")) or "")]
        if not ins:
            chk.bad("dup-binding:check_decs", "check_decs no longer inserts placeholder bindings into env.te.0 (duplicate definitions cannot be detected)",
                    where=f"{t.h['span']['file']}:{t.h['span']['lo']}")
        for n in ins:
            ok, how = enforced(t, n)
            chk.expect(ok, "dup-binding:check_decs",
                       f"check_decs: the previous value returned by env.te.0.insert(id, placeholder) is not tested (goes to `{how}`): "
                       f"a second `type {'{id}'} = …` silently replaces the first instead of being rejected", where=where(t, n),
                       ok_detail="insert(..) result tested, Some(_) ends in `return Err`")
        # pre-pass flag: on before check_defs, off again before the function accepts
        pres = [n for n in walk(t.h["body"]) if n.get("k") == "assign" and (expr_path(n["a"]) or "").endswith(".pre")]
        defs = calls_to(t, r"typing::check_defs$")
        vals = [unblock(n["b"]).get("v", {}).get("bool") if unblock(n["b"]).get("k") == "lit" else None for n in pres]
        last_false = bool(pres) and vals[-1] is False and bool(defs) and t.order[id(pres[-1])] > t.order[id(defs[0])]
        first_true = bool(pres) and vals[0] is True and bool(defs) and t.order[id(pres[0])] < t.order[id(defs[0])]
        chk.expect(last_false and first_true, "pre-flag:check_decs",
                   f"check_decs must set env.pre = true before check_defs and leave env.pre = false (else check_meths skips the method-is-a-function "
                   f"test for the actor); found assignments {vals}", ok_detail="pre = true … check_defs … pre = false")
        # (c) closedness: VarT arm
        t = tree(cp, r"^candid_parser::typing::check_type$")
        m = the_match(t.h, r"IDLType$", 5)
        rows = arm_rows(m)
        var_rows = [r for r in rows if any(h[0] == "candid_parser::syntax::IDLType::VarT" for h in r["heads"])]
        fun_rows = [r for r in rows if any(h[0] == "candid_parser::syntax::IDLType::FuncT" for h in r["heads"])]
        if len(var_rows) != 1 or len(fun_rows) != 1:
            raise AnchorMissing("check_type: VarT / FuncT arms not found")
        r = var_rows[0]
        names = bind_names(r["pat"])
        ctor = [n for n in walk(r["body"]) if n.get("k") == "call" and (callee(n) or "") == TI + "Var"]
        look = [n for n in walk(r["body"]) if n.get("k") in ("call", "mcall") and re.search(r"TypeEnv::(find_type|rec_find_type)$", callee(n) or "")
                and any(mentions_local(a, nm) for a in n.get("args", []) for nm in names)]
        okl = [n for n in look if enforced(t, n)[0] and (not ctor or t.order[id(n)] < t.order[id(ctor[0])])]
        chk.expect(bool(ctor) and bool(okl), "closed:check_type:VarT",
                   "check_type: the VarT arm must look the name up (`env.te.find_type(id)?`) before producing TypeInner::Var — otherwise "
                   "undefined names are accepted and every later find_type / trace_type on the environment fails or panics",
                   where=f"{t.h['span']['file']}:{r['ln']}", ok_detail="find_type(id)? precedes TypeInner::Var(id)")
        # (d) function modes
        r = fun_rows[0]
        fstruct = [n for n in walk(r["body"]) if n.get("k") == "struct" and (n.get("res") or {}).get("path") == "candid::types::internal::Function"]
        if not fstruct:
            raise AnchorMissing("check_type: FuncT arm does not build candid::types::internal::Function")
        fs = fstruct[0]
        rets_local = None
        for nm, e in fs["fields"]:
            if nm == "rets":
                rets_local = U.strip_to_local(e)
        err_ifs = [n for n in walk(r["body"]) if n.get("k") == "if" and ends_in_error(n["t"]) and t.order[id(n)] < t.order[id(fs)]]

        def is_len_of_modes(e):
            e = unblock(e)
            return e.get("k") == "mcall" and e["m"] == "len" and (expr_path(e["recv"]) or "").endswith(".modes")

        def lit(e):
            e = unblock(e)
            return e["v"].get("int") if e.get("k") == "lit" else None

        def many_modes(c):
            for b in [x for x in walk(c) if x.get("k") == "bin"]:
                if is_len_of_modes(b["a"]) and ((b["op"] == "Gt" and lit(b["b"]) == 1) or (b["op"] == "Ge" and lit(b["b"]) == 2)):
                    return True
                if is_len_of_modes(b["b"]) and ((b["op"] == "Lt" and lit(b["a"]) == 1) or (b["op"] == "Le" and lit(b["a"]) == 2)):
                    return True
            return False

        def oneway_rets(c):
            ow = any(x.get("k") == "path" and (x.get("res") or {}).get("path") == "candid::types::internal::FuncMode::Oneway" for x in walk(c))
            empt = False
            for x in walk(c):
                if x.get("k") == "mcall" and x["m"] in ("is_empty", "len"):
                    loc = U.strip_to_local(x["recv"])
                    if (rets_local and loc == rets_local) or (expr_path(x["recv"]) or "").endswith(".rets"):
                        empt = True
            return ow and empt
        chk.expect(any(many_modes(n["c"]) for n in err_ifs), "func-modes:at-most-one",
                   "check_type: the FuncT arm must reject more than one annotation (`if func.modes.len() > 1 { return Err }`) before building the Function",
                   where=f"{t.h['span']['file']}:{r['ln']}", ok_detail="modes.len() > 1 ⇒ Err, before Function { .. }")
        chk.expect(any(oneway_rets(n["c"]) for n in err_ifs), "func-modes:oneway-no-results",
                   "check_type: the FuncT arm must reject a oneway function with results (a test mentioning FuncMode::Oneway and the emptiness of the "
                   "result list, ending in `return Err`) before building the Function",
                   where=f"{t.h['span']['file']}:{r['ln']}", ok_detail="oneway ∧ !rets.is_empty() ⇒ Err, before Function { .. }")
        # (e) methods are functions
        t = tree(cp, r"^candid_parser::typing::check_meths$")
        afs = calls_to(t, r"TypeEnv::as_func$")
        good = [n for n in afs if enforced(t, n)[0]]
        pre_ok = True
        for n in good:
            for p in t.ancestors(n):
                if p.get("k") == "if":
                    for x in walk(p["c"]):
                        if x.get("k") == "field" and x["n"] == "pre":
                            neg = any(a.get("k") == "un" and a.get("op") == "Not" for a in t.ancestors(x) if any(y is x for y in walk(a)) and any(y is a for y in walk(p["c"])))
                            pre_ok = pre_ok and neg
        chk.expect(bool(good) and pre_ok, "meth-is-func:check_meths",
                   "check_meths: every method type must be tested with env.te.as_func(&t) (failure ⇒ Err) whenever !env.pre",
                   where=f"{t.h['span']['file']}:{t.h['span']['lo']}", ok_detail="!env.pre && as_func(&t).is_err() ⇒ Err")
        t = tree(cp, r"^candid_parser::typing::validate_type$")
        m = the_match(t.h, r"TypeInner$", 5)
        srows = [r for r in arm_rows(m) if any(h[0] == TI + "Service" for h in r["heads"])]
        if len(srows) != 1:
            raise AnchorMissing("validate_type: Service arm not found")
        r = srows[0]
        afs = [n for n in walk(r["body"]) if n.get("k") in ("call", "mcall") and (callee(n) or "").endswith("TypeEnv::as_func")]

        def unconditional_in_loop(n):
            """n sits in the body of the for loop over the methods and no if / match arm lies between the loop body and n
            (the `?` desugaring, where n is the scrutinee, is not a condition)"""
            for p in t.ancestors(n):
                if p.get("k") == "match" and p.get("src") == "ForLoopDesugar":
                    return True
                if p.get("k") == "if" and not any(x is n for x in walk(p["c"])):
                    return False
                if p.get("k") == "match" and not any(x is n for x in walk(p["scrut"])):
                    return False
                if p.get("k") in ("closure",):
                    return False
            return False
        in_loop = [n for n in afs if unconditional_in_loop(n) and enforced(t, n)[0]]
        chk.expect(bool(in_loop), "meth-is-func:validate_type",
                   "validate_type: the Service arm must call env.as_func(ty)? for every method (unconditionally inside the loop over the methods)",
                   where=f"{t.h['span']['file']}:{r['ln']}", ok_detail="for (_, ty) in methods { env.as_func(ty)?; … }")
        # (f) the actor is a service
        t = tree(cp, r"^candid_parser::typing::check_actor$")
        somes = [n for n in walk(t.h["body"]) if n.get("k") == "call" and (callee(n) or "").endswith("Option::Some")
                 and any(p.get("k") == "call" and (callee(p) or "").endswith("Result::Ok") for p in t.ancestors(n))]
        if not somes:
            raise AnchorMissing("check_actor: no Ok(Some(_)) exit found")
        top = the_match(t.h, r"Option<", 2, first=True)
        for i, n in enumerate(somes):
            arm = next((a for a in top["arms"] if any(x is n for x in walk(a["body"]))), None)
            scope = arm["body"] if arm else t.h["body"]
            svc = [c for c in walk(scope) if c.get("k") in ("call", "mcall") and (callee(c) or "").endswith("TypeEnv::as_service")
                   and t.order[id(c)] < t.order[id(n)] and enforced(t, c)[0]]
            heads = ",".join(v.rsplit("::", 1)[-1] for v in pat_variants(arm["pat"])) if arm else "?"
            chk.expect(bool(svc), f"actor-is-service:check_actor:{heads or 'Some(_)'}",
                       f"check_actor: the arm `{heads}` returns Ok(Some(_)) without env.te.as_service(..)? — a main actor that is not a service type is accepted",
                       where=where(t, n), ok_detail="as_service(..)? precedes Ok(Some(_))")
        # (g) inventory of error-return sites of the checker
        total = 0
        for crate, key_re in ((cp, r"^candid_parser::typing::(check_type|check_meths|check_decs|check_cycle|check_actor|check_init_args|check_prog)$"),
                              (cp, r"^candid_parser::syntax::IDLMergedProg::(resolve_actor|chase_service|merge)$"),
                              (ca, r"^candid::types::type_env::TypeEnv::(find_type|as_func_with_depth|as_service_with_depth|merge)$"),
                              (ca, r"^candid::utils::check_unique$")):
            for h in crate.fns(key_re):
                chk.analysed(h["key"])
                total += len([n for n in walk(h["body"]) if n.get("k") == "call" and (callee(n) or "").endswith("Result::Err")])
                total += len([n for n in walk(h["body"]) if n.get("k") == "mcall" and n["m"] in ("with_context", "context", "ok_or", "ok_or_else")])
        chk.floor("error-return sites of the checker (typing.rs, IDLMergedProg, TypeEnv lookups, check_unique)", total, ERR_SITE_FLOOR)

    # ------------------------------------------------------------------------------------------------ R2
    def r2():
        helpers = ((cp, r"^candid_parser::typing::check_cycle::has_cycle$", "has_cycle"),
                   (cp, r"^candid_parser::typing::validate_type$", "validate_type"),
                   (cp, r"^candid_parser::bindings::analysis::chase_type$", "chase_type"),
                   (cp, r"^candid_parser::bindings::analysis::infer_rec::go$", "infer_rec::go"),
                   (cp, r"^candid_parser::random::size_helper$", "size_helper"))
        found = 0
        from shared import scanner_of_infer_rec
        for crate, key_re, name in helpers:
            if name == "infer_rec::go":
                key_re = "^" + re.escape(scanner_of_infer_rec(cp)["key"]) + "$"
            try:
                t = tree(crate, key_re)
            except AnchorMissing as e_:
                # keep going: the remaining walkers and check_cycle's own rule still say something specific
                chk.bad(f"visited:{name}:anchor", f"anchor moved (not necessarily a property violation): {e_}")
                found += 1
                continue
            key = t.h["key"]
            m = the_match(t.h, r"TypeInner$", 2)
            vrows = [r for r in arm_rows(m) if any(h[0] == TI + "Var" for h in r["heads"])]
            if not vrows:
                raise AnchorMissing(f"{key}: no arm for TypeInner::Var")
            # collection parameters that can serve as visited sets
            sets = [b["n"] for p in t.h["params"] for b in walk(p) if b.get("k") == "bind" and re.search(r"(BTreeSet|HashSet|BTreeMap|HashMap)<", b.get("ty") or "")]
            for r in vrows:
                found += 1
                scope = [r["body"]] + ([r["guard"]] if r.get("guard") else [])
                rec = [n for s in scope for n in walk(s) if n.get("k") == "call" and (callee(n) or "") == key]
                inserts = [n for s in scope for n in walk(s) if n.get("k") == "mcall" and n["m"] == "insert" and (U.strip_to_local(n["recv"]) in sets)]
                k = f"visited:{name}"
                if not rec:
                    chk.ok(k, "the Var arm does not recurse")
                    continue
                bad = []
                for c in rec:
                    guarded = False
                    # (i) insert in the arm guard
                    if r.get("guard") and any(any(x is i for x in walk(r["guard"])) for i in inserts):
                        guarded = True
                    for p in t.ancestors(c):
                        # (ii) `if seen.insert(id) { … recurse … }`
                        if p.get("k") == "if" and any(any(x is i for x in walk(p["c"])) for i in inserts):
                            in_then = any(x is c for x in walk(p["t"]))
                            neg = any(x.get("k") == "un" and x.get("op") == "Not" for x in walk(p["c"]))
                            if in_then != neg:
                                guarded = True
                        # (ii') `if seen.contains(id) { … } else { seen.insert(id); recurse }` (or the negated form)
                        if p.get("k") == "if":
                            tests = [x for x in walk(p["c"]) if x.get("k") == "mcall" and x["m"] in ("contains", "contains_key", "get")
                                     and U.strip_to_local(x["recv"]) in sets]
                            if tests:
                                neg = any(x.get("k") == "un" and x.get("op") == "Not" for x in walk(p["c"]))
                                fresh_branch = p["t"] if neg else p.get("e")
                                if fresh_branch is not None and any(x is c for x in walk(fresh_branch)) and any(
                                        t.order[id(i)] < t.order[id(c)] and any(x is i for x in walk(fresh_branch)) for i in inserts):
                                    guarded = True
                        # (iii) `match seen.get(id) { None => { seen.insert(..); recurse } … }`
                        if p.get("k") == "match" and p is not m:
                            sc = unblock(p["scrut"])
                            if sc.get("k") == "mcall" and sc["m"] in ("get", "contains", "contains_key") and U.strip_to_local(sc["recv"]) in sets:
                                arm = next((a for a in p["arms"] if any(x is c for x in walk(a["body"]))), None)
                                if arm and ("None" in [v.rsplit("::", 1)[-1] for v in pat_variants(arm["pat"])] or
                                            (arm["pat"].get("k") == "lit")):
                                    if any(t.order[id(i)] < t.order[id(c)] and any(x is i for x in walk(arm["body"])) for i in inserts):
                                        guarded = True
                    # (iv) early exit: `if !seen.insert(id) { return … }` earlier in an enclosing block
                    for i in inserts:
                        for p in t.ancestors(i):
                            if p.get("k") == "if" and any(x is i for x in walk(p["c"])) and not any(x is c for x in walk(p)):
                                neg = any(x.get("k") == "un" and x.get("op") == "Not" for x in walk(p["c"]))
                                seen_branch = p["t"] if neg else p.get("e")
                                blk = t.up(p)
                                while blk is not None and blk.get("k") in ("semi",):
                                    blk = t.up(blk)
                                if seen_branch is not None and diverges(seen_branch) and t.order[id(p)] < t.order[id(c)] \
                                        and blk is not None and any(x is c for x in walk(blk)):
                                    guarded = True
                                break
                    if not guarded:
                        bad.append(c)
                chk.expect(not bad, k,
                           f"{key}: the Var arm recurses into the definition of the name without a visited-set insertion guarding the call "
                           f"(sets available: {sets}); on a recursive type definition the walk does not terminate",
                           where=where(t, bad[0]) if bad else None, ok_detail=f"{len(rec)} recursive call(s) guarded by an insertion into {sets}")
        chk.floor("recursive walkers over a checked environment with a Var arm", found, 5)
        # vacuity is a property of each definition: the chain followed from one name must be judged against the names met on *that*
        # chain only, so the visited set handed to has_cycle is created inside the loop over the definitions
        t = tree(cp, r"^candid_parser::typing::check_cycle$")
        # whatever shape the walk has: every set of names created in check_cycle is created inside the loop over the definitions
        sets_ = [n for n in walk(t.h["body"]) if n.get("k") == "slet" and n.get("init") is not None
                 and re.search(r"(BTreeSet|HashSet|BTreeMap|HashMap|Vec)<", str((n.get("pat") or {}).get("ty") or ""))
                 and (callee(unblock(n["init"])) or "").endswith("::new")]
        if not sets_:
            raise AnchorMissing("check_cycle: no visited set is created (the cycle test was rewritten)")
        outside = [n for n in sets_ if not any(p.get("k") == "match" and p.get("src") == "ForLoopDesugar" for p in t.ancestors(n))]
        chk.expect(not outside, "visited:check_cycle:fresh-per-definition",
                   f"check_cycle: the set of visited names `{(outside[0]['pat'] or {}).get('n') if outside else ''}` is created once, outside the loop over "
                   f"the definitions: the verdict for one name then depends on the chains followed for earlier names (a cycle reached through an "
                   f"already-followed name is missed, or a shared prefix is reported as a cycle)",
                   where=where(t, outside[0]) if outside else None,
                   ok_detail=f"{len(sets_)} visited set(s), each created inside the loop over the definitions")

    # ------------------------------------------------------------------------------------------------ R3
    def r3():
        sorted_unique.run_rule(chk, facts, Spec())
        t = tree(cp, r"^candid_parser::syntax::IDLMergedProg::resolve_actor$")
        ins = [n for n in calls_to(t, r"hash::map::HashMap::<K, V, S, A>::insert$|btree::map::BTreeMap::<K, V, A>::insert$")
               if n.get("args") and any((callee(x) or "") == "candid::idl_hash" for x in walk(n["args"][0]))]
        if not ins:
            chk.bad("dup-import:resolve_actor", "resolve_actor no longer records the hash of every merged method name (insert keyed by candid::idl_hash)",
                    where=f"{t.h['span']['file']}:{t.h['span']['lo']}")
        for n in ins:
            ok, how = enforced(t, n)
            in_loop = any(p.get("k") == "match" and p.get("src") == "ForLoopDesugar" for p in t.ancestors(n))
            chk.expect(ok and in_loop, "dup-import:resolve_actor",
                       f"resolve_actor: the previous entry returned by hashes.insert(idl_hash(name), ..) must end in an error for every merged method "
                       f"(result goes to `{how}`, inside a loop: {in_loop})", where=where(t, n),
                       ok_detail="insert(idl_hash(name), name) = Some(previous) ⇒ bail!")

    # ------------------------------------------------------------------------------------------------ R4
    def r4():
        """The declaration pass (check_defs and what it calls, run with env.pre = true) sees an environment in which the definitions checked
        so far are real and the others are still `unknown`.  A test that *follows* a name through that environment would make acceptance depend
        on the order of the definitions — and the type-level printer emits them in name order, not in source order.  So, in every function
        reachable from check_defs: a lookup may only test that the name exists (its value is dropped after `?`), and any call that resolves a
        name further is under a `!env.pre` guard."""
        root = cp.fn(r"^candid_parser::typing::check_defs$")
        scope, todo = {root["key"]: root}, [root]
        while todo:
            g = todo.pop()
            for n in walk(g["body"]):
                if n.get("k") in ("call", "mcall"):
                    k = callee(n)
                    if k and k.startswith("candid_parser::typing::") and k in cp.hir and k not in scope and cp.hir[k].get("body") is not None:
                        scope[k] = cp.hir[k]
                        todo.append(cp.hir[k])
        chk.floor("functions of the declaration pass", len(scope), 4)
        RESOLVE = re.compile(r"type_env::TypeEnv::(\w+)$")
        EXISTS_ONLY = {"find_type"}
        def is_pre(e, t):
            """`env.pre`, or a local that was bound to it"""
            e = unblock(e)
            p_ = expr_path(e) or ""
            if p_.endswith(".pre"):
                return True
            return any((expr_path(unblock(l["init"])) or "").endswith(".pre") for l in t.lets().get(p_, []))
        def not_pre(e, t):
            e = unblock(e)
            return isinstance(e, dict) and e.get("k") == "un" and e.get("op") == "Not" and is_pre(e["a"], t)
        def conj(e):
            e = unblock(e)
            if isinstance(e, dict) and e.get("k") == "bin" and e.get("op") == "And":
                return conj(e["a"]) + conj(e["b"])
            return [e]
        def guarded(t, n):
            cur = n
            for p in t.ancestors(n):
                if p.get("k") == "bin" and p.get("op") == "And" and any(x is cur for x in walk(p["b"])) and any(not_pre(x, t) for x in conj(p["a"])):
                    return True
                if p.get("k") == "if" and any(x is cur for x in walk(p["t"])) and any(not_pre(x, t) for x in conj(p["c"])):
                    return True
                if p.get("k") == "if" and p.get("e") is not None and any(x is cur for x in walk(p["e"])) and is_pre(p["c"], t):
                    return True         # `if env.pre { .. } else { <here> }`
                cur = p
            return False
        n_sites = 0
        for k, g in sorted(scope.items()):
            t = tree(cp, "^" + re.escape(k) + "$")
            for n in walk(g["body"]):
                if n.get("k") not in ("call", "mcall"):
                    continue
                m = RESOLVE.search(callee(n) or "")
                if not m or "type_env::TypeEnv" not in (callee(n) or ""):
                    continue
                meth = m.group(1)
                recv_ty = n.get("recv_ty") or ""
                n_sites += 1
                kind, at = U.consumer(t, n)
                dropped = False
                if kind == "try":
                    # `env.te.find_type(id)?;` — the match that `?` desugars to is an expression statement
                    q = at
                    while q is not None and not (q.get("k") == "match" and q.get("src") == "TryDesugar"):
                        q = t.up(q)
                    up = t.up(q) if q is not None else None
                    dropped = up is not None and up.get("k") == "semi"
                ok = guarded(t, n) or (meth in EXISTS_ONLY and dropped)
                chk.expect(ok, f"declaration-pass:order-independent:{k.rsplit('::', 1)[-1]}:{meth}",
                           f"{k.rsplit('::', 1)[-1]} runs during the declaration pass and calls TypeEnv::{meth} on the partially built environment without a "
                           f"`!env.pre` guard (and not as a bare existence test `find_type(id)?;`): definitions not yet checked are still `unknown`, so the "
                           f"verdict depends on the order of the definitions — the printer's name-ordered output of an accepted program can be rejected",
                           where=where(t, n), ok_detail="guarded by !env.pre" if guarded(t, n) else "existence test only (value dropped)")
        chk.floor("environment lookups in the declaration pass", n_sites, 2)

    def r5():
        """Argument names of one list are unique wherever a list of named arguments is accepted: function parameters and results, the
        parameters of a service constructor, and the init-args file. The link between a production and the nonterminals it uses is only
        in the grammar source (the LR tables are trusted runtime), so this one rule reads rust/candid_parser/src/grammar.lalrpop: every
        nonterminal of type Vec<IDLArgType> that a consumer production uses must run check_unique over the names (itself or through the
        nonterminal it wraps)."""
        from extract import REPO
        import os
        gpath = os.path.join(REPO, "rust/candid_parser/src/grammar.lalrpop")
        if not os.path.exists(gpath):
            raise AnchorMissing("rust/candid_parser/src/grammar.lalrpop not found")
        src = open(gpath).read()
        # strip comments (the grammar has no `//` inside string literals that matter here)
        src_nc = re.sub(r"//[^\n]*", "", src)
        nts = {}
        for m in re.finditer(r"(?m)^(?:pub\s+)?(\w+)\s*(?:<[^>\n]*>)?\s*:\s*([^=\n]+?)\s*=\s*", src_nc):
            nts[m.group(1)] = (m.group(2).strip(), m.start(), m.end())
        order = sorted(nts.items(), key=lambda kv: kv[1][1])
        bodies = {}
        for i, (name, (ty, st, en)) in enumerate(order):
            end = order[i + 1][1][1] if i + 1 < len(order) else len(src_nc)
            bodies[name] = src_nc[en:end]
        arglists = {n for n, (ty, _s, _e) in nts.items() if re.sub(r"\s", "", ty) == "Vec<IDLArgType>"}
        if not arglists:
            raise AnchorMissing("grammar.lalrpop: no nonterminal of type Vec<IDLArgType> found")

        def checked(n, seen=()):
            if n in seen or n not in bodies:
                return False
            if "check_unique" in bodies[n]:
                return True
            inner = [x for x in re.findall(r"\b(\w+)\b", bodies[n]) if x in arglists and x != n]
            # a wrapper is checked only if everything it is made of is
            return bool(inner) and all(checked(x, seen + (n,)) for x in inner)
        consumers = {"function type (FuncType { .. })": r"FuncType\s*\{", "service constructor (ClassT)": r"ClassT\s*\(", "init-args file (IDLInitArgs { .. })": r"IDLInitArgs\s*\{"}
        n_used = 0
        for what, rx in consumers.items():
            users = [n for n, b in bodies.items() if re.search(rx, b)]
            if not users:
                raise AnchorMissing(f"grammar.lalrpop: no production builds a {what}")
            for u in users:
                for alt in bodies[u].split("=>"):
                    pass
                used = sorted({x for x in re.findall(r"<\s*\w+\s*:\s*(\w+)\s*>", bodies[u]) if x in arglists})
                # restrict to the alternative(s) that build the consumer: an alternative is the text between two `,\n` separators at depth 0; approximated by lines
                for ntname in used:
                    n_used += 1
                    chk.expect(checked(ntname), f"arg-names-unique:{what.split(' (')[0]}:{ntname}",
                               f"grammar.lalrpop: the production `{u}` builds a {what} from the nonterminal `{ntname}`, which does not run check_unique over the "
                               f"argument names: `(owner : principal, owner : nat)` is accepted there although argument names of one list must be unique",
                               where=f"rust/candid_parser/src/grammar.lalrpop ({u})", ok_detail=f"{ntname} sorts the names and runs check_unique")
        chk.floor("uses of argument-list nonterminals in function / constructor / init-args productions", n_used, 3)
        # a method of a service type is written as a function type or as a name (resolved and tested later): the nonterminal that the
        # service body is made of builds nothing else, which is what the checker (and the printers' `unreachable!` arms for other method
        # types, reached when an error message prints the type) rely on during the declaration pass
        meth_nts = [n for n, b in bodies.items() if re.search(r"\bSepBy<\s*(\w+)\s*,", b) and "Vec<Binding>" in re.sub(r"\s", "", nts[n][0])]
        elem = sorted({m.group(1) for n in meth_nts for m in re.finditer(r"\bSepBy<\s*(\w+)\s*,", bodies[n]) if m.group(1) in bodies and re.sub(r"\s", "", nts[m.group(1)][0]) == "Binding"})
        if not elem:
            raise AnchorMissing("grammar.lalrpop: the nonterminal for one method of a service body (type Binding, used through SepBy in a Vec<Binding> production) not found")
        for e_ in elem:
            typs = re.findall(r"Binding\s*\{[^}]*?\btyp\s*:\s*([^,}]+)", bodies[e_])
            if not typs:
                raise AnchorMissing(f"grammar.lalrpop: `{e_}` builds no Binding {{ .. typ: .. }}")
            odd = [t_.strip() for t_ in typs if not re.match(r"IDLType::(FuncT|VarT)\s*\(", t_.strip())]
            chk.expect(not odd, f"method-type:function-or-name:{e_}",
                       f"grammar.lalrpop: `{e_}` gives a method the type `{odd[0] if odd else ''}`, i.e. whatever that nonterminal parses: a service body such as "
                       f"`service {{ f : nat }}` then reaches the checker's declaration pass with a primitive in method position, and printing it in the error "
                       f"message hits the printers' `unreachable!()` for method types that are neither a function nor a name",
                       where=f"rust/candid_parser/src/grammar.lalrpop ({e_})", ok_detail="IDLType::FuncT(..) / IDLType::VarT(..) only")

    for rid, desc, fn in (("C14.R5", "argument names are checked unique in every production that accepts a named argument list", r5),
                          ("C14.R1", "each well-formedness rule has an enforcing check on every accepting path", r1),
                          ("C14.R2", "recursive walkers over a checked environment guard the Var arm with a visited set", r2),
                          ("C14.R3", "labels, method names and argument names are sorted and checked unique; imported method hashes are unique", r3),
                          ("C14.R4", "the declaration pass never resolves a name through the partially built environment (acceptance is independent of definition order)", r4)):
        if only and only != rid:
            continue
        chk.run_rule(rid, desc, fn)
