"""C09 — unbounded and 128-bit integer codecs implement (S)LEB128 exactly (numeric kernels, abstract interpretation)."""
import re

from facts import AnchorMissing, op_int, term_callee
import absint

TITLE = ("C09: abstract interpretation (value sets / intervals, value numbering, relational facts; no execution, no solver) "
         "of every (S)LEB128 kernel: no arithmetic/shift/bounds trap is reachable, no significant bit is shifted out of an "
         "accumulator without a dominating range rejection, every range rejection is reachable; EOF is an error; masks are "
         "the LEB128 masks.")

KERNELS = [
    ("candid", r"^candid::types::leb128::encode_nat$"),
    ("candid", r"^candid::types::leb128::encode_int$"),
    ("candid", r"^candid::types::leb128::decode_nat$"),
    ("candid", r"^candid::types::leb128::decode_int$"),
    ("candid", r"^candid::types::number::Nat::encode$"),
    ("candid", r"^candid::types::number::Nat::decode$"),
    ("candid", r"^candid::types::number::Int::encode$"),
    ("candid", r"^candid::types::number::Int::encode::\{closure#0\}$"),
    ("candid", r"^candid::types::number::Int::decode$"),
    ("candid", r"^<&mut candid::de::Deserializer<'de> as serde_core::de::Deserializer<'de>>::deserialize_i128$"),
    ("candid", r"^<&mut candid::de::Deserializer<'de> as serde_core::de::Deserializer<'de>>::deserialize_u128$"),
    ("candid", r"^candid::de::Deserializer::<'de>::try_read_leb_u64$"),
    ("candid", r"^candid::de::Deserializer::<'de>::try_read_leb_i64$"),
    ("candid", r"^candid::de::Deserializer::<'de>::read_leb_u64$"),
    ("candid", r"^candid::de::Deserializer::<'de>::read_len$"),
]

# obligations the interpreter cannot discharge and that were reviewed by hand: (function suffix, obligation) -> reason
ASSUMED = {
    ("number::Nat::encode", "panic:assert:overflow:Sub#0"):
        "groups = to_radix_le(128) returns at least one digit (num-bigint returns [0] for zero), so groups.len() - 1 cannot underflow",
    ("number::Int::decode", "panic:assert:overflow:Mul#1"):
        "7 * groups.len(): groups holds one byte per input byte read, a Vec<u8> cannot reach 2^61 elements",
    ("number::Int::encode", "panic:assert:overflow:Sub#0"):
        "bytes = to_signed_bytes_le() is never empty (num-bigint returns [0] for zero), so bytes.len() - 1 cannot underflow",
    ("number::Int::encode", "panic:assert:overflow:Mul#0"):
        "i * 8 with i < bytes.len(): a bignum cannot occupy 2^61 bytes",
    ("number::Int::encode", "panic:assert:overflow:Add#0"):
        "i * 8 + bit with i < bytes.len(), bit < 8: same bound as above",
    ("number::Int::encode", "panic:assert:overflow:Add#1"):
        "shift + k: shift grows by 7 per emitted group and the loop ends once shift exceeds the highest significant bit (< 8 * bytes.len() + 7)",
    ("number::Int::encode", "panic:assert:overflow:Add#2"):
        "shift += 7: same bound as shift + k",
    ("number::Int::encode", "lossless:shl-or#0:w8"):
        "bit_at returns a single bit (either `(byte >> n) & 1` or sign_bit = byte >> 7), so `bit << k` with k < 7 stays inside the group byte",
}

LEB_MASKS = {0x7F, 0x80, 0x40}
MASK_FNS = ("leb128::decode_nat", "leb128::decode_int", "leb128::encode_nat", "number::Nat::decode",
            "number::Int::decode", "try_read_leb_u64", "try_read_leb_i64")


def fn_suffix(key):
    return re.sub(r"^candid::(types::|de::Deserializer::<'de>::)?", "", key)


def kernels_present(facts):
    out = []
    for crate, rx in KERNELS:
        c = facts.crate(crate)
        if any(re.search(rx, k) for k in c.bodies):
            out.append((crate, rx))
    return out


def run(chk, facts, tier, only=None, floor=60):
    KS = kernels_present(facts)

    def r1():
        n = 0
        for crate, rx in KS:
            c = facts.crate(crate)
            b = c.body(rx)
            chk.analysed(b.key)
            res = absint.analyse(b)
            suf = fn_suffix(b.key)
            for a in sorted(res.assumptions):
                chk.assume(a)
            if res.aborted:
                chk.bad(f"{suf}:analysis", f"abstract interpretation of {b.key} did not finish: {res.aborted}")
                continue
            for kind, key, ok, detail, ln in res.obligations:
                n += 1
                full = f"{kind}:{key}"
                if not ok and (suf, full) in ASSUMED:
                    chk.assume(f"{suf} {full}: {ASSUMED[(suf, full)]}")
                    chk.ok(f"{suf}:{full}", "reviewed assumption", nontrivial=False)
                    continue
                what = {"panic": "can trap (panic in debug builds, wrap-around or out-of-bounds panic in release)",
                        "lossless": "can silently drop significant bits, so a string outside the type's range decodes to a wrong value "
                                    "instead of being rejected",
                        "deadguard": "is dead code"}[kind]
                chk.expect(ok, f"{suf}:{full}", f"{b.key}: {key} {what}: {detail}",
                           where=f"{b.span['file']}:{ln}", ok_detail="discharged by abstract interpretation")
        chk.floor("kernel obligations", n, floor)

    def with_helpers(crate, b):
        """the kernel and the functions of the same file it calls directly (a loop factored out of a kernel stays under the rule)"""
        cc = facts.crate(crate)
        kernel_keys = {cc.body(rx).key for cr, rx in KS if cr == crate}
        out, seen = [b], {b.key}
        for bi, t, cal in b.call_sites():
            d, r = term_callee(t)
            for k in (r, d):
                if k and k in cc.bodies and k not in seen and k not in kernel_keys and cc.bodies[k].span["file"] == b.span["file"]:
                    seen.add(k)
                    out.append(cc.bodies[k])
        return out

    def r2():
        # an unterminated string is an error: every read_exact result is propagated with `?`
        n = 0
        counted = set()
        for crate, rx in KS:
          for b in with_helpers(crate, facts.crate(crate).body(rx)):
            if b.key in counted:
                continue
            counted.add(b.key)
            for cb in b.with_closures():
                for bi, t, cal in cb.call_sites():
                    if cal and re.search(r"io::Read::(bytes|read|read_to_end|read_to_string|take|chain|read_buf|read_vectored)$", cal) and not cb.is_cleanup(bi):
                        chk.bad(f"{fn_suffix(b.key)}:short-read-api",
                                f"{b.key} reads its input with {cal}: unlike read_exact it reports the end of the input as an ordinary outcome (end of "
                                f"iteration / fewer bytes), so a number whose last byte still has the continuation bit set is accepted instead of rejected",
                                where=f"{cb.span['file']}:{t.get('ln')}")
            for bi, t, cal in b.call_sites():
                if cal and cal.endswith("io::Read::read_exact"):
                    n += 1
                    nxt = b.blocks[t["t"]]["t"] if t.get("t") is not None else None
                    ok = False
                    if nxt and nxt["k"] == "call":
                        d, r = term_callee(nxt)
                        ok = (r or d or "").endswith("Try>::branch")
                    chk.expect(ok, f"{fn_suffix(b.key)}:read_exact-propagated",
                               f"{b.key}: the result of read_exact must be propagated with `?` (a truncated number is an error)",
                               where=f"{b.span['file']}:{t.get('ln')}")
        # presence per reading kernel rather than a total (merging two drain loops into one helper is not an event)
        for crate, rx in KS:
            b = facts.crate(crate).body(rx)
            if not re.search(r"(leb128::decode_(nat|int)|number::(Nat|Int)::decode)$", b.key):
                continue
            has = any(cal and cal.endswith("io::Read::read_exact") for bb in with_helpers(crate, b) for _bi, _t, cal in bb.call_sites())
            chk.expect(has, f"{fn_suffix(b.key)}:reads-with-read_exact",
                       f"{b.key} (or a helper it calls) must read its input with read_exact, the only reader that turns a short input into an error")
        chk.floor("read_exact sites in the kernels", n, 4)

    def r3():
        n = 0
        for crate, rx in KS:
            b = facts.crate(crate).body(rx)
            suf = fn_suffix(b.key)
            if not any(suf.endswith(x) for x in MASK_FNS):
                continue
            masks = set()
            for blk in b.blocks:
                for st in blk["s"]:
                    if st["k"] == "assign" and st["r"]["k"] == "bin" and st["r"]["op"] == "BitAnd":
                        for o in (st["r"]["a"], st["r"]["b"]):
                            v = op_int(o)
                            if v is not None:
                                masks.add(v & 0xFF if v >= 0 else v & 0xFF)
            n += 1
            chk.expect(masks and masks <= LEB_MASKS, f"{suf}:masks",
                       f"{b.key} masks bytes with {sorted(hex(m) for m in masks)}; a (S)LEB128 group has 7 payload bits (0x7f), the "
                       f"continuation bit 0x80 and the sign bit 0x40", ok_detail=str(sorted(hex(m) for m in masks)))
        chk.floor("kernels with byte masks", n, 7 if floor >= 60 else 5)

    def r5():
        # the value serializer writes 128-bit host integers only through the two encoders above: a byte pushed on the side is a second,
        # unchecked encoder
        c_ = facts.crate("candid")
        from facts import walk as _w, callee as _cal
        for nm_, enc in (("serialize_i128", "encode_int"), ("serialize_u128", "encode_nat")):
            hs = [hh for k_, hh in c_.hir.items() if re.search(r"ValueSerializer as candid::types::Serializer>::%s$" % nm_, k_)]
            if len(hs) != 1:
                raise AnchorMissing(f"ValueSerializer::{nm_} not found")
            h_ = hs[0]
            chk.analysed(h_["key"])
            calls_ = [(_cal(x) or x.get("m") or "") for x in _w(h_["body"]) if x.get("k") in ("call", "mcall")]
            other = [x for x in calls_ if not x.endswith("leb128::" + enc) and not re.search(r"(Try::branch|FromResidual|::from$|::into$)", x)]
            chk.expect(any(x.endswith("leb128::" + enc) for x in calls_) and not other, f"writer:{nm_}:delegates",
                       f"ValueSerializer::{nm_} must hand the value to leb128::{enc} and do nothing else; it also calls {other}: bytes written "
                       f"beside the encoder are not covered by the encoder's analysis", where=f"{h_['span']['file']}:{h_['span']['lo']}",
                       ok_detail=f"single call of leb128::{enc}")

    sfx = getattr(chk, "cfg_suffix", "")
    for rid, desc, fn in (("C09.R1", "no trap, no silent loss of significant bits, no dead range rejection in any (S)LEB128 kernel", r1),
                          ("C09.R2", "a truncated number is an error (read results are propagated)", r2),
                          ("C09.R3", "byte masks are the LEB128 masks 0x7f / 0x80 / 0x40", r3),
                          ("C09.R5", "128-bit host integers are written only through the analysed encoders", r5)):
        if only and only != rid:
            continue
        chk.run_rule(rid + sfx, desc, fn)
    if only is None and not sfx:
        import c08
        # "... and inside vectors and maps": the big-number decoders are selected per component by fast-path flags that are re-established
        # at every dispatch (an int key must not be read by the previous value's nat decoder)
        chk.include(c08, "C08.R2", "C09.R4", facts)
        import c02
        chk.include(c02, "C02.R14", "C09.R6", facts)    # out-of-range strings are rejected also below an opt (range errors are not coercion failures)
        chk.include(c08, "C08.R3", "C09.R7", facts)     # a number that leaves the LEB128 reader for a Nat/Int visitor travels as to_bytes_le / to_signed_bytes_le and is read back with the inverse


def run_config(chk, facts, cfg):
    """thorough tier: the same kernels as compiled without the bignum feature (128-bit codecs on the decoding path)"""
    chk.cfg_suffix = "@" + cfg
    try:
        run(chk, facts, "thorough", None, floor=30)
    finally:
        chk.cfg_suffix = ""
