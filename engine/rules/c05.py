"""C05 — subtype / upgrade checks decide the spec relation, independent of order (structural clauses)."""
import re

from facts import AnchorMissing, callee, expr_path, nodes, pat_alternatives, peel, unblock, walk
from shared import Spec, TI
from subtyping import (CHECKERS, Table, classify_body, ctor, oracle, self_calls, spec_subtype_axioms, type_ctors)

TITLE = ("C05: the checker's rule table equals the spec's rule set on every constructor pair (first-match "
         "simulation); the all-errors sibling agrees; memo discipline (assume before unfolding, retract on failure, "
         "roll back after a failed probe); variance and iteration side of every structural rule; entry points.")


from sides import ACCESSORS, Sides, bind_names


def arm_env(pat, params):
    """initial environment of a rule arm: function parameters t1/t2 and the bindings of the two tuple components"""
    env = {"t1": frozenset({1}), "t2": frozenset({2})}
    env.update(params)
    for alt in pat_alternatives(pat):
        if isinstance(alt, dict) and alt.get("k") == "tuple" and len(alt["subs"]) == 2:
            for i, sub in enumerate(alt["subs"]):
                for n in bind_names(sub):
                    env[n] = frozenset({i + 1})
    return env


def rec_call_sides(fn_name, node, env, extra_param_sides=None):
    """for every recursive call under node: (sides of the t1 argument, sides of the t2 argument)"""
    s = Sides(env)
    s.scan(node)
    out = []
    for c in self_calls(node):
        name = (callee(c) or "").rsplit("::", 1)[-1]
        args = c["args"]
        if name in ("subtype_", "subtype_collect_", "subtype_probe"):
            a1, a2 = args[3], args[4]
        elif name == "equal_impl":
            a1, a2 = args[2], args[3]
        elif name == "check_func_params":
            a1, a2 = args[3], args[4]
        else:
            continue
        out.append((name, tuple(sorted(s.of(a1))), tuple(sorted(s.of(a2))), c))
    return out, s


def loop_sources(node, sides):
    """sides of the collections iterated by `for` loops directly under node"""
    out = []
    for m in nodes(node, "match"):
        if m.get("src") == "ForLoopDesugar" and m["scrut"].get("k") == "call" and (callee(m["scrut"]) or "").endswith("into_iter"):
            out.append(tuple(sorted(sides.of(m["scrut"]))))
    return out


def method_calls_(node, name):
    return [n for n in walk(node) if n.get("k") == "mcall" and n["m"] == name]


def run(chk, facts, tier, only=None):
    c = facts.crate("candid")
    spec = Spec()
    ctors = type_ctors(facts)
    tables = {}

    def load():
        for w in CHECKERS:
            if w not in tables:
                tables[w] = Table(facts, w)
                chk.analysed(tables[w].fn["key"])

    def decision_rule(which):
        load()
        t = tables[which]
        axioms = spec_subtype_axioms(spec)
        if not re.search(r"service <actortype> <: principal", spec.text):
            raise AnchorMissing("axiom `service <actortype> <: principal` not found in the spec")
        npairs = 0
        for c1 in ctors:
            for c2 in ctors:
                if c1 in ("Var", "Knot") or c2 in ("Var", "Knot"):
                    continue  # handled by the prologue
                npairs += 1
                guarded, final = t.decide(c1, c2)
                want = oracle(c1, c2)
                key = f"{which}:({c1},{c2})"
                if final is None:
                    chk.bad(key, f"{which}: no unguarded arm decides the pair ({c1}, {c2})")
                    continue
                got = final["class"]
                if want == "accept*":
                    okf = got in ("accept", "accept-report")
                    okg = all(g["class"] == "accept" and g["guard"]["probes"] >= 1 for g in guarded)
                    chk.expect(okf and okg, key,
                               f"{which}: ({c1}, {c2}) must end in acceptance (spec: any type is a subtype of an option), "
                               f"guards must be probes; found final={got}, guarded={[g['class'] for g in guarded]}",
                               ok_detail=f"final {got}, {len(guarded)} probe guard(s)")
                    continue
                if guarded:
                    chk.bad(key, f"{which}: a guarded arm applies to ({c1}, {c2}); only the option rules may be conditional")
                    continue
                if want == "class-or-unreachable":
                    chk.expect(got in ("recurse", "unreachable"), key, f"{which}: ({c1},{c2}) decided as {got}")
                    continue
                chk.expect(got == want, key,
                           f"{which}: the pair ({c1}, {c2}) is decided as `{got}` (arm at line {final['ln']}), the spec's rules give `{want}`",
                           ok_detail=f"{got}")
        chk.floor(f"{which}: constructor pairs decided", npairs, 700)
        # ... and the table decides alone: a rejection made up anywhere else in the function (a pre-check before the pair is assumed, a
        # shortcut in the Var/Knot prologue) is a second decision procedure that the simulation above does not see
        if not t.collecting:
            inside = set(id(x) for x in walk(t.main))
            stray = [x for x in walk(t.fn["body"]) if x.get("k") == "call" and re.search(r"error::Error::(msg|subtype)$", callee(x) or "") and id(x) not in inside]
            chk.expect(not stray, f"{which}:only-the-rule-table-rejects",
                       f"{which} constructs a rejection outside its rule table (line {stray[0].get('ln') if stray else ''}): pairs are then refused by a test "
                       f"that is not one of the spec's rules — e.g. a head-constructor pre-check in the Var/Knot prologue that forgets `nat <: int` makes "
                       f"`N <: int` (with `type N = nat`) fail while `nat <: int` holds, so the verdict depends on whether a type is named",
                       where=f"{t.fn['span']['file']}:{stray[0].get('ln') if stray else ''}", ok_detail="every Error::msg / Error::subtype lies in an arm of the table")
        # the (_, Opt) constituent rule: guard excludes exactly null/reserved/opt (spec: "not (null <: <datatype>)")
        for r in t.rows:
            g = r["guard"]
            if g and any(h == ("_", "Opt") for h in r["heads"]):
                chk.expect(g["not_in"] == ["Null", "Opt", "Reserved"], f"{which}:constituent-rule-premise",
                           f"{which}: the `t <: opt t'` rule must not apply when t' is null, reserved or opt; "
                           f"guard excludes {g['not_in']}")

    def r1():
        decision_rule("subtype_")

    def r2():
        decision_rule("subtype_collect_")
        load()
        # same arm heads, in the same relative order, in both siblings
        a = [tuple(r["heads"]) for r in tables["subtype_"].rows]
        b = [tuple(r["heads"]) for r in tables["subtype_collect_"].rows]
        chk.expect(a == b, "siblings:same-rule-list",
                   f"subtype_ and subtype_collect_ do not list the same rules in the same order: "
                   f"only in subtype_: {[x for x in a if x not in b]}, only in collect: {[x for x in b if x not in a]}")
        # equal_impl: same-constructor pairs only
        t = tables["equal_impl"]
        n = 0
        for c1 in ctors:
            for c2 in ctors:
                if c1 in ("Var", "Knot") or c2 in ("Var", "Knot"):
                    continue
                guarded, final = t.decide(c1, c2)
                n += 1
                key = f"equal_impl:({c1},{c2})"
                if final is None or guarded:
                    chk.bad(key, f"equal_impl: pair ({c1},{c2}) not decided by an unguarded arm")
                    continue
                if "Unknown" in (c1, c2):
                    want = ("unreachable",) if not (c1 == c2 and False) else ()
                    chk.expect(final["class"] in ("unreachable", "reject", "recurse"), key, f"equal_impl: ({c1},{c2}) -> {final['class']}")
                    continue
                want = "recurse" if (c1 == c2 and c1 in ("Opt", "Vec", "Record", "Variant", "Service", "Func", "Class")) else "reject"
                chk.expect(final["class"] == want, key,
                           f"equal_impl: pair ({c1}, {c2}) is decided as `{final['class']}`, structural equality requires `{want}`")

    def prologue_rule(which):
        load()
        t = tables[which]
        fn = t.fn
        # statements of the `if matches!(Var|Knot)` block
        ifs = [n for n in nodes(fn["body"], "if")
               if any(m is t.prologue for m in nodes(n["t"], "match"))]
        if not ifs:
            raise AnchorMissing(f"{which}: Var/Knot prologue block not found")
        blk = ifs[0]["t"]
        items = list(blk.get("stmts") or []) + ([blk["e"]] if blk.get("e") else [])

        def idx(pred):
            for i, st in enumerate(items):
                if any(pred(n) for n in walk(st)):
                    return i
            return None

        def is_gamma_call(n, m):
            return n.get("k") == "mcall" and n["m"] == m and (expr_path(n["recv"]) or "") == "gamma"

        i_ins = idx(lambda n: is_gamma_call(n, "insert"))
        i_unf = idx(lambda n: n is t.prologue)
        i_rem = idx(lambda n: is_gamma_call(n, "remove"))
        chk.expect(i_ins is not None and i_unf is not None and i_ins < i_unf, f"{which}:assume-before-unfold",
                   f"{which}: the pair must be inserted into gamma before the definition is unfolded (insert at {i_ins}, unfold at {i_unf})",
                   ok_detail="gamma.insert precedes the unfolding call")
        # insert returning false => accept immediately (co-induction)
        ins_if = [n for n in nodes(blk, "if") if any(is_gamma_call(x, "insert") for x in walk(n["c"]))]
        okco = False
        if ins_if:
            n0 = ins_if[0]
            neg = any(x.get("k") == "un" and x.get("op") == "Not" for x in walk(n0["c"]))
            rets = nodes(n0["t"], "ret")
            okco = neg and len(rets) == 1 and (rets[0].get("e") is None or classify_body(rets[0]["e"], t.collecting) == "accept")
        chk.expect(okco, f"{which}:coinductive-hit", f"{which}: a pair already in gamma must be accepted at once (`if !gamma.insert(..) {{ return Ok }}`)")
        # remove on the failure side, after the unfolding
        okrem = False
        if i_rem is not None and i_unf is not None and i_rem > i_unf:
            st = items[i_rem]
            st = st["e"] if st.get("k") == "semi" else st
            if st.get("k") == "if":
                cond = st["c"]
                fail = any(x.get("k") == "mcall" and x["m"] == "is_err" for x in walk(cond)) or \
                    any(x.get("k") == "bin" and x.get("op") == "Gt" for x in walk(cond))
                okrem = fail and any(is_gamma_call(x, "remove") for x in walk(st["t"]))
        chk.expect(okrem, f"{which}:retract-on-failure",
                   f"{which}: when the unfolded check fails the assumed pair must be removed from gamma "
                   f"(an `if res.is_err() {{ gamma.remove(..) }}` after the unfolding call)",
                   ok_detail="gamma.remove on the failure side, after the unfolding")
        # orientation of the four unfolding arms
        params = {}
        for r in t.prologue["arms"]:
            env = arm_env(r["pat"], params)
            calls, _ = rec_call_sides(which, r["body"], env)
            hs = [(ctor(h[0]), ctor(h[1])) for h in __import__("shared").heads_of(r["pat"]) if len(h) == 2]
            if not calls:
                continue
            for name, s1, s2, _c in calls:
                chk.expect(s1 == (1,) and s2 == (2,), f"{which}:unfold-orientation:{hs}",
                           f"{which}: unfolding arm {hs} recurses with operands from sides {s1},{s2}; must be (t1-side, t2-side)")

    def r3():
        for w in CHECKERS:
            prologue_rule(w)
        # probes: a recursive check whose failure is swallowed must roll the memo back
        nprobe = 0
        for h in c.fns(r"candid::types::subtype::"):
            for n in walk(h["body"]):
                if n.get("k") == "mcall" and n["m"] in ("is_ok", "is_err", "ok", "unwrap_or", "unwrap_or_default", "unwrap_or_else"):
                    inner = self_calls(n["recv"], ("subtype_", "subtype_collect_", "equal_impl"))
                    if not inner or unblock(n["recv"]) is not inner[0]:
                        continue
                    nprobe += 1
                    site = f"{h['name']}:probe#{nprobe}"
                    tgt = inner[0]["args"]
                    # where is this probe? find an enclosing `if` whose condition contains it
                    holder = None
                    # the probe's result may be named first: `let holds = probe.is_ok(); if !holds { restore }`
                    named = None
                    for st in nodes(h["body"], "slet"):
                        if st.get("init") is not None and unblock(st["init"]) is n and (st.get("pat") or {}).get("k") == "bind":
                            named = st["pat"]["n"]

                    def is_probe_ref(x):
                        return x is n or (named is not None and x.get("k") == "path" and (x.get("res") or {}).get("kind") == "Local"
                                          and (x.get("res") or {}).get("path") == named)
                    for cand in nodes(h["body"], "if"):
                        if any(is_probe_ref(x) for x in walk(cand["c"])):
                            holder = cand
                    saved = None
                    for st in nodes(h["body"], "slet"):
                        ini = unblock(st.get("init")) if st.get("init") else None
                        if isinstance(ini, dict) and ini.get("k") == "mcall" and ini["m"] == "clone" and (expr_path(ini["recv"]) or "") == "gamma":
                            saved = st["pat"].get("n")
                    restored = False
                    if holder is not None and saved:
                        fail_branch = holder.get("e") if n["m"] == "is_ok" else holder.get("t")
                        negated = any(x.get("k") == "un" and x.get("op") == "Not" and any(is_probe_ref(y) for y in walk(x)) for x in walk(holder["c"]))
                        if negated:
                            fail_branch = holder.get("t") if n["m"] == "is_ok" else holder.get("e")
                        for a in nodes(fail_branch or {}, "assign"):
                            lhs = a["a"]
                            if lhs.get("k") == "un" and lhs.get("op") == "Deref" and (expr_path(lhs["a"]) or "") == "gamma" \
                                    and (expr_path(a["b"]) or "") == saved:
                                restored = True
                    key = f"probe:{h['name']}:{'guard' if holder is None else 'if'}:{(callee(inner[0]) or '').rsplit('::', 1)[-1]}"
                    # make keys of several guard probes in one function distinct by their operands
                    ops = ",".join((expr_path(a) or "?") for a in (tgt[3], tgt[4])) if len(tgt) > 4 else "?"
                    chk.expect(restored, f"{key}({ops})",
                               f"{h['key']}: the result of a recursive check on ({ops}) is tested with `{n['m']}()` and its failure is "
                               f"swallowed, but gamma is not rolled back: pairs assumed during the failed probe stay in the memo and "
                               f"can make later, unrelated checks succeed",
                               where=f"{h['span']['file']}:{n.get('ln')}",
                               ok_detail="memo snapshot restored on the failure side")
        chk.floor("swallowed recursive checks (probes)", nprobe, 1)
        # one memo, one relation: gamma holds pairs *assumed* related; a pair assumed equal is not evidence for subtyping after the
        # equality check failed (equal retracts the failing pair only), and vice versa.  No function hands the same memo to both.
        n_entry = 0
        for cname in ("candid", "candid_parser"):
            cr = facts.crate(cname)
            for k, hh in sorted(cr.hir.items()):
                if hh.get("body") is None or k.startswith("candid::types::subtype::"):
                    continue
                uses = {}
                for n in walk(hh["body"]):
                    if n.get("k") == "call" and (callee(n) or "").startswith("candid::types::subtype::") and n.get("args"):
                        fam = "equal" if re.search(r"::equal(_impl)?$", callee(n)) else "subtype"
                        a0 = n["args"][0]
                        while isinstance(a0, dict) and a0.get("k") in ("ref", "un"):
                            a0 = a0.get("e") or a0.get("a")
                        root = (expr_path(a0) or "?").split(".")[0]
                        if re.search(r"Gamma|HashSet", str((n["args"][0] or {}).get("ty") or "")) or root == "gamma":
                            uses.setdefault(root, set()).add(fam)
                if uses:
                    n_entry += 1
                    chk.analysed(k)
                shared = sorted(r_ for r_, f_ in uses.items() if len(f_) > 1)
                if uses:
                    chk.expect(not shared, f"memo:one-relation:{hh['name']}",
                               f"{k} passes the same memo `{shared}` to both the equality and the subtype check: assumptions recorded while the "
                               f"first relation was explored (and not retracted when it failed) are trusted by the second, so the verdict can be "
                               f"`compatible` for a pair that is not in the relation", where=f"{hh['span']['file']}:{hh['span']['lo']}",
                               ok_detail=f"memo(s) {sorted(uses)} used for one relation each")
        chk.floor("functions that start a subtype / equality check with a memo", n_entry, 3)

    def structural_rule(which):
        load()
        t = tables[which]
        want_calls = {"Vec": {((1,), (2,))}, "Class": {((1,), (2,))}}
        for r in t.rows:
            heads = r["heads"]
            env = arm_env(r["pat"], {})
            body_calls, sides = rec_call_sides(which, r["body"], env)
            gcalls = []
            if r["guard"]:
                gcalls, _ = rec_call_sides(which, r["guard"]["node"], env)
            hset = {h for h in heads}
            name = ",".join(f"({a},{b})" for a, b in heads)
            for nm, s1, s2, _c in gcalls:
                chk.expect(s1 == (1,) and s2 == (2,), f"{which}:probe-orientation:{name}",
                           f"{which}: the probe in the guard of {name} checks sides {s1} <: {s2}; must be left <: right")
            if ("Func", "Func") in hset:
                if which == "subtype_collect_":
                    got = sorted((s1, s2) for nm, s1, s2, _c in body_calls if nm == "check_func_params")
                    lab = {}
                    for nm, s1, s2, cnode in body_calls:
                        if nm == "check_func_params":
                            # the side marker: a string literal ("input" / "return") or an enum variant named after it, among the trailing arguments
                            tail_args = cnode["args"][8:]
                            lit = [x for a_ in tail_args for x in walk(a_) if x.get("k") == "lit" and isinstance(x["v"].get("str"), str)]
                            word = lit[0]["v"]["str"] if lit else None
                            if word is None:
                                vs = [(x.get("res") or {}).get("path", "") for a_ in tail_args for x in walk(a_)
                                      if x.get("k") == "path" and (x.get("res") or {}).get("kind") in ("Variant", "Ctor", "Const")]
                                word = vs[0].rsplit("::", 1)[-1].lower() if vs else None
                            lab[(s1, s2)] = (word, [x["v"].get("bool") for a_ in tail_args for x in walk(a_) if x.get("k") == "lit" and "bool" in x["v"]])
                    chk.expect(got == [((1,), (2,)), ((2,), (1,))] and lab.get(((2,), (1,)), (None,))[0] == "input"
                               and lab.get(((1,), (2,)), (None,))[0] == "return", f"{which}:func-variance",
                               f"{which}: function rule must check arguments contravariantly (f2.args <: f1.args, labelled input) and results "
                               f"covariantly (f1.rets <: f2.rets, labelled return); found {lab}")
                else:
                    fields = []
                    for nm, s1, s2, cnode in body_calls:
                        a1 = expr_path(cnode["args"][3] if which == "subtype_" else cnode["args"][2]) or ""
                        fields.append((s1, s2, "args" if "args" in a1 else ("rets" if "rets" in a1 else a1)))
                    if which == "subtype_":
                        ok = sorted(fields) == sorted([((2,), (1,), "args"), ((1,), (2,), "rets")])
                        msg = "arguments contravariantly (args2 <: args1) and results covariantly (rets1 <: rets2)"
                    else:
                        ok = sorted(fields) == sorted([((1,), (2,), "args"), ((1,), (2,), "rets")])
                        msg = "arguments and results pairwise"
                    chk.expect(ok, f"{which}:func-variance", f"{which}: function rule must check {msg}; found {fields}",
                               ok_detail=str(fields))
                    # annotations must be compared
                    modes = [n for n in walk(r["body"]) if n.get("k") == "bin" and n.get("op") == "Ne"
                             and "modes" in (expr_path(n["a"]) or "") and "modes" in (expr_path(n["b"]) or "")]
                    chk.expect(len(modes) == 1, f"{which}:func-modes", f"{which}: function rule must compare the annotation lists (f1.modes != f2.modes ⇒ reject)")
                continue
            if which == "equal_impl":
                for nm, s1, s2, _c in body_calls:
                    chk.expect(s1 == (1,) and s2 == (2,), f"{which}:orientation:{name}", f"{which}: {name} recurses on sides {s1},{s2}")
                continue
            for ctor_name, loop_side in (("Record", (2,)), ("Variant", (1,)), ("Service", (2,))):
                if (ctor_name, ctor_name) in hset:
                    ls = loop_sources(r["body"], sides)
                    chk.expect(ls == [loop_side], f"{which}:{ctor_name.lower()}-iteration-side",
                               f"{which}: the {ctor_name.lower()} rule must iterate the {'expected (right)' if loop_side == (2,) else 'actual (left)'} "
                               f"type's entries and look each up in the other side; it iterates side(s) {ls}",
                               ok_detail=f"iterates side {loop_side[0]}, looks up in side {3 - loop_side[0]}")
                    for nm, s1, s2, _c in body_calls:
                        chk.expect(s1 == (1,) and s2 == (2,), f"{which}:{ctor_name.lower()}-orientation",
                                   f"{which}: {ctor_name.lower()} rule recurses on sides {s1} <: {s2}; must be left <: right")
                    if ctor_name == "Record":
                        # the missing-field tolerance set
                        sets = []
                        from shared import helper_bodies
                        mms = list(nodes(r["body"], "match"))
                        for hb in helper_bodies(facts.crate("candid"), r["body"]):
                            mms.extend(nodes(hb, "match"))
                        for m in mms:
                            hs = []
                            for a in m["arms"]:
                                for alt in pat_alternatives(a["pat"]):
                                    hd = __import__("facts").pat_head(alt)
                                    if isinstance(hd, str) and hd.startswith(TI):
                                        hs.append(hd[len(TI):])
                            if hs and set(hs) <= {"Null", "Reserved", "Opt"}:
                                sets.append(sorted(hs))
                        chk.expect(sets == [["Null", "Opt", "Reserved"]], f"{which}:record-missing-field-set",
                                   f"{which}: a field missing on the left is tolerated exactly when the expected type is null, reserved or opt; found {sets}")
            for cn in ("Vec",):
                if (cn, cn) in hset:
                    for nm, s1, s2, _c in body_calls:
                        chk.expect(s1 == (1,) and s2 == (2,), f"{which}:{cn.lower()}-orientation",
                                   f"{which}: {cn} rule recurses on sides {s1} <: {s2}")
            if any("Class" in h for h in heads):
                for nm, s1, s2, _c in body_calls:
                    chk.expect(s1 == (1,) and s2 == (2,), f"{which}:class-orientation:{name}", f"{which}: {name} recurses on sides {s1},{s2}")

    def r4():
        for w in CHECKERS:
            structural_rule(w)
        # check_func_params forwards (sub, sup) in order
        h = c.fn(r"types::subtype::check_func_params$")
        chk.analysed(h["key"])
        env = {"sub_params": frozenset({1}), "sup_params": frozenset({2})}
        calls, _ = rec_call_sides("check_func_params", h["body"], env)
        chk.floor("recursive calls in check_func_params", len(calls), 2)
        for nm, s1, s2, _c in calls:
            chk.expect(s1 == (1,) and s2 == (2,), "check_func_params:orientation",
                       f"check_func_params must check sub_params <: sup_params, found sides {s1},{s2}")

    def r5():
        p = facts.crate("candid_parser")
        for fname, target in (("service_compatible", "subtype::subtype"), ("service_compatibility_report", "subtype::subtype_check_all"),
                              ("service_equal", "subtype::equal")):
            h = p.fn(r"candid_parser::utils::%s$" % fname)
            chk.analysed(h["key"])
            s = Sides({"new": frozenset({1}), "old": frozenset({2}), "left": frozenset({1}), "right": frozenset({2})})
            s.scan(h["body"])
            cs = [n for n in walk(h["body"]) if n.get("k") == "call" and (callee(n) or "").endswith(target)]
            if len(cs) != 1:
                chk.bad(f"entry:{fname}", f"{fname}: expected exactly one call to {target}, found {len(cs)}")
                continue
            a = cs[0]["args"]
            s1, s2 = tuple(sorted(s.of(a[2]))), tuple(sorted(s.of(a[3])))
            # t2 goes through merge_type (env of `new` is the receiver, so its side is 1 as well)
            mt = [n for n in walk(h["body"]) if n.get("k") == "mcall" and n["m"] == "merge_type"]
            chk.expect(s1 == (1,) and 2 in s2 and len(mt) == 1, f"entry:{fname}",
                       f"{fname}: must call {target}(new, merge_type(old)) in that order; operand sides are {s1}, {s2}, merge_type calls: {len(mt)}",
                       ok_detail=f"{target}(side {s1}, side {s2}) after merge_type")
        # both public subtype entry points use the Warning report; the decoder uses Silence
        for fname in ("subtype", "subtype_check_all"):
            h = c.fn(r"types::subtype::%s$" % fname)
            rp = [x["res"]["path"] for x in walk(h["body"]) if x.get("k") == "path" and "OptReport::" in (x.get("res") or {}).get("path", "")]
            chk.expect(rp == ["candid::types::subtype::OptReport::Warning"], f"entry:{fname}:report",
                       f"{fname} must run with OptReport::Warning, found {rp}")

    def r6():
        h = c.fn(r"type_env::TypeEnv::merge_type$")
        chk.analysed(h["key"])
        # tau renames every clashing name; every binding moved over and the returned type are rewritten with it
        substs = {}
        for st in nodes(h["body"], "slet"):
            ini = unblock(st["init"]) if st.get("init") else None
            if isinstance(ini, dict) and ini.get("k") == "mcall" and ini["m"] == "subst" and st["pat"].get("k") == "bind":
                substs[st["pat"]["n"]] = True
        ins = [x for x in walk(h["body"]) if x.get("k") == "mcall" and x["m"] in ("insert", "extend", "append", "entry", "try_insert")
               and (expr_path(x["recv"]) or "") == "self.0"]
        bad = []
        for x in ins:
            if x["m"] != "insert":
                bad.append(f"{x['m']} moves bindings over without rewriting them")
                continue
            v = unblock(x["args"][1])
            ok1 = (v.get("k") == "mcall" and v["m"] == "subst") or (expr_path(v) in substs)
            if not ok1:
                bad.append(f"insert of `{expr_path(v) or v.get('k')}` that did not go through subst(&tau)")
        chk.expect(len(ins) >= 1 and not bad, "merge_type:every-binding-rewritten",
                   f"TypeEnv::merge_type must apply the renaming to every binding it copies from the other environment: a binding that keeps its own "
                   f"name can still refer to a renamed one, and would otherwise silently resolve to the *new* interface's definition ({bad})",
                   ok_detail=f"{len(ins)} insert(s), all of subst(&tau) results")
        tail = unblock(h["body"].get("e")) if h["body"].get("e") else None
        rets = [unblock(r["e"]) for r in nodes(h["body"], "ret") if r.get("e")]
        outs = ([tail] if tail is not None else []) + rets
        chk.expect(bool(outs) and all(o.get("k") == "mcall" and o["m"] == "subst" and expr_path(o["recv"]) == "ty" for o in outs),
                   "merge_type:returned-type-rewritten", "TypeEnv::merge_type must return ty.subst(&tau) on every path")
        # tau maps exactly the clashing names, to fresh names
        filt = [x for x in method_calls_(h["body"], "filter")]
        chk.expect(len(filt) == 1 and any(y.get("k") == "mcall" and y["m"] == "contains_key" and (expr_path(y["recv"]) or "") == "self.0" for y in walk(filt[0])),
                   "merge_type:clashes-are-renamed", "TypeEnv::merge_type must rename every name of the other environment that is already bound in self")

    for rid, desc, fn in (("C05.R1", "subtype_: every constructor pair is decided as the spec's rules decide it", r1),
                          ("C05.R2", "subtype_collect_ and equal_impl agree with their sibling / with structural equality", r2),
                          ("C05.R3", "memo discipline: assume before unfold, retract on failure, roll back after a failed probe", r3),
                          ("C05.R4", "variance, iteration side and lookup side of every structural rule", r4),
                          ("C05.R5", "entry points pass (new, merged old) in that order and share the report mode", r5),
                          ("C05.R6", "merging the old interface's environment renames clashes and rewrites every binding", r6)):
        if only and only != rid:
            continue
        chk.run_rule(rid, desc, fn)
    if only is None:
        import c02
        chk.include(c02, "C02.R2", "C05.R7", facts)     # "missing field tolerated iff opt/null/reserved", decided on the resolved type at every site
        chk.include(c02, "C02.R4", "C05.R8", facts)     # the decoder's run-time use of the relation goes through the checker every time (no acceptance cache keyed by one type)
