"""C20 — randomly generated arguments always inhabit the requested types (structural clauses)."""
import re

from facts import AnchorMissing, term_callee, callee, calls, expr_path, lit_value, nodes, pat_variants, peel, short, unblock, walk
from shared import TI, Matrix, arm_rows, the_match
from c18_util import (NON_LENGTHENING, ORDER_PRESERVING, PANIC_MACROS, ancestors, bind_names, chain_root, contains, diverges,
                      is_panic_expr, is_try_return,
                      local_name, parent_map, resolve_scoped_try, scoped_let, show, untry, value_leaves)

TITLE = ("C20: RandState::any panics for no TypeInner variant a checked signature can contain and every panic-capable "
         "construct of random.rs is discharged or justified; configured values pass annotate_type at the requested type; "
         "generated records/variants/opt/vec carry the type's labels, order, index and payload types; the depth/size "
         "budget is decremented per type node and push_state/pop_state are paired on every non-error path.")

RND = r"candid_parser::random::"
IV = "candid::types::value::IDLValue::"
IMPOSSIBLE = {"Knot", "Unknown", "Future", "Class"}
UNSIGNED = {"usize", "u8", "u16", "u32", "u64", "u128"}


def ti_heads(row):
    return [h[0][len(TI):] for h in row["heads"] if isinstance(h[0], str) and h[0].startswith(TI)]


def is_err_return(ret):
    e = unblock(ret.get("e")) if isinstance(ret, dict) else None
    return isinstance(e, dict) and e.get("k") == "call" and (callee(e) or "").endswith("Result::Err")


def short_ty(t):
    t = re.sub(r"^&(mut )?", "", t or "?")
    t = re.sub(r"\b(?:[a-z_0-9]+::)+", "", t)
    return t


def run(chk, facts, tier, only=None):
    cp = facts.crate("candid_parser")
    cd = facts.crate("candid")

    def rfn(name):
        h = cp.fn(RND + name + "$")
        chk.analysed(h["key"])
        return h

    def any_fn():
        return rfn(r"RandState::<'_>::any")

    # ------------------------------------------------------------------------------------------------- R1
    def nonzero_evidence(par, site, operand):
        """is there a test showing `operand` (a local, possibly dereferenced) is > 0 on the way to `site`?"""
        name = local_name(operand)
        if not name:
            return False

        def cmp0(c, ops):
            for x in walk(c):
                if x.get("k") == "bin" and x.get("op") in ops:
                    for a, b, flip in ((x["a"], x["b"], False), (x["b"], x["a"], True)):
                        if local_name(a) and lit_value(b) in (0, 1):
                            yield x["op"], local_name(a), lit_value(b), flip
        # enclosing if / preceding diverging if on the same local
        child = site
        for a in ancestors(site, par):
            if a.get("k") == "if" and contains(a["t"], site):
                for op, n, v, flip in cmp0(a["c"], ("Gt", "Ne", "Ge", "Lt")):
                    if n == name and ((op == "Gt" and v == 0 and not flip) or (op == "Ne" and v == 0) or (op == "Ge" and v == 1 and not flip)
                                      or (op == "Lt" and v == 0 and flip)):
                        return True
            if a.get("k") == "block":
                for st in a.get("stmts") or []:
                    if st is child or contains(st, site):
                        break
                    s = st["e"] if st.get("k") == "semi" else st
                    if s.get("k") == "if" and diverges(s["t"]):
                        for op, n, v, flip in cmp0(s["c"], ("Eq", "Lt", "Le")):
                            if n == name and ((op == "Eq" and v == 0) or (op == "Lt" and v == 1 and not flip) or (op == "Le" and v == 0 and not flip)):
                                return True
            child = a
        # the local is bound by `let x = match .. { pat if *p > 0 => *p, _ => <diverge> }`
        st = scoped_let(peel(operand), par, name)
        if st is not None and st.get("init") is not None:
            ini = unblock(st["init"])
            if ini.get("k") == "match" and ini.get("src") == "Normal":
                ok = True
                for arm in ini["arms"]:
                    if diverges(arm["body"]):
                        continue
                    g = arm.get("guard")
                    v = local_name(arm["body"])
                    good = False
                    if g is not None and v:
                        for op, n, val, flip in cmp0(g, ("Gt", "Ne", "Ge")):
                            if n == v and ((op == "Gt" and val == 0 and not flip) or (op == "Ne" and val == 0) or (op == "Ge" and val == 1 and not flip)):
                                good = True
                    ok = ok and good
                return ok
        return False

    def nonempty_evidence(par, site, vec_name):
        """a test showing the vector/slice local is non-empty dominates `site`"""
        child = site
        for a in ancestors(site, par):
            if a.get("k") == "if" and contains(a["t"], site):
                for x in walk(a["c"]):
                    if x.get("k") == "un" and x.get("op") == "Not":
                        y = unblock(x["a"])
                        if y.get("k") == "mcall" and y["m"] == "is_empty" and local_name(y["recv"]) == vec_name:
                            return True
            if a.get("k") == "block":
                for st in a.get("stmts") or []:
                    if st is child or contains(st, site):
                        break
                    s = st["e"] if st.get("k") == "semi" else st
                    if s.get("k") == "if" and diverges(s["t"]):
                        c = unblock(s["c"])
                        if c.get("k") == "mcall" and c["m"] == "is_empty" and local_name(c["recv"]) == vec_name:
                            return True
                        if c.get("k") == "bin" and c.get("op") == "Eq" and lit_value(c["b"]) == 0:
                            y = unblock(c["a"])
                            if y.get("k") == "mcall" and y["m"] == "len" and local_name(y["recv"]) == vec_name:
                                return True
            child = a
        return False

    def r1():
        h = any_fn()
        m = the_match(h, r"TypeInner$", 10)
        allv = set(cd.enum_variants(r"types::internal::TypeInner$"))
        named = set()
        panicking = set()
        catch_all_panics = False
        for row in arm_rows(m):
            hs = ti_heads(row)
            if row["guard"] is None:
                named |= set(hs)
            if is_panic_expr(row["body"]):
                panicking |= set(hs)
                if any(hd == ("_",) for hd in row["heads"]):
                    catch_all_panics = True
        if catch_all_panics:
            panicking |= (allv - named)
        chk.floor("TypeInner variants handled by explicit arms of RandState::any", len(named - panicking), 22)
        for X in sorted(allv):
            if X in panicking:
                chk.expect(X in IMPOSSIBLE, f"any:panics-for:{X}",
                           f"RandState::any: TypeInner::{X} reaches a panicking arm ({'the catch-all `_ => unimplemented!()`' if X not in named else 'its own arm'}); "
                           f"a checked signature can contain `{X.lower()}` (e.g. `didc random -t '({X.lower()})'`, or any record/vec/variant "
                           f"containing it), so the generator panics instead of returning an error",
                           where=f"{h['span']['file']}", ok_detail="cannot occur in a checked signature")
            else:
                chk.ok(f"any:handles:{X}", "explicit non-panicking arm" if X in named else "non-panicking catch-all", nontrivial=False)
        chk.assume("C20.R1: Knot/Unknown/Future do not occur in a checked TypeEnv and Class only as the actor type (C14); the "
                   "environment passed to random::any is closed (rec_find_type in size_helper cannot fail)")
        chk.assume("C20.R1: overflow of `±1` on the isize depth/size budgets exists only with overflow checks (debug profile) and needs a "
                   "configured budget of isize::MIN/MAX; these sites are counted, not decided (the usize size estimate is decided by C20.R5)")
        # ---- panic-capable constructs of the generator (functions reachable from random::any, closures inlined)
        fns = [x for x in cp.fns(r"^(<)?" + RND) if x.get("kind") in ("Fn", "AssocFn") and "::_::" not in x["key"]
               and not re.search(r" as core::(fmt::Debug|clone::Clone|default::Default)>", x["key"])
               and not re.search(r" as serde", x["key"])]
        chk.floor("functions of random.rs scanned", len(fns), 14)
        nsites = 0
        ncounted = 0
        callers_of_choose_range = []
        for g in fns:
            for n in calls(g["body"], RND + r"choose_range$"):
                callers_of_choose_range.append((g, n))
        for g in fns:
            par = parent_map(g["body"])
            fname = g["name"] if not g.get("impl") else (short_ty(g["impl"]["self_ty"]).split("<")[0] + "::" + g["name"])
            chk.analysed(g["key"])
            seen_keys = {}

            def key_of(kind, detail):
                k = f"site:{fname}:{kind}:{detail}"
                seen_keys[k] = seen_keys.get(k, 0) + 1
                return k if seen_keys[k] == 1 else f"{k}#{seen_keys[k]}"

            handled_sub = set()
            for n in walk(g["body"]):
                k = n.get("k")
                where = f"{g['span']['file']}:{n.get('ln')}"
                # -- indexing
                if k == "index":
                    nsites += 1
                    base = local_name(n["a"])
                    idx = unblock(n["b"])
                    aty = short_ty(n.get("aty"))
                    # v[v.len() - 1]
                    if idx.get("k") == "bin" and idx.get("op") == "Sub" and lit_value(idx["b"]) == 1:
                        le = unblock(idx["a"])
                        if le.get("k") == "mcall" and le["m"] == "len" and local_name(le["recv"]) == base and base:
                            handled_sub.add(id(idx))
                            root_, _u = chain_root(par, n["a"], NON_LENGTHENING - {"scan", "filter", "filter_map", "take", "skip",
                                                                                    "take_while", "skip_while"})
                            chk.expect(nonempty_evidence(par, n, base) or (root_ and root_ != base and nonempty_evidence(par, n, root_)),
                                       key_of("index-last", aty),
                                       f"{g['key']}: `{show(n)}` takes the last element of a vector built from the caller's slice "
                                       f"with no emptiness test before it: for an empty slice `len() - 1` underflows (debug) / "
                                       f"indexes out of bounds (release). Reached from RandState::any for `variant {{}}` "
                                       f"(e.g. `didc random -t '(variant {{}})'`)", where=where,
                                       ok_detail="non-emptiness tested first")
                            continue
                    # fs[idx] with idx produced by arbitrary_variant over a collection derived from fs
                    iname = local_name(idx)
                    ok = False
                    why = "index is not a local produced by arbitrary_variant"
                    if iname and base:
                        leaves = resolve_scoped_try(par, idx)
                        av = [l for l in leaves if l.get("k") == "call" and (callee(l) or "").endswith("random::arbitrary_variant")]
                        if len(av) == len(leaves) == 1:
                            root, used = chain_root(par, av[0]["args"][1], NON_LENGTHENING)
                            ok = root == base and index_bound_ok()
                            why = f"weights are derived from `{root}` via {used}; arbitrary_variant bound proof: {index_bound_ok()}"
                    chk.expect(ok, key_of("index", aty),
                               f"{g['key']}: `{show(n)}` is in bounds only if the index comes from arbitrary_variant over weights "
                               f"computed from the same collection without lengthening adaptors ({why})", where=where,
                               ok_detail=why)
                    continue
                # -- unsigned subtraction / division
                if k == "bin" and n.get("op") in ("Sub", "Div", "Rem") and short_ty(n.get("aty")) in UNSIGNED:
                    if id(n) in handled_sub:
                        continue
                    nsites += 1
                    aty = short_ty(n.get("aty"))
                    if n["op"] == "Sub":
                        a = unblock(n["a"])
                        ev = lit_value(n["b"]) == 1 and nonzero_evidence(par, n, a)
                        chk.expect(ev, key_of("sub", aty),
                                   f"{g['key']}: `{show(n)[:90]}` on {aty} with no test that the left operand is positive: when it is 0 "
                                   f"the subtraction underflows (panic with overflow checks; otherwise the range becomes 0..=MAX). "
                                   f"In arbitrary_variant this is the sum of the weights: all-zero weights arise for "
                                   f"`variant {{ a : empty }}` or, once depth/size is exhausted, for any variant with an `empty` "
                                   f"alternative", where=where, ok_detail="left operand tested positive")
                    else:
                        # divisor must be provably non-zero; the only instance lives in the `config.width.or_else(..)` closure,
                        # which is dead as long as GenConfig.width can never become None
                        inside_or_else = any(x.get("k") == "mcall" and x["m"] == "or_else" and (expr_path(x["recv"]) or "").endswith("config.width")
                                             for x in ancestors(n, par))
                        chk.expect(inside_or_else and width_always_some(), key_of(n["op"].lower(), aty),
                                   f"{g['key']}: `{show(n)[:90]}` divides by a size that is 0 for `empty`; it is only safe while it sits in "
                                   f"`config.width.or_else(..)` and GenConfig.width is always Some (Default gives Some, merge_config "
                                   f"overwrites only with Some): inside or_else={inside_or_else}, width invariant={width_always_some()}",
                                   where=where, ok_detail="dead code: config.width is always Some")
                    continue
                if k in ("bin", "assignop") and re.match(r"(Add|Sub|Mul|Shl)(Assign)?$", n.get("op") or "") and re.match(r"[iu](size|\d+)$", short_ty(n.get("aty"))):
                    ncounted += 1
                    continue
                # -- unwrap / expect
                if k == "mcall" and n["m"] in ("unwrap", "expect", "unwrap_err", "expect_err") and \
                        re.search(r"(option::Option|result::Result)::<.*>::", n.get("callee") or ""):
                    nsites += 1
                    src = untry(n["recv"])
                    what = short(callee(src) or src.get("m") or "?") if src.get("k") in ("call", "mcall") else "?"
                    what = src["m"] if src.get("k") == "mcall" else what
                    okk = what == "rec_find_type"
                    chk.expect(okk, key_of("unwrap", what),
                               f"{g['key']}: `{show(n)[:90]}` panics when `{what}` fails; only `rec_find_type(..).unwrap()` is justified "
                               f"(closed environment, C14)", where=where, ok_detail="justified: closed environment (assumption)")
                    continue
                # -- int_in_range precondition start <= end
                if k == "mcall" and n["m"] == "int_in_range" and "arbitrary::unstructured::Unstructured" in (n.get("callee") or ""):
                    nsites += 1
                    verdict, detail = range_ok(g, par, n, callers_of_choose_range)
                    chk.expect(verdict, key_of("int_in_range", detail if verdict else detail.split(":")[0]),
                               f"{g['key']}: `{show(n)[:90]}`: Unstructured::int_in_range asserts start <= end "
                               f"(\"requires a non-empty range\"); here {detail}" +
                               (". In arbitrary_num both bounds come from the `range` configuration (Option<(i64, i64)>, each clamped "
                                "separately by try_from(..).unwrap_or(min|max)), so e.g. `range = [10, 5]` at any integer type panics "
                                "instead of returning an error" if fname == "arbitrary_num" else ""),
                               where=where, ok_detail=detail)
                    continue
                # -- panic macros (the TypeInner table above covers the catch-all of `any`)
                if k == "call" and (callee(n) or "").startswith("core::panicking") or \
                        (k == "call" and re.search(r"(assert_failed|panic_fmt|panic_display|begin_panic)", callee(n) or "")):
                    mac = [x for x in (n.get("mac") or []) if x in PANIC_MACROS]
                    in_any_table = g is h and any(is_panic_expr(a["body"]) and contains(a["body"], n) for a in m["arms"])
                    if in_any_table:
                        continue
                    nsites += 1
                    chk.bad(key_of("macro", mac[0] if mac else "panic"),
                            f"{g['key']}: `{mac[0] if mac else 'panic'}!` outside the TypeInner table of RandState::any is not in the "
                            f"justified inventory", where=where)
        chk.floor("panic-capable constructs decided in random.rs", nsites, 9)
        chk.ok("counted:arithmetic-overflow-sites", f"{ncounted} +/*/± sites on integers covered by the stated assumption", nontrivial=False)

    _memo = {}

    def index_bound_ok():
        """arbitrary_variant returns Ok(i) only for i the position of enumerate() over a collection derived from its weight
        slice through non-lengthening adaptors: so i < weight.len()"""
        if "ib" in _memo:
            return _memo["ib"]
        g = rfn("arbitrary_variant")
        par = parent_map(g["body"])
        wname = (bind_names(g["params"][1]) or [None])[0]
        oks = [x for x in walk(g["body"]) if x.get("k") == "call" and (callee(x) or "").endswith("Result::Ok")]
        good = bool(oks)
        for o in oks:
            v = local_name(o["args"][0])
            found = False
            for a in ancestors(o, par):
                if a.get("k") == "match" and a.get("src") == "ForLoopDesugar" and (callee(a["scrut"]) or "").endswith("Iterator::next"):
                    for arm in a["arms"]:
                        tups = [p for p in walk(arm["pat"]) if p.get("k") == "tuple" and len(p.get("subs", [])) == 2]
                        if tups and v in bind_names(tups[0]["subs"][0]):
                            outer = [x for x in ancestors(a, par) if x.get("k") == "match" and x.get("src") == "ForLoopDesugar"]
                            if outer:
                                it = untry(outer[0]["scrut"]["args"][0])
                                if it.get("k") == "mcall" and it["m"] == "enumerate":
                                    root, used = chain_root(par, it["recv"], NON_LENGTHENING)
                                    found = root == wname
            good = good and found
        if not oks:
            # the other idiom: `coll.iter().position(p).ok_or_else(..)` as the value of the function: position() yields an index of `coll`
            tail = unblock(g["body"].get("e")) if g["body"].get("e") else {}
            e = untry(tail)
            if e.get("k") == "mcall" and e["m"] in ("ok_or_else", "ok_or"):
                pz = untry(e["recv"])
                if pz.get("k") == "mcall" and pz["m"] in ("position", "rposition"):
                    root, used = chain_root(par, pz["recv"], NON_LENGTHENING)
                    good = root == wname
        _memo["ib"] = good
        return good

    def width_always_some():
        if "w" in _memo:
            return _memo["w"]
        ok = True
        d = cp.fn(r"^<candid_parser::random::GenConfig as core::default::Default>::default$")
        lits = [s for s in nodes(d["body"], "struct") if (s.get("res") or {}).get("path", "").endswith("random::GenConfig")]
        if len(lits) != 1:
            raise AnchorMissing("GenConfig::default: struct literal not found")
        w = dict(lits[0]["fields"]).get("width")
        ok = ok and isinstance(w, dict) and w.get("k") == "call" and (callee(w) or "").endswith("Option::Some")
        nassign = 0
        for g in cp.fns(r"^(<)?" + RND):
            if g.get("kind") not in ("Fn", "AssocFn"):
                continue
            par = None
            for a in nodes(g["body"], "assign"):
                lhs = a["a"]
                if lhs.get("k") == "field" and lhs["n"] == "width" and "GenConfig" in (lhs.get("bty") or ""):
                    nassign += 1
                    par = par or parent_map(g["body"])
                    guarded = False
                    for anc in ancestors(a, par):
                        if anc.get("k") == "if" and contains(anc["t"], a):
                            for x in walk(anc["c"]):
                                if x.get("k") == "mcall" and x["m"] == "is_some" and (expr_path(x["recv"]) or "").endswith(".width") \
                                        and (expr_path(x["recv"]) or "").split(".")[0] == (expr_path(a["b"]) or "").split(".")[0]:
                                    guarded = True
                    rhs = unblock(a["b"])
                    some = rhs.get("k") == "call" and (callee(rhs) or "").endswith("Option::Some")
                    ok = ok and (guarded or some)
            for x in nodes(g["body"], "mcall"):
                if x["m"] in ("clone_from", "take", "replace") and (expr_path(x["recv"]) or "").endswith(".width"):
                    ok = False
        ok = ok and nassign >= 1
        _memo["w"] = ok
        return ok

    def range_ok(g, par, n, callers):
        arg = untry(n["args"][0])
        rn = None
        if arg.get("k") == "call" and (callee(arg) or "").endswith("RangeInclusive::<Idx>::new") or \
                (arg.get("k") == "call" and (callee(arg) or "").endswith("RangeInclusive::new")):
            rn = arg
        if rn is None and arg.get("k") == "struct" and "RangeInclusive" in ((arg.get("res") or {}).get("path") or ""):
            rn = arg
        if rn is not None:
            lo, hi = (rn["args"][0], rn["args"][1]) if rn.get("k") == "call" else (None, None)
            vlo, vhi = lit_value(lo), lit_value(hi)
            if isinstance(vlo, int) and isinstance(vhi, int):
                return vlo <= vhi, f"literal-bounds:{vlo}..={vhi}"
            if vlo == 0:
                # 0 ..= x is non-empty for every unsigned x: the element type is that of the upper bound
                ty = None
                for x in walk(hi):
                    if x.get("aty") or x.get("ty"):
                        ty = short_ty(x.get("aty") or x.get("ty"))
                        break
                ln = local_name(hi)
                if ty is None and ln:
                    st = scoped_let(peel(hi), par, ln)
                    ty = short_ty((st or {}).get("pat", {}).get("ty")) if st else None
                    if ty is None:
                        for p in walk(g["params"]):
                            if p.get("k") == "bind" and p.get("n") == ln:
                                ty = short_ty(p.get("ty"))
                if ty in UNSIGNED:
                    return True, f"zero-to-unsigned:{ty}"
                return False, f"lower bound 0, upper bound of unknown signedness ({ty})"
            a, b = local_name(lo), local_name(hi)
            if a and b:
                # a comparison of the two bounds must guard the call
                child = n
                for anc in ancestors(n, par):
                    if anc.get("k") == "if" and contains(anc["t"], n):
                        for x in walk(anc["c"]):
                            if x.get("k") == "bin" and x.get("op") in ("Le", "Lt") and local_name(x["a"]) == a and local_name(x["b"]) == b:
                                return True, "bounds:compared"
                            if x.get("k") == "bin" and x.get("op") in ("Ge", "Gt") and local_name(x["a"]) == b and local_name(x["b"]) == a:
                                return True, "bounds:compared"
                    if anc.get("k") == "block":
                        for st in anc.get("stmts") or []:
                            if st is child or contains(st, n):
                                break
                            s = st["e"] if st.get("k") == "semi" else st
                            if s.get("k") == "if" and diverges(s["t"]):
                                for x in walk(s["c"]):
                                    if x.get("k") == "bin" and x.get("op") in ("Gt",) and local_name(x["a"]) == a and local_name(x["b"]) == b:
                                        return True, "bounds:compared"
                                    if x.get("k") == "bin" and x.get("op") in ("Lt",) and local_name(x["a"]) == b and local_name(x["b"]) == a:
                                        return True, "bounds:compared"
                    child = anc
                # min/max normalisation
                for nm, other, fn_ in ((a, b, "min"), (b, a, "max")):
                    st = scoped_let(peel(lo if nm == a else hi), par, nm)
                    ini = untry(st["init"]) if st and st.get("init") else None
                    if isinstance(ini, dict) and (ini.get("k") == "mcall" and ini["m"] == fn_ or
                                                  (ini.get("k") == "call" and (callee(ini) or "").endswith("cmp::" + fn_))):
                        return True, "bounds:normalised"
                return False, f"bounds:unordered: the locals `{a}`, `{b}` are passed as start/end without any comparison between them"
            return False, f"bounds:unknown: {show(rn)[:60]}"
        # a range value chosen from a slice parameter: every caller must pass literal non-empty ranges
        root = None
        ln = local_name(arg)
        if ln:
            leaves = resolve_scoped_try(par, arg)
            for lf in leaves:
                lf = untry(lf)
                while lf.get("k") == "mcall" and lf["m"] in ("clone", "to_owned"):
                    lf = untry(lf["recv"])
                if lf.get("k") == "mcall" and lf["m"] == "choose":
                    root = local_name(lf["args"][0])
        pnames = [(bind_names(p) or [None])[0] for p in g["params"]]
        if root and root in pnames and g["name"] == "choose_range":
            pi = pnames.index(root)
            if not callers:
                return False, "range-parameter: no caller found"
            nr = 0
            for (cg, cn) in callers:
                rs = [x for x in walk(cn["args"][pi]) if x.get("k") == "call" and re.search(r"RangeInclusive(::<Idx>)?::new$", callee(x) or "")]
                arr = [x for x in walk(cn["args"][pi]) if x.get("k") == "array"]
                if not arr or len(rs) != len(arr[0]["es"]) or not rs:
                    return False, f"range-parameter: caller {cg['name']} does not pass an array literal of ranges"
                for r in rs:
                    vlo, vhi = lit_value(r["args"][0]), lit_value(r["args"][1])
                    if not (isinstance(vlo, int) and isinstance(vhi, int) and vlo <= vhi):
                        return False, f"range-parameter: caller {cg['name']} passes {show(r)}"
                    nr += 1
            return True, f"range-parameter:{nr}-literal-ranges"
        return False, f"bounds:unknown: {show(arg)[:60]}"

    # ------------------------------------------------------------------------------------------------- R2
    def r2():
        h = any_fn()
        par = parent_map(h["body"])
        p_ty = (bind_names(h["params"][2]) or [None])[0]
        ifs = [i for i in nodes(h["body"], "if") if any((expr_path(le["init"]) or "").endswith(".config.value")
                                                        for le in nodes(i["c"], "let"))]
        if len(ifs) != 1:
            raise AnchorMissing(f"RandState::any: `if let Some(..) = &self.0.config.value` not found ({len(ifs)})")
        br = ifs[0]["t"]
        rets = [r for r in nodes(br, "ret") if not is_try_return(r)]
        chk.floor("returns on the configured-value path", len(rets), 1)
        for k, r in enumerate(rets):
            e = unblock(r.get("e"))
            okv = False
            detail = show(e)[:80]
            if e.get("k") == "call" and (callee(e) or "").endswith("Result::Ok"):
                leaves = resolve_scoped_try(par, e["args"][0])
                okv = bool(leaves)
                for lf in leaves:
                    good = lf.get("k") == "mcall" and lf["m"] == "annotate_type" and \
                        (lf.get("callee") or "").endswith("value::IDLValue::annotate_type") and \
                        local_name(lf["args"][-1]) == p_ty and (expr_path(lf["args"][-2]) or "").endswith(".env")
                    if good:
                        # the annotated value is the parsed configured string
                        src = resolve_scoped_try(par, lf["recv"])
                        good = all(s.get("k") == "call" and (callee(s) or "").endswith("parse_idl_value") for s in src)
                    okv = okv and good
                detail = "; ".join(show(lf)[:70] for lf in leaves)
            chk.expect(okv, f"configured-value:return#{k}" if k else "configured-value:return",
                       f"RandState::any: on the `config.value` path the returned value must be "
                       f"`parse_idl_value(..)?.annotate_type(_, self.0.env, {p_ty})?`; it is `{detail}`: a configured value is returned "
                       f"without being checked against the requested type", where=f"{h['span']['file']}:{r.get('ln')}",
                       ok_detail=f"Ok(v) with v = {detail}")
        # the branch cannot fall through with an unchecked value: it either returns or yields ()
        chk.expect(diverges(br) or not (br.get("e")), "configured-value:no-unchecked-fallthrough",
                   "RandState::any: the `config.value` branch yields a value instead of returning the annotated one")

    # ------------------------------------------------------------------------------------------------- R3
    def r3():
        mx = Matrix(facts)
        h = any_fn()
        par = parent_map(h["body"])
        m = the_match(h, r"TypeInner$", 10)
        p_u = (bind_names(h["params"][1]) or [None])[0]

        def rec_calls(node):
            return [x for x in walk(node) if x.get("k") == "mcall" and x["m"] == "any" and (x.get("callee") or "").endswith("RandState::<'_>::any")]

        # constructor table
        n = 0
        for row in arm_rows(m):
            hs = ti_heads(row)
            if not hs or is_panic_expr(row["body"]) or hs == ["Var"]:
                continue
            for X in hs:      # an or-pattern row produces the same value for each of its heads: every head is judged
                leaves = [untry(l) for l in value_leaves(row["body"])]
                ctors = set()
                for lf in leaves:
                    p = None
                    if lf.get("k") == "call":
                        p = callee(lf)
                    elif lf.get("k") == "path":
                        p = (lf.get("res") or {}).get("path")
                    ctors.add(p[len(IV):] if p and p.startswith(IV) else f"?{show(lf)[:40]}")
                want = {"Opt": {"None", "Opt"}}.get(X, {X})
                tyok = all((X in (mx.value_ty.get(c) or [])) if c in mx.value_ty else (c == X) for c in ctors)
                n += 1
                chk.expect(ctors == want and tyok, f"ctor:{X}",
                           f"RandState::any: for TypeInner::{X} the generated value is built with IDLValue::{sorted(ctors)}; expected "
                           f"{sorted(want)} (value_ty of these: {[mx.value_ty.get(c) for c in sorted(ctors)]})",
                           ok_detail=f"{X} -> IDLValue::{sorted(ctors)}")
        chk.floor("constructor rows of RandState::any", n, 22)

        def field_of(pat, e, depth=0):
            """which component (`id` / `ty`) of the candid Field bound by `pat` the expression denotes: through a
            `Field { id, ty }` pattern or through `<binder>.id` / `<binder>.ty`"""
            x = unblock(e)
            while isinstance(x, dict) and (x.get("k") == "ref" or (x.get("k") == "un" and x.get("op") == "Deref") or
                                           (x.get("k") == "mcall" and x["m"] in ("clone", "as_ref", "deref", "to_owned", "borrow"))):
                x = unblock(x.get("e") or x.get("a") or x.get("recv"))
            if not isinstance(x, dict):
                return None
            if x.get("k") == "field" and local_name(x["e"]) in bind_names(pat) and "Field" in (x.get("bty") or ""):
                return x["n"]
            n_ = local_name(x)
            if n_:
                for p in walk(pat):
                    if p.get("k") == "struct" and short((p.get("res") or {}).get("path")) == "Field":
                        for fname_, sub in p.get("fields") or []:
                            if n_ in bind_names(sub):
                                return fname_
                st_ = scoped_let(x, par, n_) if depth < 4 else None
                if st_ is not None and st_.get("init") is not None and st_["pat"] is not pat:
                    if st_["pat"].get("k") == "bind":
                        return field_of(pat, st_["init"], depth + 1)
                    ini_ = unblock(st_["init"])
                    if st_["pat"].get("k") == "tuple" and ini_.get("k") == "tup" and len(ini_["es"]) == len(st_["pat"]["subs"]):
                        for sub, comp in zip(st_["pat"]["subs"], ini_["es"]):
                            if n_ in bind_names(sub):
                                return field_of(pat, comp, depth + 1)
            return None

        def arm(X):
            rows = [r for r in arm_rows(m) if ti_heads(r) == [X]]
            if len(rows) != 1:
                raise AnchorMissing(f"RandState::any: expected one arm for TypeInner::{X}")
            return rows[0], (bind_names(rows[0]["pat"]) or [None])[0]

        # Var: unfolds through the environment and generates at the definition
        row, b = arm("Var")
        rc = rec_calls(row["body"])
        okvar = len(rc) == 1
        if okvar:
            src = resolve_scoped_try(par, rc[0]["args"][1])
            okvar = all(s.get("k") == "mcall" and s["m"] == "rec_find_type" and local_name(s["args"][0]) == b for s in src) and bool(src)
        chk.expect(okvar, "shape:Var", "RandState::any: a type variable must be generated at rec_find_type(<that variable>)")
        # Opt / Vec: payload generated at the payload type
        for X in ("Opt", "Vec"):
            row, b = arm(X)
            rc = rec_calls(row["body"])
            chk.expect(len(rc) == 1 and local_name(rc[0]["args"][1]) == b and local_name(rc[0]["args"][0]) == p_u, f"shape:{X}:payload-type",
                       f"RandState::any: the payload of {X} must be generated by self.any(u, <the {X} payload type `{b}`>); found "
                       f"{[show(x) for x in rc]}")
        row, b = arm("Vec")
        vecs = [l for l in value_leaves(row["body"]) if untry(l).get("k") == "call" and callee(untry(l)) == IV + "Vec"]
        okvec = False
        if len(vecs) == 1:
            vname = local_name(untry(vecs[0])["args"][0])
            muts = [x for x in walk(row["body"]) if x.get("k") == "mcall" and local_name(x["recv"]) == vname]
            pushes = [x for x in muts if x["m"] == "push"]
            okvec = bool(vname) and len(pushes) == 1 and all(x["m"] in ("push", "len", "capacity", "reserve") for x in muts)
            if okvec:
                src = resolve_scoped_try(par, pushes[0]["args"][0])
                okvec = all(s in rec_calls(row["body"]) for s in src) and bool(src)
        chk.expect(okvec, "shape:Vec:elements", "RandState::any: IDLValue::Vec must hold exactly the pushed results of self.any(u, t)")
        # Record: fields in the type's order, with the type's labels and each value generated at its field type
        row, b = arm("Record")
        body = row["body"]
        recs = [untry(l) for l in value_leaves(body) if untry(l).get("k") == "call" and callee(untry(l)) == IV + "Record"]
        if len(recs) != 1:
            raise AnchorMissing("RandState::any (Record arm): the IDLValue::Record(..) result was not found")
        rname = local_name(recs[0]["args"][0])
        muts = [x for x in walk(body) if x.get("k") == "mcall" and local_name(x["recv"]) == rname]
        pushes = [x for x in muts if x["m"] == "push"]
        if not rname or not pushes:
            raise AnchorMissing("RandState::any (Record arm): the field vector is no longer built by pushing into a local vector")
        only_push = bool(rname) and all(x["m"] in ("push", "len", "reserve", "capacity") for x in muts) and len(pushes) == 1
        loops = [x for x in nodes(body, "match") if x.get("src") == "ForLoopDesugar" and (callee(x["scrut"]) or "").endswith("into_iter")]
        okloop = False
        okfield = False
        used = None
        if only_push and len(loops) == 1:
            root, used = chain_root(par, loops[0]["scrut"]["args"][0], NON_LENGTHENING | {"sorted", "sort", "chain", "zip"})
            okloop = root == b and set(used) <= ORDER_PRESERVING and contains(loops[0], pushes[0])
            nxt = [x for x in nodes(loops[0], "match") if x.get("src") == "ForLoopDesugar" and (callee(x["scrut"]) or "").endswith("Iterator::next")]
            if nxt:
                some = [a for a in nxt[0]["arms"] if contains(a["body"], pushes[0])]
                if some:
                    lit = untry(pushes[0]["args"][0])
                    if lit.get("k") == "struct" and short((lit.get("res") or {}).get("path")) == "IDLField":
                        lf = dict(lit["fields"])
                        vs = resolve_scoped_try(par, lf.get("val"))
                        okfield = field_of(some[0]["pat"], lf.get("id")) == "id" and bool(vs) and \
                            all(v.get("k") == "mcall" and v["m"] == "any" and field_of(some[0]["pat"], v["args"][1]) == "ty" for v in vs)
        chk.expect(okloop, "shape:Record:field-order",
                   f"RandState::any: the record value must be built by one loop over the type's own field list `{b}` in its order "
                   f"(adaptors used: {used}), pushing one field per iteration and nothing else touching the vector; a different order "
                   f"or length is not the (sorted, complete) field list annotate_type/encoding expect",
                   ok_detail=f"for Field{{id, ty}} in {b}.iter() {{ .. push(IDLField{{..}}) }}")
        chk.expect(okfield, "shape:Record:label-and-type",
                   "RandState::any: each pushed IDLField must carry the label of the field being iterated and a value generated by "
                   "self.any(u, <that field's type>)")
        # Variant: index, label and payload type all come from fs[idx]
        row, b = arm("Variant")
        body = row["body"]
        vs = [untry(l) for l in value_leaves(body) if untry(l).get("k") == "call" and callee(untry(l)) == IV + "Variant"]
        if len(vs) != 1:
            raise AnchorMissing("RandState::any (Variant arm): the IDLValue::Variant(..) result was not found")
        vv = [x for x in walk(vs[0]) if x.get("k") == "call" and (callee(x) or "").endswith("value::VariantValue")]
        okvar = False
        detail = ""
        if len(vv) == 1 and len(vv[0]["args"]) == 2:
            ixe = vv[0]["args"][1]
            while ixe.get("k") == "cast":
                ixe = ixe["e"]
            ixn = local_name(ixe)
            boxed = [x for x in walk(vv[0]["args"][0]) if x.get("k") == "path" and (x.get("res") or {}).get("kind") == "Local"]
            fsrc = resolve_scoped_try(par, boxed[0]) if boxed else [f for f in nodes(vv[0]["args"][0], "struct")]

            def strip_ref(e):
                e = unblock(e)
                while isinstance(e, dict) and e.get("k") == "ref":
                    e = unblock(e["e"])
                return e
            lets = [s_ for s_ in nodes(body, "slet") if s_.get("init") and strip_ref(s_["init"]).get("k") == "index"
                    and local_name(strip_ref(s_["init"])["a"]) == b]
            if not lets:
                raise AnchorMissing("RandState::any (Variant arm): `let <field> = &fs[<index>]` not found")
            if len(lets) == 1 and fsrc and all(f.get("k") == "struct" for f in fsrc):
                ini = strip_ref(lets[0]["init"])
                pat = lets[0]["pat"]
                same_ix = local_name(ini["b"]) == ixn and ixn
                lf = dict(fsrc[0]["fields"])
                vals = resolve_scoped_try(par, lf.get("val"))
                okvar = bool(same_ix) and field_of(pat, lf.get("id")) == "id" and bool(vals) and \
                    all(v.get("k") == "mcall" and v["m"] == "any" and field_of(pat, v["args"][1]) == "ty" for v in vals)
                detail = (f"index stored: {ixn}; field taken from {show(ini)}; label from `{show(lf.get('id'))}`; payload type "
                          f"`{[show(v['args'][1]) for v in vals if v.get('k') == 'mcall']}`")
        chk.expect(okvar, "shape:Variant:index-label-payload",
                   f"RandState::any: VariantValue(field, i) must store the chosen index i, the label of {b}[i] and a payload generated at "
                   f"{b}[i].ty ({detail})", ok_detail=detail)

    # ------------------------------------------------------------------------------------------------- R4
    def r4():
        # budget
        GC = r"^<candid_parser::random::GenConfig as candid_parser::configs::ConfigState>::"
        up = cp.fn(GC + "update_state$")
        rs = cp.fn(GC + "restore_state$")
        chk.analysed(up["key"], rs["key"])

        def budget_effects(g):
            par = parent_map(g["body"])
            out = {}
            for a in nodes(g["body"], "assign"):
                lhs = a["a"]
                if not (lhs.get("k") == "field" and "GenConfig" in (lhs.get("bty") or "")):
                    continue
                rhs = unblock(a["b"])
                delta = None
                if rhs.get("k") == "mcall" and rhs["m"] == "map" and (expr_path(rhs["recv"]) or "").endswith("." + lhs["n"]):
                    cl = rhs["args"][0]
                    if cl.get("k") == "closure":
                        p = (bind_names(cl["params"][0]) or [None])[0] if cl.get("params") else None
                        b = unblock(cl["body"])
                        if b.get("k") == "bin" and b.get("op") in ("Add", "Sub") and local_name(b["a"]) == p and isinstance(lit_value(b["b"]), int):
                            delta = lit_value(b["b"]) * (1 if b["op"] == "Add" else -1)
                # guards: `if let StateElem::Type(t) = elem` and `!matches!(t.as_ref(), TypeInner::Var(_))`
                ty_guard = var_excluded = False
                for anc in ancestors(a, par):
                    if anc.get("k") == "if" and contains(anc["t"], a):
                        for le in nodes(anc["c"], "let"):
                            if any((v or "").endswith("configs::StateElem::Type") for v in pat_variants(le["pat"])):
                                ty_guard = True
                        for x in walk(anc["c"]):
                            if x.get("k") == "un" and x.get("op") == "Not":
                                mm = unblock(x["a"])
                                if mm.get("k") == "match" and "matches" in (mm.get("mac") or []):
                                    hs = [short(v) for arm in mm["arms"] if lit_value(arm["body"]) is True for v in pat_variants(arm["pat"])]
                                    if hs == ["Var"]:
                                        var_excluded = True
                out[lhs["n"]] = (delta, ty_guard, var_excluded)
            return out

        u, r = budget_effects(up), budget_effects(rs)
        chk.expect(u.get("depth") == (-1, True, True) and u.get("size") == (-1, True, True) and set(u) == {"depth", "size"},
                   "budget:update_state",
                   f"GenConfig::update_state must decrement depth and size by 1 for every non-Var type node (and nothing else); found "
                   f"{u} as field -> (delta, only for StateElem::Type, Var excluded): without the decrement recursive types never reach "
                   f"the `depth <= 0 || size <= 0` cut-off", ok_detail=str(u))
        chk.expect(r.get("depth") == (1, True, True) and set(r) == {"depth"}, "budget:restore_state",
                   f"GenConfig::restore_state must give back exactly the depth taken by update_state (+1, same condition) and leave size "
                   f"consumed; found {r}", ok_detail=str(r))
        # the size of a type decides which alternative is "smallest" once the budget is used up.  size_helper reports `None` (infinite)
        # when it meets a name that is in `seen`; for that to mean "recursive", `seen` must hold exactly the names on the current expansion
        # path: inserted before the definition is expanded, removed again when the expansion has been sized.
        sh = cp.fn(r"^candid_parser::random::size_helper$")
        chk.analysed(sh["key"])
        sm = the_match(sh, r"TypeInner$", 5)
        vrow = [row for row in arm_rows(sm) if ti_heads(row) == ["Var"]]
        if len(vrow) != 1:
            raise AnchorMissing("size_helper: Var arm not found")
        scope_nodes = [vrow[0]["body"]] + ([vrow[0]["guard"]] if vrow[0].get("guard") else [])
        sets = [b["n"] for prm in sh["params"] for b in walk(prm) if b.get("k") == "bind" and re.search(r"(HashSet|BTreeSet)<", b.get("ty") or "")]
        ins = [x for sn in scope_nodes for x in walk(sn) if x.get("k") == "mcall" and x["m"] == "insert" and local_name(x["recv"]) in sets]
        rec = [x for sn in scope_nodes for x in walk(sn) if x.get("k") == "call" and callee(x) == sh["key"]]
        rem = [x for sn in scope_nodes for x in walk(sn) if x.get("k") == "mcall" and x["m"] == "remove" and local_name(x["recv"]) in sets]
        if not ins or not rec:
            raise AnchorMissing("size_helper: `seen.insert(id)` / recursive call not found in the Var arm")
        order = {id(x): i for i, x in enumerate(y for sn in scope_nodes for y in walk(sn))}
        spar = parent_map(vrow[0]["body"])

        def same_block_after(r, c):
            """the remove is a later statement of a block that (transitively) contains the recursive call"""
            for anc in ancestors(r, spar):
                if anc.get("k") == "block":
                    return contains(anc, c) and order[id(r)] > order[id(c)]
            return False
        okpath = all(order[id(i)] < order[id(c)] for i in ins for c in rec) and \
            all(any(local_name(r["recv"]) == local_name(ins[0]["recv"]) and same_block_after(r, c) for r in rem) for c in rec)
        chk.expect(okpath, "size_helper:seen-is-the-expansion-path",
                   f"size_helper: the name inserted into `{sets}` before expanding a definition must be removed again after the expansion was sized "
                   f"(insert: {len(ins)}, recursive calls: {len(rec)}, removes after them: {len(rem)}); otherwise a second, non-recursive mention of a "
                   f"definition is sized as infinite, the recursive alternative ties with the base case and generation runs past the depth limit",
                   where=f"{sh['span']['file']}:{vrow[0]['ln']}", ok_detail="seen.insert(id) … size_helper(..) … seen.remove(id)")
        # the budget of a recursive walk is installed once: a depth / size taken from a matching config entry is applied when the entry's
        # element is met for the first time on the path, never again on re-entry (labels and types alike) — else every round of the
        # cycle gets a fresh budget.  The guard of those assignments in merge_config is evaluated for every kind of context.
        mc = cp.fn(GC + "merge_config$")
        chk.analysed(mc["key"])
        from c11_util import Interp as _I2, NotEvaluable as _NE3
        tgt_if = None
        for st_ in (mc["body"].get("stmts") or []) + ([mc["body"]["e"]] if mc["body"].get("e") else []):
            s0 = st_.get("e") if st_.get("k") == "semi" else st_
            if isinstance(s0, dict) and s0.get("k") == "if" and any(
                    a.get("k") == "assign" and a["a"].get("k") == "field" and a["a"]["n"] in ("depth", "size") for a in walk(s0["t"])):
                cnd0 = unblock(s0["c"])
                if not (cnd0.get("k") == "mcall" and cnd0["m"] == "is_some" and "config" in (expr_path(cnd0["recv"]) or "")):
                    tgt_if = (st_, s0)
        if tgt_if is None:
            raise AnchorMissing("merge_config: the guarded block that installs depth / size was not found")
        SE = "candid_parser::configs::StateElem::"
        ctxs = {"none": None}
        for rec_ in (False, True):
            for el_ in ("Type", "TypeStr", "Label"):
                ctxs[f"{el_}/{'reentry' if rec_ else 'first'}"] = ("Some", ("struct", {"elem": ("enum", SE + el_, ["x"]), "is_recursive": rec_}))
        got_ = {}
        try:
            for nm_, cv in ctxs.items():
                it2 = _I2(cp)
                env2 = {"ctx": cv}
                for st_ in (mc["body"].get("stmts") or []):
                    if st_ is tgt_if[0]:
                        break
                    if st_.get("k") == "slet" and st_.get("init") is not None and any(
                            (x.get("res") or {}).get("path") == "ctx" for x in walk(st_["init"]) if x.get("k") == "path"):
                        it2.bind(st_["pat"], it2.ev(st_["init"], env2), env2)
                got_[nm_] = bool(it2.ev(tgt_if[1]["c"], env2))
            want_ = {nm_: (cv is not None and cv[1][1]["is_recursive"] is False) for nm_, cv in ctxs.items()}
            diff_ = {k_: v_ for k_, v_ in got_.items() if want_[k_] != v_}
            chk.expect(not diff_, "budget:installed-once-per-path",
                       f"GenConfig::merge_config installs a configured depth / size when the context is {sorted(k_ for k_, v_ in got_.items() if v_)}; it must do so "
                       f"exactly for a first visit (any element kind) and never on re-entry: deviating cases {diff_}. A budget re-installed on every "
                       f"round of a recursive type never runs out", where=f"{mc['span']['file']}:{tgt_if[1].get('ln')}",
                       ok_detail="installed iff the context exists and is not a re-entry (evaluated for 7 contexts)")
        except _NE3 as e_:
            raise AnchorMissing(f"merge_config: the guard of the depth / size block is outside the evaluable fragment: {e_}")
        # the cut-off tests read the same two fields
        h = any_fn()
        cut = {}
        m = the_match(h, r"TypeInner$", 10)
        for row in arm_rows(m):
            hs = ti_heads(row)
            if hs in (["Opt"], ["Variant"]):
                fields = set()
                from shared import helper_bodies
                for i in nodes(row["body"], "if"):
                    conds = [i["c"]] + helper_bodies(cp, i["c"])      # the test may live in a small predicate method
                    for x in (y for cnd_ in conds for y in walk(cnd_)):
                        if x.get("k") == "mcall" and x["m"] == "is_some_and":
                            p = expr_path(x["recv"]) or ""
                            cl = x["args"][0]
                            b = unblock(cl.get("body")) if cl.get("k") == "closure" else {}
                            if b.get("k") == "bin" and b.get("op") in ("Le", "Lt") and lit_value(b["b"]) in (0, 1):
                                fields.add(p.rsplit(".", 1)[-1])
                cut[hs[0]] = fields
        chk.expect(cut.get("Opt") == {"depth", "size"} and cut.get("Variant") == {"depth", "size"}, "budget:cut-off-reads-both",
                   f"RandState::any: the Opt and Variant arms must switch to the smallest alternative when depth <= 0 or size <= 0; "
                   f"tests found: {cut}")
        # errors end the generation: a recursive any(..) that fails has left its push_state un-popped (the `?` exits skip pop_state), so its
        # error must travel to the top; swallowed, the next pop_state hits `assert_eq!(self.path.pop(), ..)`
        par0 = parent_map(h["body"])
        recs = [x for x in walk(h["body"]) if x.get("k") == "mcall" and x["m"] == "any" and (x.get("callee") or "").endswith("RandState::<'_>::any")]
        chk.floor("recursive any(..) calls in RandState::any", len(recs), 4)
        for i, x in enumerate(recs):
            up = par0.get(id(x))
            hops = 0
            while up is not None and up.get("k") in ("block", "ref", "un") and hops < 3:
                up = par0.get(id(up))
                hops += 1
            tried = up is not None and up.get("k") == "call" and (callee(up) or "").endswith("Try::branch")
            chk.expect(tried, f"errors-propagate:any#{i}",
                       f"RandState::any: the result of the recursive call `{show(x)[:50]}` is not propagated with `?`: a failed sub-generation leaves "
                       f"its state pushed, and continuing after it makes the next pop_state panic instead of returning the error",
                       where=f"{h['span']['file']}:{x.get('ln')}", ok_detail="self.any(..)?")
        # pairing
        par = parent_map(h["body"])
        pushes = [x for x in walk(h["body"]) if x.get("k") == "mcall" and x["m"] == "push_state"
                  and (x.get("callee") or "").endswith("configs::State::<'a, T>::push_state")]
        chk.floor("push_state calls in RandState::any", len(pushes), 3)

        def elem_sig(e):
            e = unblock(e)
            while isinstance(e, dict) and e.get("k") == "ref":
                e = unblock(e["e"])
            if local_name(e) and e.get("k") == "path":
                return ("local", local_name(e))
            if e.get("k") == "call":
                return ("ctor", callee(e), tuple(local_name(a) or show(a) for a in e.get("args", [])))
            return ("?", show(e))

        for k, p in enumerate(pushes):
            st = par.get(id(p))
            ctx = "top"
            for anc in ancestors(p, par):
                if anc.get("k") == "match" and re.search(r"TypeInner$", anc.get("sty", "")):
                    for arm in anc["arms"]:
                        if contains(arm["body"], p):
                            ctx = "+".join(short(v) for v in pat_variants(arm["pat"]) if (v or "").startswith(TI)) or "_"
                    break
            key = f"pair:any/{ctx}"
            if not (st and st.get("k") == "slet" and st["pat"].get("k") == "bind"):
                chk.bad(key, f"RandState::any: the backup returned by `{show(p)}` is not bound to a variable, so it cannot be restored",
                        where=f"{h['span']['file']}:{p.get('ln')}")
                continue
            backup = st["pat"]["n"]
            blk = par.get(id(st))
            if not (blk and blk.get("k") == "block"):
                raise AnchorMissing("push_state let is not a block statement")
            stmts = blk.get("stmts") or []
            i0 = [j for j, s in enumerate(stmts) if s is st][0]
            esig = elem_sig(p["args"][0])
            final = None
            for j in range(i0 + 1, len(stmts)):
                s = stmts[j]["e"] if stmts[j].get("k") == "semi" else stmts[j]
                if s.get("k") == "mcall" and s["m"] == "pop_state" and local_name(s["args"][0]) == backup:
                    final = j
                    break
            if final is None:
                chk.bad(key, f"RandState::any ({ctx}): no `pop_state({backup}, ..)` follows `{show(p)}` in the same block: the path and "
                             f"config stay pushed on the normal path (later pops then hit `assert_eq!(self.path.pop(), ..)`)",
                        where=f"{h['span']['file']}:{p.get('ln')}")
                continue
            s = stmts[final]["e"] if stmts[final].get("k") == "semi" else stmts[final]
            same = elem_sig(s["args"][1]) == esig
            # early exits between push and the final pop
            okexits = True
            why = ""
            for j in range(i0 + 1, final):
                for x in walk(stmts[j]):
                    if x.get("k") in ("break", "continue") and "~ForLoop" not in (x.get("mac") or []):
                        okexits = False
                        why = f"`{x['k']}` between push and pop"
                    if x.get("k") == "ret" and not is_try_return(x) and not is_err_return(x):
                        # must be preceded, in its own block, by a pop of the same backup with the same element
                        b2 = par.get(id(x))
                        while b2 is not None and b2.get("k") != "block":
                            b2 = par.get(id(b2))
                        okr = False
                        if b2 is not None:
                            for s2 in b2.get("stmts") or []:
                                if contains(s2, x):
                                    break
                                s2 = s2["e"] if s2.get("k") == "semi" else s2
                                if s2.get("k") == "mcall" and s2["m"] == "pop_state" and local_name(s2["args"][0]) == backup \
                                        and elem_sig(s2["args"][1]) == esig:
                                    okr = True
                        if not okr:
                            okexits = False
                            why = f"`{show(x)[:40]}` leaves without pop_state({backup}, ..)"
            chk.expect(same and okexits, key,
                       f"RandState::any ({ctx}): `{show(p)}` must be matched by pop_state({backup}, <the same element>) on every "
                       f"non-error path; final pop element equal: {same} ({elem_sig(s['args'][1])} vs {esig}); {why}",
                       where=f"{h['span']['file']}:{p.get('ln')}", ok_detail="popped with the same element on every non-error path")


    # ------------------------------------------------------------------------------------------------- R5
    def r7():
        """Depth and size budgets are installed once per cycle because a configuration key that matches again further down the path is
        recognised as a repetition: `configs::is_repeated(path, matched)` must hold exactly when `matched` occurs as a contiguous run
        anywhere in `path`. The function is evaluated (its syntax tree, on lists of labels) against that definition."""
        from c11_util import Interp, NotEvaluable
        h = cp.fn(r"^candid_parser::configs::is_repeated$")
        chk.analysed(h["key"])
        samples = [(["a"], ["a"]), (["a", "b"], ["b"]), (["a", "b"], ["c"]), (["a"], ["a", "b"]), (["a", "b", "a", "c"], ["a", "c"]),
                   (["x", "a", "b", "y", "a", "c"], ["a", "c"]), (["a", "a", "b"], ["a", "b"]), (["a", "b", "a", "b"], ["b", "a"]),
                   (["n", "o", "n", "o", "p"], ["n", "o", "p"]), (["a", "b", "c"], ["a", "c"]), ([], ["a"]), (["b", "a"], ["a"]),
                   (["a", "x", "a", "y", "a", "z"], ["a", "z"]), (["a", "b", "c", "d"], ["b", "c"]), (["a", "b", "c", "d"], ["c", "b"])]
        wrong = []
        for path, matched in samples:
            want = any(path[i:i + len(matched)] == matched for i in range(0, len(path) - len(matched) + 1))
            try:
                got = Interp(cp).call_fn(h, [list(path), list(matched)])
            except NotEvaluable as e_:
                raise AnchorMissing(f"configs::is_repeated cannot be evaluated on {path} / {matched}: {e_}")
            if bool(got) != want:
                wrong.append((path, matched, got))
        chk.expect(not wrong, "budget:is_repeated:any-occurrence",
                   f"configs::is_repeated answers {wrong[0][2] if wrong else ''} for path {wrong[0][0] if wrong else ''} and key {wrong[0][1] if wrong else ''} "
                   f"({len(wrong)} of {len(samples)} samples differ from `matched occurs as a contiguous run of path`): a depth / size key whose head label also "
                   f"occurs earlier on the path in another context is not recognised as repeated, so the budget is re-installed on every round of a recursive "
                   f"type and the generator does not stop within the configured depth",
                   where=f"{h['span']['file']}:{h['span']['lo']}", ok_detail=f"{len(samples)} (path, key) samples agree with the definition")

    def r6():
        """`principal`, `service` and `func` values are drawn by `<Principal as Arbitrary>::arbitrary` (crate ic_principal): the two `unwrap`s in it
        hold because the drawn length lies in 1..=MAX_LENGTH_IN_BYTES — `last_mut()` needs at least one byte, `try_from` at most 29."""
        ip = facts.crate("ic_principal")
        hs = [h for k, h in ip.hir.items() if re.search(r"Principal as arbitrary::Arbitrary<'a>>::arbitrary$", k)]
        if not hs:
            raise AnchorMissing("<ic_principal::Principal as arbitrary::Arbitrary>::arbitrary not found (feature `arbitrary`)")
        h = hs[0]
        chk.analysed(h["key"])
        unwraps = [x for x in walk(h["body"]) if x.get("k") == "mcall" and x["m"] in ("unwrap", "expect")]
        needs_nonempty = any(any(y.get("k") == "mcall" and y["m"] in ("last_mut", "last", "first", "first_mut", "pop") for y in walk(x["recv"])) for x in unwraps)
        needs_max = any(any((y.get("k") in ("call", "mcall")) and re.search(r"try_from|from_slice", callee(y) or "") for y in walk(x["recv"])) for x in unwraps)
        ranges = []
        for x in walk(h["body"]):
            if x.get("k") == "mcall" and x["m"] == "int_in_range":
                for y in walk(x["args"][0]):
                    if y.get("k") == "call" and re.search(r"RangeInclusive(::<[^>]*>)?::new$", callee(y) or ""):
                        lo, hi = unblock(y["args"][0]), unblock(y["args"][1])
                        hi_ok = (hi.get("k") == "path" and str((hi.get("res") or {}).get("path", "")).endswith("MAX_LENGTH_IN_BYTES")) or \
                            (isinstance(lit_value(hi), int) and lit_value(hi) <= 29)
                        ranges.append((lit_value(lo), hi_ok))
        if (needs_nonempty or needs_max) and not ranges:
            raise AnchorMissing("Principal::arbitrary unwraps but the length range `int_in_range(lo..=hi)` was not found")
        for lo, hi_ok in ranges:
            chk.expect((not needs_nonempty or (isinstance(lo, int) and lo >= 1)) and (not needs_max or hi_ok), "leaf:Principal::arbitrary:length-range-justifies-unwraps",
                       f"Principal::arbitrary draws the length from {lo}..=.. and then unwraps `last_mut()` / `try_from`: a length of 0 (or above "
                       f"MAX_LENGTH_IN_BYTES) makes the generator panic for every type that contains `principal`, `service` or `func` instead of returning a value or "
                       f"an error", where=f"{h['span']['file']}:{h['span']['lo']}", ok_detail="1..=MAX_LENGTH_IN_BYTES")
        if not unwraps:
            chk.ok("leaf:Principal::arbitrary:length-range-justifies-unwraps", "no unwrap in the leaf generator", nontrivial=False)

    def r5():
        """The size estimate that decides between the recursive and the bounded generator (`size`, `size_helper`) is computed by a
        self-recursive function whose result doubles per `vec` level (`1 + s * 2`): any checked `+`/`*` in it traps for a type a
        checked program can contain (65 nested `vec`s, written as 65 one-line aliases). The function is found by role: the
        self-recursive function of random.rs that returns Option<usize>."""
        cands = []
        for k, b in cp.bodies.items():
            if not k.startswith(RND) or "{closure" in k:
                continue
            h = cp.hir.get(k)
            sig = next((i.get("sig") or "" for i in cp.items if i["kind"] == "fn" and i.get("key") == k), "")
            selfrec = any(t.get("k") == "call" and (term_callee(t)[0] or "") == k for t in (bl["t"] for bl in b.blocks))
            if selfrec and re.search(r"->\s*(core::option::)?Option<usize>", sig or ""):
                cands.append((k, b))
        if not cands:
            raise AnchorMissing("no self-recursive function returning Option<usize> in candid_parser::random (the size estimate, `size_helper`)")
        for k, b in cands:
            chk.analysed(k)
            traps = [(t.get("msg"), t.get("ln")) for t in (bl["t"] for bl in b.blocks if not bl.get("c")) if t.get("k") == "assert" and str(t.get("msg", "")).startswith("overflow")]
            muls = [x for x in traps if x[0] == "overflow:Mul"]
            short = k.split("::")[-1]
            chk.expect(not traps, f"size-estimate:{short}:no-trapping-arithmetic",
                       f"{k}: {len(traps)} overflow-checked operation(s) ({', '.join(sorted(set(m for m, _ in traps)))} at lines {sorted(set(l for _, l in traps))}) on a "
                       f"value that {'doubles per `vec` level' if muls else 'grows with the type'}: for `type t0 = vec nat; type t1 = vec t0; … type t64 = vec t63` the estimate exceeds "
                       f"usize::MAX and `random::any` panics (overflow checks on) instead of returning a value or an error; with checks off it wraps to a small "
                       f"number and the bounded generator is chosen for a huge type",
                       where=f"{(cp.hir.get(k) or {}).get('span', {}).get('file')}:{traps[0][1] if traps else ''}",
                       ok_detail="saturating / checked arithmetic only")
        # (no rule on `size / elem_size` in the Vec arm: the closure that divides runs only when `width` is None, and every configuration
        #  starts from GenConfig::default() (width = Some(10)) and can only overwrite it with Some — no input reaches the division)
        # (b) the weights handed to arbitrary_variant are size estimates (up to usize::MAX after saturation): their running sum must not trap either
        av = [(k, b) for k, b in cp.bodies.items() if k.startswith(RND + "arbitrary_variant")]
        if not av:
            raise AnchorMissing("candid_parser::random::arbitrary_variant not found")
        bad_sum = []
        for k, b in av:
            chk.analysed(k)
            for bl in b.blocks:
                t = bl["t"]
                if bl.get("c"):
                    continue
                if t.get("k") == "assert" and str(t.get("msg")) in ("overflow:Add", "overflow:Mul"):
                    bad_sum.append((k, t.get("ln"), t.get("msg")))
                if t.get("k") == "call":
                    d_, r_ = term_callee(t)
                    if re.search(r"ops::arith::(AddAssign|Add|MulAssign|Mul)(<[^>]*>)?>?::(add_assign|add|mul_assign|mul)$", (r_ or d_ or "")) and "usize" in (r_ or d_ or "") + str(t.get("f")):
                        bad_sum.append((k, t.get("ln"), "operator call " + (r_ or d_)))
        chk.expect(not bad_sum, "size-estimate:arbitrary_variant:weight-sum-does-not-trap",
                   f"arbitrary_variant adds its weights with an overflow-checked `+` ({bad_sum[:2]}): the weights are size estimates, and two fields of about 2^63 "
                   f"(63 nested `vec`s each) already overflow the running sum — `random::any` panics with overflow checks on",
                   where=f"rust/candid_parser/src/random.rs:{bad_sum[0][1] if bad_sum else ''}", ok_detail="saturating / checked sum")

    for rid, desc, f_ in (("C20.R1", "RandState::any panics for no reachable TypeInner variant; panic-capable constructs of random.rs are discharged", r1),
                          ("C20.R2", "configured values are parsed and pass annotate_type at the requested type before being returned", r2),
                          ("C20.R3", "generated values have the type's constructor, labels, field order, variant index and payload types", r3),
                          ("C20.R4", "depth/size budget bookkeeping; push_state/pop_state paired with the same element", r4),
                          ("C20.R5", "the size estimate of a type is computed without trapping arithmetic", r5),
                          ("C20.R6", "the leaf generator for principals cannot panic", r6),
                          ("C20.R7", "a configuration key that matches again on the path is recognised as a repetition", r7)):
        if only and only != rid:
            continue
        chk.run_rule(rid, desc, f_)
