"""C18 — the generated Rust binding defines types with the same Candid meaning (structural clauses)."""
import re

from facts import (AnchorMissing, callee, calls, expr_path, lit_value, nodes, pat_alternatives, pat_head, pat_variants, peel, short,
                   unblock, walk)
from shared import TI, Spec, arm_rows, the_match, variant_paths
from c18_util import (ancestors, bind_names, chain_pieces, contains, diverges, fmt_template, let_of, local_name, parent_map,
                      resolve_local, resolve_scoped, show, str_lits, value_leaves)

TITLE = ("C18: the primitive/constructor table of rust::pp_ty closes with the library's CandidType impls; every insert "
         "into the nominalised environment is collision-checked; the emitted field/variant identifier (or its serde "
         "rename) hashes to the source id under the derive's own label table; recursion points are boxed; the "
         "unreachable arms of pp_ty are exactly the constructors nominalisation removes.")

RS = r"candid_parser::bindings::rust::"
TENV = "candid::types::type_env::TypeEnv"
PRIMS = ["Null", "Bool", "Nat", "Int", "Nat8", "Nat16", "Nat32", "Nat64", "Int8", "Int16", "Int32", "Int64", "Float32",
         "Float64", "Text", "Reserved", "Empty", "Principal"]
# names the Rust language itself gives to a type: primitives are spelled as their own name, `String` is in the std prelude
PRELUDE = {"String": "alloc::string::String", "Option": "core::option::Option", "Vec": "alloc::vec::Vec",
           "Box": "alloc::boxed::Box", "Result": "core::result::Result"}
STD_FACADE = {"std": ("std", "core", "alloc"), "core": ("core",), "alloc": ("alloc",)}


def strip_generics(p):
    return re.sub(r"<.*$", "", p)


class LibImpls:
    """CandidType impls of crate `candid`: self type -> what `_ty()` builds"""

    def __init__(self, facts):
        c = facts.crate("candid")
        self.rows = {}
        for h in c.methods(r"^_ty$", r"CandidType$"):
            st = h["impl"]["self_ty"]
            body = unblock(h["body"])
            row = {"ctors": variant_paths(h["body"], TI), "key": h["key"], "labels": [], "transparent": None}
            # ordered (label literal, generic parameter whose ::ty() is the field type)
            for s in nodes(h["body"], "struct"):
                if short((s.get("res") or {}).get("path")) == "Field":
                    fl = dict(s.get("fields") or [])
                    labs = str_lits(fl.get("id"))
                    tys = [n.get("ga", [None])[0] for n in calls(fl.get("ty") or {}, r"CandidType::ty$")]
                    row["labels"].append((labs[0] if len(labs) == 1 else None, tys[0] if len(tys) == 1 else None))
            if body.get("k") == "call" and (callee(body) or "").endswith("CandidType::ty") and not row["ctors"]:
                row["transparent"] = (body.get("ga") or [None])[0]
            self.rows[st] = row
        if len(self.rows) < 40:
            raise AnchorMissing(f"only {len(self.rows)} CandidType::_ty impls found in crate candid (expected >= 40)")

    def resolve(self, emitted):
        """impl self types a piece of emitted Rust type text can denote (see chk.assume for the name-resolution model)"""
        segs = emitted.split("::")
        last = segs[-1]
        out = []
        for st in self.rows:
            base = strip_generics(st)
            if len(segs) == 1:
                if base == emitted or PRELUDE.get(emitted) == base:
                    out.append(st)
                elif emitted not in PRELUDE and "::" in base and base.rsplit("::", 1)[-1] == last \
                        and base.split("::")[0] in ("candid", "ic_principal"):
                    out.append(st)        # unqualified non-prelude name: imported from the candid crate by the templates
            else:
                if base.rsplit("::", 1)[-1] != last:
                    continue
                crate = segs[0]
                first = base.split("::")[0]
                if crate == "candid":
                    ok = first in ("candid", "ic_principal")
                else:
                    ok = first in STD_FACADE.get(crate, (crate,))
                if ok:
                    out.append(st)
        return out


def ti_heads(row):
    return [h[0][len(TI):] for h in row["heads"] if isinstance(h[0], str) and h[0].startswith(TI)]


def guard_ctor(guard):
    """`matches!(x.as_ref(), TypeInner::Y)` -> Y"""
    if not isinstance(guard, dict) or guard.get("k") != "match" or "matches" not in (guard.get("mac") or []):
        return None
    vs = [short(p) for a in guard["arms"] if lit_value(a["body"]) is True
          for p in [((a["pat"].get("res") or {}).get("path") or "")] if p.startswith(TI)]
    return vs[0] if len(vs) == 1 else None


def is_panic(e):
    e = unblock(e)
    return isinstance(e, dict) and any(m in ("unreachable", "unimplemented", "panic", "todo") for m in (e.get("mac") or []))


def cond_atoms(c, neg=False):
    """flatten a boolean condition over `&&` into [(atom, negated)]; `||` stays one atom"""
    c = unblock(c)
    if isinstance(c, dict) and c.get("k") == "bin" and c.get("op") == "And":
        return cond_atoms(c["a"], neg) + cond_atoms(c["b"], neg) if not neg else [(c, neg)]
    if isinstance(c, dict) and c.get("k") == "un" and c.get("op") == "Not":
        return cond_atoms(c["a"], not neg)
    return [(c, neg)]


def or_atoms(c):
    c = unblock(c)
    if isinstance(c, dict) and c.get("k") == "bin" and c.get("op") == "Or":
        return or_atoms(c["a"]) + or_atoms(c["b"])
    return [c]


def run(chk, facts, tier, only=None):
    cp = facts.crate("candid_parser")
    spec = Spec()

    def fn(name):
        h = cp.fn(RS + r"State::<'a>::%s$" % name)
        chk.analysed(h["key"])
        return h

    # ------------------------------------------------------------------------------------------------- R1
    def r1():
        lib = LibImpls(facts)
        chk.assume("C18.R1 name resolution: a primitive is spelled as itself; String/Option/Vec/Box/Result are the std "
                   "prelude items; `candid::X`/unqualified non-prelude X is the item named X exported by crate candid "
                   "(re-exports are not in the fact files: the impl whose self type's last path segment is X and that "
                   "lives in candid/ic_principal is taken, and must be unique); `k::…::X` is item X of crate k")
        h = fn("pp_ty")
        m = the_match(h, r"TypeInner$", 10)
        seen = {}
        nlit = 0
        for row in arm_rows(m):
            heads = ti_heads(row)
            body = unblock(row["body"])
            pieces = chain_pieces(body)
            if not (len(pieces) == 1 and pieces[0][0] == "lit"):
                continue
            text = pieces[0][1]
            want = None
            if len(heads) == 1:
                g = guard_ctor(row["guard"]) if row["guard"] is not None else None
                if row["guard"] is not None and g is None:
                    chk.bad(f"prim:{heads[0]}:guard", f"pp_ty: the arm for TypeInner::{heads[0]} emitting {text!r} has a guard "
                                                      f"that is not a `matches!(.., TypeInner::Y)` test: {show(row['guard'])[:120]}")
                    continue
                want = [heads[0]] + ([g] if g else [])
            if want is None:
                chk.bad(f"prim:{'|'.join(heads)}", f"pp_ty: one literal {text!r} is emitted for several constructors {heads}")
                continue
            nlit += 1
            name = "/".join(want)
            seen[name] = text
            cands = lib.resolve(text)
            if len(cands) != 1:
                chk.bad(f"prim:{name}", f"pp_ty emits {text!r} for {name}: {len(cands)} CandidType impls in crate candid match "
                                        f"that name ({cands}); cannot relate the emitted type to a library impl",
                        where=f"{h['span']['file']}:{row['ln']}")
                continue
            got = lib.rows[cands[0]]["ctors"]
            chk.expect(got == want, f"prim:{name}",
                       f"rust::pp_ty emits `{text}` for TypeInner::{name}, but `impl CandidType for {cands[0]}` has "
                       f"_ty() = {'('.join(got) + ')' * (len(got) - 1) if got else '?'}: the derived type of a generated "
                       f"field of this type is not the source type",
                       where=f"{h['span']['file']}:{row['ln']}", ok_detail=f"{name} -> {text} = {cands[0]} -> {got}")
        for X in PRIMS:
            if X not in seen:
                chk.bad(f"prim:{X}", f"pp_ty has no arm emitting a literal Rust type for the primitive TypeInner::{X}")
        chk.floor("pp_ty literal type arms", nlit, 19)
        # Opt / Vec: wrapper name around the recursive rendering of the payload
        for X, helper in (("Opt", "pp_opt"), ("Vec", "pp_vec")):
            rows = [r for r in arm_rows(m) if ti_heads(r) == [X] and r["guard"] is None]
            if len(rows) != 1:
                raise AnchorMissing(f"pp_ty: expected one unguarded arm for TypeInner::{X}, found {len(rows)}")
            body = unblock(rows[0]["body"])
            binder = bind_names(rows[0]["pat"])
            okcall = body.get("k") == "mcall" and body["m"] == helper and binder and local_name(body["args"][0]) == binder[0]
            hh = fn(helper)
            pieces = chain_pieces(hh["body"])
            lits = [p[1] for p in pieces if p[0] == "lit"]
            exprs = [p[1] for p in pieces if p[0] == "expr"]
            par0 = bind_names(hh["params"][1])[0] if len(hh["params"]) > 1 else None
            rec = (len(exprs) == 1 and exprs[0].get("k") == "mcall" and exprs[0]["m"] == "pp_ty"
                   and local_name(exprs[0]["args"][0]) == par0)
            wrapper = lits[0] if lits else None
            cands = lib.resolve(wrapper) if wrapper else []
            got = lib.rows[cands[0]]["ctors"] if len(cands) == 1 else None
            chk.expect(bool(okcall) and rec and lits[1:] == ["<", ">"] and got == [X], f"ctor:{X}",
                       f"pp_ty: TypeInner::{X}(t) must be rendered as W<pp_ty(t)> with `impl CandidType for W<T>` giving "
                       f"{X}(T::ty()); found helper call ok={bool(okcall)}, pieces={lits}, payload recursion={rec}, "
                       f"W={wrapper} -> {cands} -> {got}",
                       ok_detail=f"{X}(t) -> {wrapper}<pp_ty(t)>, {cands[0] if cands else None}::_ty = {got}")
        # result variants: label pair -> flag -> emitted name -> impl labels, in generic-parameter order
        ar = cp.fn(RS + r"as_result$")
        chk.analysed(ar["key"])
        table = {}
        for m2 in nodes(ar["body"], "match"):
            for a in m2["arms"]:
                p = a["pat"]
                if p.get("k") != "slice" or len(p.get("pre") or []) != 2 or p.get("mid") or p.get("post"):
                    continue
                idb, tyb = [], []
                for el in p["pre"]:
                    fl = dict(el.get("fields") or [])
                    idb.append((bind_names(fl.get("id")) or [None])[0])
                    tyb.append((bind_names(fl.get("ty")) or [None])[0])
                lab = {}
                for (atom, neg) in cond_atoms(a.get("guard")):
                    if neg or not isinstance(atom, dict) or atom.get("k") != "bin" or atom.get("op") != "Eq":
                        continue
                    for x, y in ((atom["a"], atom["b"]), (atom["b"], atom["a"])):
                        n = local_name(x)
                        named = [c for c in calls(y, r"Label::Named$")]
                        if n in idb and named and len(str_lits(y)) == 1:
                            lab[n] = str_lits(y)[0]
                leaves = [t for t in nodes(a["body"], "tup") if len(t["es"]) == 3]
                if len(leaves) != 1:
                    continue
                es = leaves[0]["es"]
                order = [local_name(es[0]), local_name(es[1])]
                flag = lit_value(es[2])
                if order == tyb and all(i in lab for i in idb) and isinstance(flag, bool):
                    table[flag] = (lab[idb[0]], lab[idb[1]])
        # as_result is a small pure function: evaluate it on every pair over a candidate label set (and on other lengths); the shape
        # above is only the fallback when it leaves the evaluable fragment
        try:
            from c11_util import Interp as _I, NotEvaluable as _NE
            _it = _I(cp)
            LBN = "candid::types::internal::Label::Named"
            cand_labels = ("Ok", "Err", "ok", "err", "OK", "x")
            accepted = {}
            for l0 in cand_labels:
                for l1 in cand_labels:
                    r_ = _it.call_fn(ar, [[("struct", {"id": ("enum", LBN, [l0]), "ty": "T0"}), ("struct", {"id": ("enum", LBN, [l1]), "ty": "T1"})]])
                    if r_ is not None:
                        accepted[(l0, l1)] = r_
            others = [n_ for n_ in (0, 1, 3) if _it.call_fn(ar, [[("struct", {"id": ("enum", LBN, ["Ok"]), "ty": "T"})] * n_]) is not None]
            want_acc = {("Ok", "Err"): ("Some", ("T0", "T1", False)), ("ok", "err"): ("Some", ("T0", "T1", True))}
            chk.expect(accepted == want_acc and not others, "result:as_result-accepts-exactly",
                       f"as_result must recognise exactly the label pairs (Ok, Err) -> Result and (ok, err) -> MotokoResult, in that order, with "
                       f"(ok type, err type); evaluated: accepts {sorted(accepted)} with results {sorted(set(accepted.values()), key=str)}, other lengths "
                       f"accepted: {others}. A mixed pair such as (Ok, err) would be emitted as a Result whose error tag has a different hash",
                       where=f"{ar['span']['file']}:{ar['span']['lo']}", ok_detail="evaluated on 36 label pairs and 3 other lengths")
            table = {False: ("Ok", "Err"), True: ("ok", "err")}
        except _NE:
            pass
        if set(table) != {True, False}:
            raise AnchorMissing(f"as_result: the two slice arms [Field{{id,ty}}, Field{{id,ty}}] if id == Named(lit) returning "
                                f"Some((t0, t1, flag)) were not found (got {table})")
        pv = fn("pp_variant")
        lets = [s for s in nodes(pv["body"], "slet") if s["pat"].get("k") == "tuple" and len(s["pat"]["subs"]) == 3
                and calls(s.get("init") or {}, r"rust::as_result$")]
        if len(lets) != 1:
            raise AnchorMissing("pp_variant: `let (ok, err, flag) = as_result(fs)…` not found")
        b_ok, b_err, b_flag = [(bind_names(s) or [None])[0] for s in lets[0]["pat"]["subs"]]
        names = {}
        for i in nodes(pv["body"], "if"):
            if local_name(i["c"]) == b_flag and i.get("e") is not None:
                t, e = str_lits(i["t"]), str_lits(i["e"])
                if len(t) == 1 and len(e) == 1:
                    names = {True: t[0], False: e[0]}
        if not names:
            raise AnchorMissing("pp_variant: `if <flag of as_result> { \"<type>\" } else { \"<type>\" }` not found")
        # generic arguments in emission order
        tail = pv["body"].get("e")
        argorder = []
        for kind, pc in [p for p in chain_pieces(tail) if p[0] == "expr"]:
            for leaf in resolve_local(pv["body"], pc):
                for kind2, pc2 in chain_pieces(leaf):
                    if kind2 != "expr":
                        continue
                    for leaf2 in resolve_local(pv["body"], pc2):
                        if leaf2.get("k") == "mcall" and leaf2["m"] == "pp_ty":
                            argorder.append(local_name(leaf2["args"][0]))
        for flag in (False, True):
            nm = names[flag]
            cands = lib.resolve(nm)
            row = lib.rows[cands[0]] if len(cands) == 1 else None
            params = re.findall(r"\b\w+\b", cands[0][len(strip_generics(cands[0])):]) if row else []
            bylab = {p: l for (l, p) in (row["labels"] if row else [])}
            got = tuple(bylab.get(p) for p in params)
            chk.expect(row is not None and row["ctors"][:1] == ["Variant"] and got == table[flag]
                       and argorder == [b_ok, b_err], f"result:{'/'.join(table[flag])}",
                       f"a variant {{{table[flag][0]}; {table[flag][1]}}} is emitted as `{nm}<A, B>` with A, B rendered from "
                       f"components {argorder} of as_result (expected {[b_ok, b_err]}); `impl CandidType for "
                       f"{cands}` labels its parameters {params} as {got}: the emitted alias does not denote the source variant",
                       ok_detail=f"{table[flag]} -> {nm} -> {cands[0] if cands else None} labels {got}")

    # ------------------------------------------------------------------------------------------------- R2
    def r2():
        # names generated for anonymous types come from the whole path text: apart from the case conversion (whose collisions are the open
        # finding below) no character of a label or method name may be discarded, or sibling types whose paths differ only in punctuation
        # or symbols (`"price.usd"` / `"price/usd"`) silently get one name
        pv = cp.fn("^" + re.escape(RS) + r"path_to_var$")
        chk.analysed(pv["key"])
        lossy = [x for x in walk(pv["body"]) if x.get("k") == "mcall" and x["m"] in ("filter", "filter_map", "retain", "replace", "replacen", "trim", "trim_matches",
                                                                                   "trim_start_matches", "trim_end_matches", "strip_prefix", "strip_suffix",
                                                                                   "take_while", "skip_while", "truncate", "split_off", "dedup")]
        chk.expect(not lossy, "path_to_var:no-character-discarded",
                   f"rust::path_to_var drops characters of the path (`.{lossy[0]['m'] if lossy else ''}(..)`) before the case conversion: anonymous types below "
                   f"`\"price.usd\"` and `\"price/usd\"`, or below two labels that differ only in symbols, get the same generated name and one replaces the other",
                   where=f"{pv['span']['file']}:{lossy[0].get('ln') if lossy else ''}", ok_detail="join + case conversion only")
        sites = []
        for h in cp.fns("^" + RS):        # the whole Rust binding module: a helper outside NominalState is still seen
            if h.get("kind") not in ("Fn", "AssocFn"):
                continue
            if "NominalState" in h["key"]:
                chk.analysed(h["key"])
            par = None
            for n in walk(h["body"]):
                if n.get("k") != "mcall":
                    continue
                cal = n.get("callee") or ""
                if not re.search(r"btree::map::BTreeMap::<.*>::(insert|entry|try_insert|extend|append)$", cal):
                    continue
                rv = unblock(n["recv"])
                while isinstance(rv, dict) and rv.get("k") in ("ref",) or (isinstance(rv, dict) and rv.get("k") == "un" and rv.get("op") == "Deref"):
                    rv = rv["e"] if rv.get("k") == "ref" else rv["a"]
                if not (isinstance(rv, dict) and rv.get("k") == "field" and rv.get("bty") == TENV):
                    continue
                if par is None:
                    par = parent_map(h["body"])
                sites.append((h, n, par))
        chk.floor("writes into a TypeEnv map in bindings::rust", len(sites), 5)
        for h, n, par in sites:
            fname = h["name"]
            anc = ancestors(n, par)
            # context: innermost enclosing arm of a match on TypeInner
            ctx = "loop" if any(a.get("k") == "loop" for a in anc) else "body"
            for a in anc:
                if a.get("k") == "match" and re.search(r"TypeInner$", a.get("sty", "")):
                    for arm in a["arms"]:
                        if contains(arm["body"], n):
                            hs = [short(x) for x in pat_variants(arm["pat"]) if (x or "").startswith(TI)]
                            ctx = "+".join(hs) or "_"
                    break
            mapname = "TypeEnv.0"
            recv_path = expr_path(n["recv"])
            if n["m"] != "insert":
                # entry()/try_insert() expose the occupied case to the caller; extend/append cannot
                pn = par.get(id(n)) or {}
                okm = n["m"] == "try_insert" and pn.get("k") != "semi" or \
                    (n["m"] == "entry" and pn.get("k") in ("match", "let") and (pn.get("scrut") is n or pn.get("init") is n))
                chk.expect(okm, f"{n['m']}:{fname}/{ctx}:{mapname}",
                           f"{h['key']}: `{show(pn if pn.get('k') == 'mcall' else n)[:80]}` writes into the nominalised environment "
                           f"without exposing the occupied case (entry().or_insert keeps the first, extend/append keep the last "
                           f"definition of an equal name silently)",
                           where=f"{h['span']['file']}:{n.get('ln')}")
                continue
            keyarg = n["args"][0]
            kname = local_name(keyarg)
            srcs = set()
            fresh = []
            leaves = resolve_scoped(par, peel(keyarg)) if kname else [peel(keyarg)]
            for leaf in leaves:
                lf = peel(leaf)
                ln_ = local_name(lf)
                if lf.get("k") == "call" and callee(lf):
                    srcs.add(short(callee(lf)))
                    fresh.append(callee(lf))
                elif ln_:
                    # bound by an enclosing `if let Some(x) = &<place>` or by the pattern of an enclosing for loop
                    src = None
                    for a in ancestors(lf, par):
                        if a.get("k") == "if":
                            for le in nodes(a["c"], "let"):
                                if ln_ in bind_names(le["pat"]) and src is None:
                                    p = expr_path(le["init"]) or ""
                                    src = ".".join(p.split(".")[-2:]) or None
                        if a.get("k") == "match" and a.get("src") == "Normal" and src is None and \
                                any(ln_ in bind_names(arm["pat"]) and contains(arm["body"], lf) for arm in a["arms"]):
                            p = expr_path(a["scrut"]) or ""
                            src = ".".join(p.split(".")[-2:]) or None
                        if a.get("k") == "match" and a.get("src") == "ForLoopDesugar" and src is None \
                                and (callee(a["scrut"]) or "").endswith("Iterator::next") \
                                and any(ln_ in bind_names(arm["pat"]) and contains(arm["body"], lf) for arm in a["arms"]):
                            # what is iterated: the into_iter() operand of the enclosing desugared `for`
                            outer = [o for o in ancestors(a, par) if o.get("k") == "match" and o.get("src") == "ForLoopDesugar"]
                            it = expr_path(outer[0]["scrut"]["args"][0]["recv"]) if outer and outer[0]["scrut"].get("args") \
                                and outer[0]["scrut"]["args"][0].get("k") == "mcall" else None
                            src = "keys-of:" + ".".join((it or "?").split(".")[-2:])
                    srcs.add(src or "?")
                    fresh.append(None)
                else:
                    srcs.add("?")
                    fresh.append(None)
            # the key names the call site (function / enclosing arm / map); where the inserted name comes from is reported in the text
            # only — it changes when the naming code is moved into a helper, the finding does not
            key = f"insert:{fname}/{ctx}:{mapname}"
            key_src = '+'.join(sorted(srcs))
            # (1) is the returned Option inspected?
            p = par.get(id(n))
            inspected = True
            if p is None or p.get("k") == "semi":
                inspected = False
            elif p.get("k") == "slet":
                names = bind_names(p["pat"])
                inspected = bool(names) and any(local_name(x) in names for x in walk(h["body"])
                                                if x.get("k") == "path" and x is not n)
            elif p.get("k") == "call" and re.search(r"mem::(drop|forget)$", callee(p) or ""):
                inspected = False
            elif p.get("k") == "block" and p.get("e") is n:
                gp = par.get(id(p))
                inspected = not (gp is None or gp.get("k") in ("semi",))
            # (2) is the key tested on the same map first?
            tested = False

            def tests_key(node):
                for x in walk(node):
                    if x.get("k") == "mcall" and x["m"] in ("contains_key", "get", "get_mut", "get_key_value") \
                            and expr_path(x["recv"]) == recv_path and x.get("args") and kname \
                            and local_name(x["args"][0]) == kname:
                        return True
                return False

            child = n
            for a in anc:
                if a.get("k") == "if" and not contains(a["c"], n) and tests_key(a["c"]):
                    tested = True
                if a.get("k") == "block":
                    for st in a.get("stmts") or []:
                        if contains(st, n):
                            break
                        s = st["e"] if st.get("k") == "semi" else st
                        if s.get("k") == "if" and tests_key(s["c"]) and diverges(s["t"]):
                            tested = True
                        if s.get("k") == "loop" and tests_key(s):
                            tested = True       # `while map.contains_key(&name) { name = … }` before the insert
                child = a
            # (3) every name source is a helper that loops until the name is free
            def is_fresh_helper(path):
                if not path:
                    return False
                try:
                    g = cp.fn("^" + re.escape(path) + "$")
                except AnchorMissing:
                    return False
                for lp in nodes(g["body"], "loop"):
                    if any(x.get("k") == "mcall" and x["m"] in ("contains_key", "get") for x in walk(lp)):
                        return True
                return False

            helper = bool(fresh) and all(is_fresh_helper(x) for x in fresh)
            chk.expect(inspected or tested or helper, key,
                       f"{h['key']}: `{show(n)[:80]}` adds a type name to the nominalised environment; the Option returned by "
                       f"BTreeMap::insert is discarded, no contains_key/get test on `{recv_path}` with the same key precedes it "
                       f"and the name ({' or '.join(sorted(srcs))}) is not produced by a helper that probes the map: two "
                       f"distinct source types whose names coincide collapse into one Rust item (the later definition "
                       f"silently replaces the earlier)",
                       where=f"{h['span']['file']}:{n.get('ln')}",
                       ok_detail="returned Option inspected" if inspected else ("key tested first" if tested else "fresh-name helper"))

    # ------------------------------------------------------------------------------------------------- R3
    def derive_label_table():
        d = facts.crate("candid_derive")
        out = {}
        for fname, anchor in (("fields_from_ast", "field"), ("enum_from_ast", "variant")):
            h = d.fn(r"candid_derive::derive::%s$" % fname)
            chk.analysed(h["key"])
            ms = [m for m in nodes(h["body"], "match") if m.get("src") == "Normal"
                  and re.search(r"Option<alloc::string::String>$", m.get("sty", "")) and (expr_path(m["scrut"]) or "").endswith(".rename")]
            if len(ms) != 1:
                raise AnchorMissing(f"candid_derive::{fname}: the `match attrs.rename` deciding the label was not found ({len(ms)})")
            row = {}
            for a in ms[0]["arms"]:
                hd = short(pat_head(a["pat"]))
                hashes = calls(a["body"], r"idl_hash$")
                if len(hashes) != 1:
                    raise AnchorMissing(f"candid_derive::{fname}: arm {hd} of `match attrs.rename` has {len(hashes)} idl_hash calls")
                arg = hashes[0]["args"][0]
                if hd == "Some":
                    b = bind_names(a["pat"])
                    row["rename"] = bool(b) and local_name(arg) == b[0]
                else:
                    leaves = resolve_local(a["body"], peel(arg))
                    row["unraw"] = any(x.get("k") == "mcall" and x["m"] == "unraw" for lf in leaves for x in walk(lf)) or \
                        any(x.get("k") == "mcall" and x["m"] == "unraw" for x in walk(arg))
            out[anchor] = row
            if fname == "fields_from_ast":
                om = [m for m in nodes(h["body"], "match") if contains(m, ms[0]) and m is not ms[0]
                      and re.search(r"Option<proc_macro2::Ident>$", m.get("sty", ""))]
                if len(om) != 1:
                    raise AnchorMissing("candid_derive::fields_from_ast: `match field.ident` around `match attrs.rename` not found")
                none = [a for a in om[0]["arms"] if short(pat_head(a["pat"])) == "None"]
                out["named-only-hash"] = all(not calls(a["body"], r"idl_hash$") for a in none) and len(none) == 1
        # the attribute the derive reads
        g = d.fn(r"candid_derive::derive::get_attrs$")
        lits = set(str_lits(g["body"]))
        out["reads"] = {"serde" in set(str_lits(d.fn(r"candid_derive::derive::get_serde_meta_items$")["body"])), "rename" in lits}
        return out

    def r3():
        dt = derive_label_table()
        okd = (dt["field"].get("rename") and dt["field"].get("unraw") and dt["variant"].get("rename") and dt["variant"].get("unraw")
               and dt["named-only-hash"] and dt["reads"] == {True})
        if not okd:
            raise AnchorMissing(f"candid_derive label table is not `named field/variant -> idl_hash(serde rename | unraw ident), "
                                f"unnamed field -> position`: {dt}; C18.R3 was written against that table")
        chk.ok("derive:label-table", "named field/variant id = idl_hash(#[serde(rename)] if present else ident.unraw()); "
                                     "unnamed field id = position; no attribute states a numeric id")
        h = fn("pp_label")
        m = the_match(h, r"Label$", 2)
        LB = "candid::types::internal::Label::"
        named = [a for a in m["arms"] if [short(x) for x in pat_variants(a["pat"])] == ["Named"]]
        numeric = [a for a in m["arms"] if set(short(x) for x in pat_variants(a["pat"])) & {"Id", "Unnamed"}]
        if len(named) != 1 or len(numeric) != 1:
            raise AnchorMissing(f"pp_label: expected one arm for Label::Named and one for Label::Id|Unnamed, found {len(named)}/{len(numeric)}")
        arm = named[0]
        lab = (bind_names(arm["pat"]) or [None])[0]
        body = arm["body"]
        # (a) (doc, flag) are the two components of one to_identifier_case(label, _) result (or (configured name, true))
        tl = [s for s in nodes(body, "slet") if s["pat"].get("k") == "tuple" and len(s["pat"]["subs"]) == 2 and s.get("init")]
        pair = None
        for s in tl:
            leaves = resolve_local(body, s["init"])
            kinds = []
            for lf in leaves:
                lf = unblock(lf)
                if lf.get("k") == "call" and (callee(lf) or "").endswith("identifier::to_identifier_case"):
                    kinds.append("conv" if local_name(lf["args"][0]) == lab else "conv-of-other")
                elif lf.get("k") == "tup" and len(lf["es"]) == 2:
                    kinds.append("const-true" if lit_value(lf["es"][1]) is True else "const-other")
                else:
                    kinds.append("other")
            if "conv" in kinds:
                pair = (s, kinds)
        if pair is None:
            raise AnchorMissing("pp_label (Named arm): `let (doc, flag) = … to_identifier_case(<label>, _) …` not found")
        s, kinds = pair
        b_doc, b_flag = [(bind_names(x) or [None])[0] for x in s["pat"]["subs"]]
        chk.expect(set(kinds) <= {"conv", "const-true"}, "label:named:ident-and-flag-same-source",
                   f"pp_label: the emitted identifier and the rename flag must be the two components of one "
                   f"to_identifier_case(<the label>, _) call (or a configured name with flag true); found {kinds}",
                   ok_detail=f"(doc, flag) <- {kinds}")
        # (b) rename emitted exactly on the flag
        ifs = [i for i in nodes(body, "if") if any("rename" in x for x in str_lits(i["t"])) or
               (i.get("e") and any("rename" in x for x in str_lits(i["e"])))]
        ren = None
        for i in ifs:
            atoms = cond_atoms(i["c"])
            if len(atoms) == 1 and local_name(atoms[0][0]) == b_flag:
                ren = (i, atoms[0][1])
        found = chk.expect(ren is not None, "label:named:rename-on-flag",
                          f"pp_label (Named arm): no `if <flag returned by to_identifier_case> {{ …#[serde(rename=…)]… }}` — a label "
                          f"whose Rust identifier differs from it (case conversion, keyword, `_hash_` form) is emitted without "
                          f"rename and the derive hashes the converted identifier instead of the source label",
                          ok_detail=f"`if {b_flag}` guards the rename attribute")
        if found:
            i, neg = ren
            yes, no = (i["e"], i["t"]) if neg else (i["t"], i.get("e"))
            chk.expect(not any("rename" in x for x in str_lits(no or {})), "label:named:no-rename-when-unmodified",
                       "pp_label: the branch taken when the flag is false also emits a rename attribute")
            pieces = chain_pieces(yes)
            idx = [k for k, p in enumerate(pieces) if p[0] == "lit" and "rename" in p[1]]
            okshape = len(idx) == 1 and re.search(r"#\[serde\(rename\s*=\s*\"$", pieces[idx[0]][1]) is not None \
                and len(pieces) > idx[0] + 2 and pieces[idx[0] + 1][0] == "expr" and pieces[idx[0] + 2][0] == "lit" \
                and pieces[idx[0] + 2][1].startswith("\")]")
            src = None
            esc = False
            if okshape:
                e = unblock(pieces[idx[0] + 1][1])
                parl = parent_map(h["body"])
                for _ in range(6):
                    while isinstance(e, dict) and e.get("k") == "mcall" and e["m"] in ("to_string", "collect", "to_owned", "into", "clone"):
                        e = unblock(e["recv"])
                    if isinstance(e, dict) and e.get("k") == "path" and (e.get("res") or {}).get("kind") == "Local" \
                            and e["res"]["path"] != lab:
                        ls = resolve_scoped(parl, e)
                        if len(ls) == 1 and ls[0] is not e:
                            e = unblock(ls[0])
                            continue
                    break
                if isinstance(e, dict) and e.get("k") == "mcall" and e["m"] == "escape_debug":
                    esc = True
                    r = unblock(e["recv"])
                    while isinstance(r, dict) and (r.get("k") == "ref" or (r.get("k") == "un" and r.get("op") == "Deref")
                                                   or (r.get("k") == "mcall" and r["m"] in ("as_str", "as_ref", "deref"))):
                        r = unblock(r.get("e") or r.get("a") or r.get("recv"))
                    if isinstance(r, dict) and r.get("k") == "path" and (r.get("res") or {}).get("kind") == "Local":
                        src = r["res"]["path"]
            chk.expect(okshape and esc and src == lab, "label:named:rename-text-is-original-label",
                       f"pp_label: the rename attribute must be `#[serde(rename=\"` + <label>.escape_debug() + `\")]` with <label> the "
                       f"string bound by Label::Named (`{lab}`); found pieces "
                       f"{[p[1] if p[0] == 'lit' else show(p[1])[:60] for p in pieces]} (escaped={esc}, source={src}): the derive hashes "
                       f"the rename text, so any other text changes the field id",
                       ok_detail=f"rename text = {lab}.escape_debug()")
            # (c) the arm's value places the attribute before the identifier bound with the flag
            tailp = []
            for kind, pc in chain_pieces(body.get("e") if body.get("k") == "block" else body):
                tailp.append(local_name(pc) if kind == "expr" else None)
            attr_binders = [(bind_names(st["pat"]) or [None])[0] for st in nodes(body, "slet") if unblock(st.get("init") or {}) is i]
            chk.expect(b_doc in tailp and attr_binders and attr_binders[0] in tailp and tailp.index(attr_binders[0]) < tailp.index(b_doc),
                       "label:named:attribute-precedes-identifier",
                       f"pp_label: the arm must emit <attributes incl. rename> then the identifier `{b_doc}`; emitted locals {tailp}")
        # (d) to_identifier_case: the flag is false only when the emitted identifier unraws to the input
        t = cp.fn(RS + r"identifier::to_identifier_case$")
        chk.analysed(t["key"])
        p_id = (bind_names(t["params"][0]) or [None])[0]
        rets = [x for x in value_leaves(t["body"]) if x.get("k") == "tup" and len(x["es"]) == 2]
        chk.floor("to_identifier_case result tuples", len(rets), 2)
        if len(rets) != len(value_leaves(t["body"])):
            chk.bad("ident:result-shape", f"to_identifier_case: a result is not a literal (doc, flag) tuple: "
                                          f"{[show(x)[:60] for x in value_leaves(t['body']) if x not in rets]}")
        for k, rt in enumerate(rets):
            doc, flag = rt["es"]
            fcs = calls(doc, r"alloc::fmt::format$")
            tm = None
            if fcs:
                tm = fmt_template(fcs[0])
                if tm is None:
                    raise AnchorMissing("to_identifier_case: a format! template could not be decoded from the facts")
            else:
                a = calls(doc, r"RcDoc::<.*>::text$|::text$")
                if a and local_name(a[0]["args"][0]):
                    tm = [("arg", peel(a[0]["args"][0]))]
            if tm is None:
                chk.bad(f"ident:return#{k}", f"to_identifier_case: result document {show(doc)[:80]} is not text(<local>) or text(format!(..))")
                continue
            shape = "".join(p[1] if p[0] == "lit" else "{" + (local_name(p[1]) or "?") + "}" for p in tm)
            hashed = any(p[0] == "arg" and calls(p[1], r"idl_hash$") for p in tm)
            shape_key = re.sub(r"\{[^}]*\}", "{}", shape) if not hashed else "_{hash}_"
            if lit_value(flag) is True:
                chk.ok(f"ident:flag:{shape_key}", "flag is the constant true: always renamed to the original label")
                continue
            fl = local_name(flag)
            inits = [s_ for s_ in let_of(t["body"], fl)] if fl else []
            okflag = False
            proc = None
            if len(inits) == 1:
                ini = unblock(inits[0]["init"])
                if ini.get("k") == "bin" and ini.get("op") == "Ne":
                    sides = {local_name(ini["a"]), local_name(ini["b"])}
                    if p_id in sides and len(sides) == 2:
                        proc = (sides - {p_id}).pop()
                        okflag = True
            args = [local_name(p[1]) for p in tm if p[0] == "arg"]
            lits = [p[1] for p in tm if p[0] == "lit"]
            okdoc = okflag and args == [proc] and (lits == [] or (lits == ["r#"] and tm[0] == ("lit", "r#")))
            chk.expect(okdoc, f"ident:flag:{shape_key}",
                       f"to_identifier_case returns ({shape!r}, {show(flag)}): a non-constant flag must be `<processed> != {p_id}` "
                       f"and the emitted identifier must be <processed> or r#<processed> (the derive hashes ident.unraw()); "
                       f"otherwise a field is emitted without rename although its identifier does not hash to the label",
                       ok_detail=f"{shape} with flag {proc} != {p_id}")
        # (e) numeric labels
        arm = numeric[0]
        nb = (bind_names(arm["pat"]) or [None])[0]
        pieces = chain_pieces(arm["body"])
        tmpl = []
        for kind, pc in pieces:
            if kind == "lit":
                tmpl.append(pc)
            else:
                cs = [x for x in walk(pc) if x.get("k") == "call" and (callee(x) or "").endswith("::as_string")
                      and x.get("args") and local_name(x["args"][0]) == nb]
                if cs or local_name(pc) == nb:
                    tmpl.append(None)          # the number
                elif pc.get("k") == "path" or local_name(pc):
                    continue                   # visibility / attribute documents computed before the match
                else:
                    tmpl.append(("?", show(pc)[:40]))
        sample = [0, 1, 2, 7, 2 ** 32 - 1]

        def render(n):
            return "".join(str(n) if x is None else (x if isinstance(x, str) else "?") for x in tmpl)
        text1 = render(1)
        mren = re.search(r"rename\s*=\s*\"([^\"]*)\"", text1)
        bad = []
        for n in sample:
            tx = render(n)
            mm = re.search(r"rename\s*=\s*\"([^\"]*)\"", tx)
            name = mm.group(1) if mm else re.sub(r"^.*\]\s*", "", tx).replace("r#", "")
            if spec.hash(name) != n:
                bad.append((n, name, spec.hash(name)))
        # where the arm is used: named-field / variant positions
        users = []
        for uname in ("pp_record_field", "pp_variant_field"):
            u = fn(uname)
            if any(x.get("k") == "mcall" and x["m"] == "pp_label" for x in walk(u["body"])):
                users.append(uname)
        if not users:
            raise AnchorMissing("pp_label is no longer called from pp_record_field / pp_variant_field")
        n0 = bad[0] if bad else None
        chk.expect(not bad, "label:numeric:derived-id",
                   f"pp_label (Label::Id|Unnamed arm, used by {users} for non-tuple records and for variants) emits the named "
                   f"field/variant `{render('n')}`{' with a rename' if mren else ' without any attribute'}; the derive gives a "
                   f"named field the id idl_hash(name), so label {n0 and n0[0]} becomes id hash({n0 and n0[1]!r}) = {n0 and n0[2]} "
                   f"(e.g. `record {{ 1 : text; 2 : text }}` is emitted as `struct {{ _1_: String, _2_: String }}` whose Candid "
                   f"type has the field ids {spec.hash('_1_')}, {spec.hash('_2_')} instead of 1, 2)",
                   where=f"{h['span']['file']}:{arm.get('ln')}",
                   ok_detail="emitted identifier hashes back to the numeric id")

    # ------------------------------------------------------------------------------------------------- R4
    def recs_decide_alone(crate_fns, label):
        """where a definition is printed (pp_defs) or the actor returned (pp_actor), membership in the set of recursive definitions alone selects
        the cycle-breaking form (newtype struct / IDL.Rec): exempting some members — aliases `type A = B`, say — leaves a cycle made of exempted
        members unbroken (a cyclic `type` alias in Rust, a `const` read before its declaration in JavaScript)"""
        n = 0
        for g in crate_fns:
            for i_ in nodes(g["body"], "if"):
                cnd = i_["c"]
                if not any(x.get("k") == "mcall" and x["m"] == "contains" and (expr_path(x["recv"]) or "").split(".")[-1] == "recs" for x in walk(cnd)):
                    continue
                n += 1
                atoms = cond_atoms(cnd)
                chk.expect(len(atoms) == 1, f"recs-membership-decides-alone:{label}:{g['key'].rsplit('::', 1)[-1]}",
                           f"{g['key']}: the test `recs.contains(id)` that selects the cycle-breaking form is combined with another condition (line {i_.get('ln')}): "
                           f"a recursive definition that fails the other condition is printed in the plain form, and a cycle consisting of such definitions "
                           f"(`type A = B; type B = opt A` entered at A) is not broken", where=f"{g['span']['file']}:{i_.get('ln')}",
                           ok_detail="recs.contains(id) is the whole condition")
            for x in walk(g["body"]):
                if x.get("k") == "mcall" and x["m"] == "filter" and any((expr_path(y["recv"]) or "").split(".")[-1] == "recs" for y in walk(x["recv"]) if y.get("k") == "mcall"):
                    chk.bad(f"recs-membership-decides-alone:{label}:{g['key'].rsplit('::', 1)[-1]}:filter",
                            f"{g['key']}: the set of recursive definitions is filtered before the forward declarations are printed (line {x.get('ln')})",
                            where=f"{g['span']['file']}:{x.get('ln')}")
        return n

    def r4():
        n_rec = recs_decide_alone([cp.fn("^" + re.escape(RS) + r"State::<'_>::pp_defs$")] if cp.fns("^" + re.escape(RS) + r"State::<'_>::pp_defs$") else [fn("pp_defs")], "rust")
        chk.floor("recs.contains tests in rust::pp_defs", n_rec, 1)
        h = fn("pp_var")
        p_id = (bind_names(h["params"][1]) or [None])[0]
        p_ref = (bind_names(h["params"][2]) or [None])[0] if len(h["params"]) > 2 else None
        ifs = [i for i in nodes(h["body"], "if") if i.get("e") is not None and
               (any("Box<" in x for x in str_lits(i["t"])) != any("Box<" in x for x in str_lits(i["e"])))]
        if len(ifs) != 1:
            raise AnchorMissing(f"pp_var: expected one if/else of which exactly one branch emits `Box<`, found {len(ifs)}")
        i = ifs[0]
        box_in_then = any("Box<" in x for x in str_lits(i["t"]))
        atoms = cond_atoms(i["c"])
        rec_atoms = [(a, neg) for a, neg in atoms if a.get("k") == "mcall" and a["m"] == "contains"
                     and (expr_path(a["recv"]) or "").endswith(".recs") and local_name(a["args"][0]) == p_id]
        other = [(a, neg) for a, neg in atoms if (a, neg) not in rec_atoms]
        okother = all(local_name(a) == p_ref and neg for a, neg in other)
        chk.expect(len(rec_atoms) == 1 and rec_atoms[0][1] is False and box_in_then and okother, "box:on-recursion-point",
                   f"pp_var: `Box<..>` must be emitted exactly when `self.recs.contains({p_id})` (and the use is not a reference "
                   f"position `{p_ref}`); condition is `{show(i['c'])}`, Box in then-branch: {box_in_then}",
                   ok_detail=f"Box<> iff !{p_ref} && recs.contains({p_id})")
        bp = chain_pieces(i["t"] if box_in_then else i["e"])
        pp = chain_pieces(i["e"] if box_in_then else i["t"])
        inner = [local_name(x[1]) for x in bp if x[0] == "expr"]
        plain = [local_name(x[1]) for x in pp if x[0] == "expr"]
        chk.expect([x[1] for x in bp if x[0] == "lit"] == ["Box<", ">"] and inner == plain and len(inner) == 1 and inner[0],
                   "box:same-name-inside", f"pp_var: both branches must render the same name, the boxed one as Box<name>; "
                                           f"found boxed pieces {[x[1] if x[0] == 'lit' else show(x[1]) for x in bp]}, plain {plain}")
        # Box<T> is transparent for the Candid type
        lib = LibImpls(facts)
        cands = lib.resolve("Box")
        chk.expect(len(cands) == 1 and lib.rows[cands[0]]["transparent"] == "T", "box:transparent",
                   f"`impl CandidType for Box<T>` must have _ty() = T::ty(); found {cands} -> "
                   f"{[lib.rows[c_] for c_ in cands]}")
        # recs comes from infer_rec over the nominalised environment and the same definition list that is printed
        e = cp.fn(RS + r"emit_bindgen$")
        chk.analysed(e["key"])
        body = e["body"]
        nom = [s for s in nodes(body, "slet") if s["pat"].get("k") == "tuple" and s.get("init")
               and any(x.get("k") == "mcall" and x["m"] == "nominalize_all" for x in walk(s["init"]))]
        if len(nom) != 1:
            raise AnchorMissing("emit_bindgen: `let (env, actor) = state.nominalize_all(..)` not found")
        b_env = (bind_names(nom[0]["pat"]["subs"][0]) or [None])[0]
        sts = [x for x in nodes(body, "struct") if (x.get("res") or {}).get("path", "").endswith("bindings::rust::State")]
        if len(sts) != 1:
            raise AnchorMissing("emit_bindgen: the State { .. } literal was not found")
        fl = dict(sts[0]["fields"])
        rec_leaves = resolve_local(body, fl.get("recs"))
        ir = [x for lf in rec_leaves for x in calls(lf, r"analysis::infer_rec$")]
        st_new = [x for x in calls(fl.get("state") or {}, r"configs::State::<.*>::new$")]
        pd = [x for x in walk(body) if x.get("k") == "mcall" and x["m"] == "pp_defs"]
        okrec = (len(ir) == 1 and local_name(ir[0]["args"][0]) == b_env and len(st_new) == 1
                 and local_name(st_new[0]["args"][1]) == b_env and len(pd) == 1
                 and local_name(pd[0]["args"][0]) == local_name(ir[0]["args"][1]) and local_name(pd[0]["args"][0]))
        chk.expect(bool(okrec), "box:recs-provenance",
                   f"emit_bindgen: State.recs must be infer_rec(<nominalised env>, <def_list>) with the same env given to "
                   f"configs::State::new and the same def_list given to pp_defs; found infer_rec args "
                   f"{[show(a) for x in ir for a in x['args']]}, State::new args {[show(a) for x in st_new for a in x['args']]}, "
                   f"pp_defs args {[show(a) for x in pd for a in x['args']]}",
                   ok_detail=f"recs = infer_rec(&{b_env}, &def_list); pp_defs(&def_list)")

        # after nominalisation only the nominalised environment may be consulted: the definition list, the recursion set and the printers
        # must all see the generated names (a list taken from the original environment misses every definition nominalisation created)
        seen_nom = False
        stale = []
        for x in walk(body):
            if x is nom[0]:
                seen_nom = True
                continue
            if seen_nom and x.get("k") == "path" and (x.get("res") or {}).get("kind") == "Local" and "TypeEnv" in (x.get("ty") or "") \
                    and not any(y is x for y in walk(nom[0])) and x["res"]["path"] != b_env:
                stale.append(x)
        chk.expect(not stale, "nominalised-env:only-env-after-nominalize_all",
                   f"emit_bindgen reads the environment `{stale[0]['res']['path'] if stale else ''}` after nominalize_all produced `{b_env}`: type names "
                   f"created by nominalisation exist only in `{b_env}`, so definitions listed or looked up in the other environment are missing from "
                   f"the output (a referenced type is never defined)", where=f"{e['span']['file']}:{stale[0].get('ln')}" if stale else None,
                   ok_detail=f"every TypeEnv read after nominalize_all is `{b_env}`")

    def func_modes():
        # a function *type* is printed with all its annotations (query / composite_query / oneway): they are part of the Candid type
        h = fn("pp_ty_func")
        from shared import with_local_callees
        ok, why = False, "no source of the annotations found"
        FM = "candid::types::internal::FuncMode::"
        KW = {"Oneway": "oneway", "Query": "query", "CompositeQuery": "composite_query"}
        for g, via in with_local_callees(cp, h):
            for x in walk(g["body"]):
                if x.get("k") == "call" and (callee(x) or "").endswith("pretty::candid::pp_modes") and (expr_path(x["args"][0]) or "").endswith(".modes"):
                    ok, why = True, "candid::pretty::candid::pp_modes(&f.modes)"
            for m in nodes(g["body"], "match"):
                vs = {v[len(FM):]: a for a in m["arms"] for v in pat_variants(a["pat"]) if (v or "").startswith(FM)}
                if vs:
                    wrong = {k: str_lits(a["body"]) for k, a in vs.items() if KW.get(k) not in str_lits(a["body"])}
                    if set(vs) >= set(KW) and not wrong:
                        ok, why = True, "match over FuncMode printing each annotation's own keyword"
                    elif not ok:
                        why = f"a match over FuncMode prints {wrong} (missing variants: {sorted(set(KW) - set(vs))})"
        chk.expect(ok, "pp_ty_func:all-annotations",
                   f"pp_ty_func must print every annotation of the function type (query, composite_query, oneway): {why}. A dropped `oneway` "
                   f"turns `func (text) -> () oneway` into a different Candid type",
                   where=f"{h['span']['file']}:{h['span']['lo']}", ok_detail=why)

    # ------------------------------------------------------------------------------------------------- R5
    def r5():
        func_modes()
        h = fn("pp_ty")
        m = the_match(h, r"TypeInner$", 10)
        dead = set()
        live = set()
        for row in arm_rows(m):
            for X in ti_heads(row):
                (dead if is_panic(row["body"]) else live).add(X)
        want = {"Func", "Service", "Class", "Knot", "Unknown", "Future"}
        allv = set(facts.crate("candid").enum_variants(r"types::internal::TypeInner$"))
        chk.expect(dead - live == want, "pp_ty:unreachable-set",
                   f"pp_ty panics exactly for {sorted(dead - live)}; after nominalisation only {sorted(want)} may be impossible",
                   ok_detail=f"unreachable arms: {sorted(dead)}")
        chk.expect(live | dead == allv and not any(r["heads"] == [("_",)] for r in arm_rows(m)), "pp_ty:exhaustive-without-wildcard",
                   f"pp_ty must name every TypeInner variant (no catch-all): missing {sorted(allv - live - dead)}")
        chk.assume("C18.R5: Class occurs only as the actor type (never passed to pp_ty: pp_actor traces it), Knot/Unknown/Future "
                   "do not occur in a checked TypeEnv (C14)")
        nz = cp.fn(RS + r"NominalState::<.*>::nominalize$")
        chk.analysed(nz["key"])
        nm = the_match(nz, r"TypeInner$", 5)
        TP = "candid_parser::bindings::rust::TypePath::"

        def is_path_last(e):
            e = unblock(e)
            return isinstance(e, dict) and e.get("k") == "mcall" and e["m"] == "last" and local_name(e["recv"]) is not None \
                and "TypePath" in (e.get("recv_ty") or e.get("ty") or "")

        def root_heads(pat):
            out = set()
            for alt in pat_alternatives(pat):
                hd = pat_head(alt)
                if isinstance(hd, str) and hd.endswith("Option::None"):
                    out.add("None")
                elif isinstance(hd, str) and hd.endswith("Option::Some"):
                    inner = [short(x) for x in pat_variants(alt) if (x or "").startswith(TP)]
                    out.add("Some(" + "|".join(inner) + ")" if inner else "Some(_)")
                else:
                    out.add(str(hd))
            return out

        def makes_var(e):
            ls = value_leaves(e)
            return bool(ls) and all(l.get("k") == "call" and (callee(l) or "") == TI + "Var" for l in ls)

        # `path.last() == Some(TypePath::Id(_))` is how nominalize recognises "the body of a definition / a method of a service": the one
        # place where a composite type may stay inline.  So TypePath::Id may only be created as the root of a fresh path (a definition) or
        # for a method of a service; pushed anywhere else (an init argument, a field) it stops the type below from being given a name,
        # and pp_ty then meets a constructor it declares unreachable.
        ALLOWED_ID_SITES = {("nominalize", "Record", "root"), ("nominalize", "Variant", "root"), ("nominalize", "Func", "root"),
                            ("nominalize", "Service", "root"), ("nominalize", "Service", "push"), ("nominalize_all", "-", "root")}
        n_id = 0
        for g in cp.fns(RS):
            if g.get("body") is None:
                continue
            par = None
            for x in walk(g["body"]):
                if x.get("k") == "call" and (callee(x) or "") == TP + "Id":
                    par = par or parent_map(g["body"])
                    n_id += 1
                    how, arm = "other", "-"
                    for a in ancestors(x, par):
                        if how == "other" and a.get("k") == "mcall" and a["m"] == "push":
                            how = "push"
                        if how == "other" and (a.get("k") == "array" or (a.get("k") == "call" and re.search(r"(into_vec|box_new|Box::.*new|vec::from_elem)", callee(a) or ""))):
                            how = "root"
                        if a.get("k") == "match" and re.search(r"TypeInner$", a.get("sty", "")):
                            for am in a["arms"]:
                                if contains(am["body"], x):
                                    hs = [short(v) for v in pat_variants(am["pat"]) if (v or "").startswith(TI)]
                                    arm = hs[0] if hs else "_"
                            break
                    site = (g["name"], arm, how)
                    chk.expect(site in ALLOWED_ID_SITES, f"typepath-id:{site[0]}/{site[1]}/{site[2]}",
                               f"{g['key']}: TypePath::Id is created at {site} — outside the reviewed places (root of a definition's path, method of a "
                               f"service). nominalize keeps a composite type inline when the path ends in Id, so the type below this site is not "
                               f"given a name and reaches pp_ty, which panics for Func/Service and for variants that are not results",
                               where=f"{g['span']['file']}:{x.get('ln')}", ok_detail="reviewed site")
        chk.floor("constructions of TypePath::Id", n_id, 6)
        for X in ("Func", "Service"):
            rows = [r for r in arm_rows(nm) if ti_heads(r) == [X]]
            if len(rows) != 1:
                raise AnchorMissing(f"nominalize: expected one arm for TypeInner::{X}")
            inner = [mm for mm in nodes(rows[0]["body"], "match") if mm.get("src") == "Normal" and is_path_last(mm["scrut"])]
            if not inner:
                raise AnchorMissing(f"nominalize ({X} arm): `match path.last()` not found")
            mm = inner[0]
            kept, rewritten = set(), []
            okall = True
            for a in mm["arms"]:
                hs = root_heads(a["pat"])
                if makes_var(a["body"]):
                    rewritten.append(sorted(hs))
                else:
                    kept |= hs
                    # a kept arm must rebuild the same constructor
                    if not any(p == X for p in variant_paths(a["body"], TI)):
                        okall = False
            chk.expect(kept == {"None", "Some(Id)"} and rewritten and okall, f"nominalize:{X}:only-root-kept",
                       f"nominalize keeps a TypeInner::{X} in place for path.last() in {sorted(kept)} (must be exactly the root "
                       f"positions None / Some(TypePath::Id)) and rewrites {rewritten} to Var: a nested {X} left in place reaches "
                       f"`unreachable!()` in pp_ty",
                       ok_detail=f"kept at {sorted(kept)}, rewritten to Var elsewhere")
        # Variant: kept inline only at root or when it is a result variant (pp_variant unwraps as_result)
        rows = [r for r in arm_rows(nm) if ti_heads(r) == ["Variant"]]
        if len(rows) != 1:
            raise AnchorMissing("nominalize: expected one arm for TypeInner::Variant")
        vifs = [i for i in nodes(rows[0]["body"], "if") if i.get("e") is not None and makes_var(i["e"]) and not makes_var(i["t"])]
        if len(vifs) != 1:
            raise AnchorMissing("nominalize (Variant arm): `if <root or result> { Variant(..) } else { Var(new) }` not found")
        okv = True
        desc = []
        for atom in or_atoms(vifs[0]["c"]):
            if atom.get("k") == "match" and "matches" in (atom.get("mac") or []) and is_path_last(atom["scrut"]):
                hs = set()
                for a in atom["arms"]:
                    if lit_value(a["body"]) is True:
                        hs |= root_heads(a["pat"])
                desc.append(sorted(hs))
                okv = okv and hs == {"None", "Some(Id)"}
            else:
                nm_ = local_name(atom)
                ls = resolve_local(rows[0]["body"], atom) if nm_ else [atom]
                isres = all(l.get("k") == "mcall" and l["m"] == "is_some" and calls(l["recv"], r"rust::as_result$") for l in ls)
                desc.append("as_result(..).is_some()" if isres else show(atom)[:60])
                okv = okv and isres
        chk.expect(okv, "nominalize:Variant:inline-only-root-or-result",
                   f"nominalize keeps a variant inline when {desc}; pp_ty's Variant arm calls `as_result(fs).unwrap()`, so only root "
                   f"positions (printed by pp_defs) and result-shaped variants may stay inline")
        # pp_defs: the root constructors that pp_ty cannot print are printed by their own arms
        pdf = fn("pp_defs")
        try:
            dm = the_match(pdf, r"TypeInner$", 4)
        except AnchorMissing:
            # the per-definition body may have been moved into a helper of its own
            from shared import with_local_callees
            dm = None
            for g_, _via in with_local_callees(cp, pdf)[1:]:
                try:
                    dm = the_match(g_, r"TypeInner$", 4)
                    break
                except AnchorMissing:
                    pass
            if dm is None:
                raise
        for r in arm_rows(dm):
            hs = ti_heads(r)
            tys = [x for x in walk(r["body"]) if x.get("k") == "mcall" and x["m"] == "pp_ty"]
            if hs == ["Func"] or hs == ["Service"]:
                chk.expect(not tys and any(x.get("k") == "mcall" and x["m"] == ("pp_ty_func" if hs == ["Func"] else "pp_ty_service")
                                           for x in walk(r["body"])), f"pp_defs:{hs[0]}:own-printer",
                           f"pp_defs: a root {hs[0]} must be printed by its own printer, not by pp_ty (which is unreachable for it)")
            if hs == ["Variant"]:
                okk = True
                for t_ in tys:
                    guards = [i for i in nodes(r["body"], "if") if contains(i["t"], t_)
                              and any(x.get("k") == "mcall" and x["m"] == "is_some" and calls(x["recv"], r"rust::as_result$")
                                      for x in walk(i["c"]))]
                    okk = okk and bool(guards)
                chk.expect(okk and tys, "pp_defs:Variant:pp_ty-only-for-result",
                           "pp_defs: a root variant may be passed to pp_ty only under `as_result(fs).is_some()`")
        if not any(ti_heads(r) == ["Func"] for r in arm_rows(dm)) or not any(ti_heads(r) == ["Service"] for r in arm_rows(dm)):
            chk.bad("pp_defs:root-arms", "pp_defs has no arm for a root TypeInner::Func / TypeInner::Service")

    for rid, desc, f_ in (("C18.R1", "pp_ty's primitive/constructor/result table closes with the CandidType impls of crate candid", r1),
                          ("C18.R2", "every insert into the nominalised environment inspects the result or tests the key first", r2),
                          ("C18.R3", "emitted field/variant identifier (or its serde rename) hashes to the source id under the derive's label table", r3),
                          ("C18.R4", "Box<> exactly on recursion points computed on the nominalised environment; Box is transparent", r4),
                          ("C18.R5", "pp_ty is unreachable exactly for the constructors nominalisation/pp_defs remove", r5)):
        if only and only != rid:
            continue
        chk.run_rule(rid, desc, f_)
    if only is None:
        import c17
        chk.include(c17, "C17.R3", "C18.R6", facts)     # chase_actor / infer_rec (shared with the JavaScript generator) decide order and Box
        import c15
        chk.include(c15, "C15.R3", "C18.R7", facts)     # "as computed by the derive macro": the derive hashes rename / un-rawed identifier and sorts by it
        import c19
        chk.include(c19, "C19.R3", "C18.R8", facts)     # names placed inside string literals of the emitted Rust (method names of service types, renames) are escaped
