"""Extraction of the subtype checker's decision table (used by C04 and C05)."""
import re

from facts import AnchorMissing, callee, expr_path, nodes, pat_alternatives, pat_head, peel, unblock, walk
from shared import TI, arm_rows, heads_of, is_err_body, the_match

CHECKERS = {
    "subtype_": r"types::subtype::subtype_$",
    "subtype_collect_": r"types::subtype::subtype_collect_$",
    "equal_impl": r"types::subtype::equal_impl$",
}
SELF_CALLS = ("subtype_", "subtype_collect_", "equal_impl", "check_func_params", "subtype_probe")


def ctor(head):
    if isinstance(head, str) and head.startswith(TI):
        return head[len(TI):]
    return head


def self_calls(node, names=SELF_CALLS):
    out = []
    for n in walk(node):
        if n.get("k") == "call":
            c = callee(n) or ""
            if c.startswith("candid::types::subtype::") and c.rsplit("::", 1)[-1] in names:
                out.append(n)
    return out


def is_unit_ok(e):
    """`Ok(())`, `()`, `{}`"""
    e = unblock(e)
    if not isinstance(e, dict):
        return False
    if e.get("k") == "block":
        return not e.get("stmts") and not e.get("e")
    if e.get("k") == "tup" and not e.get("es"):
        return True
    if e.get("k") == "call" and (callee(e) or "").endswith("Result::Ok"):
        a = e["args"][0] if e.get("args") else None
        return isinstance(a, dict) and a.get("k") == "tup" and not a.get("es")
    return False


def has_macro(node, names):
    for n in walk(node):
        for m in n.get("mac") or []:
            if m in names:
                return True
    return False


def pushes_error(node):
    for n in walk(node):
        if n.get("k") == "mcall" and n["m"] == "push" and (expr_path(n["recv"]) or "") == "errors":
            return True
    return False


CRATE = None      # set by Table.__init__: lets classify_body look into small local helpers called from an arm


def _has_optreport(body):
    """a decision on the OptReport mode: in the arm itself or in a small local helper the arm calls"""
    if any(n.get("k") == "match" and "OptReport" in n.get("sty", "") for n in walk(body)):
        return True
    if CRATE is not None:
        from shared import helper_bodies
        for hb in helper_bodies(CRATE, body, ret=None):
            if any(n.get("k") == "match" and "OptReport" in n.get("sty", "") for n in walk(hb)):
                return True
    return False


def classify_body(body, collecting):
    """accept / recurse / reject / unreachable / accept-report (accept after an optional report) / mixed"""
    if has_macro(body, ("unreachable",)) and not self_calls(body):
        return "unreachable"
    rec = self_calls(body)
    if rec:
        return "recurse"
    if is_unit_ok(body):
        return "accept"
    b = unblock(body)
    if is_err_body(body):
        return "reject"
    if collecting and pushes_error(body):
        # the (_, Opt) fallback pushes only under OptReport::Error
        if _has_optreport(body):
            return "accept-report"
        return "reject"
    if isinstance(b, dict) and b.get("k") == "block":
        tail = b.get("e")
        if tail is not None and is_unit_ok(tail) and _has_optreport(body):
            return "accept-report"
        if tail is None and collecting and _has_optreport(body):
            return "accept-report"
    if isinstance(b, dict) and b.get("k") == "match" and b.get("src") == "Normal" and _has_optreport(body):
        # `match report_helper(..) { Some(msg) => Err(..), None => Ok(()) }`: accepts unless the report mode turns the note into an error
        arms = b.get("arms") or []
        if arms and any(is_unit_ok(a["body"]) for a in arms) and all(is_unit_ok(a["body"]) or is_err_body(a["body"]) for a in arms):
            return "accept-report"
    return "mixed"


def guard_info(g, c=None):
    if g is None:
        return None
    probes = self_calls(g, ("subtype_", "subtype_probe"))
    opt_set = set()
    negated = False
    for n in walk(g):
        if n.get("k") == "un" and n.get("op") == "Not":
            inner = n["a"]
            ms = list(nodes(inner, "match"))
            if c is not None:
                from shared import helper_bodies
                for hb in helper_bodies(c, inner):
                    ms.extend(nodes(hb, "match"))
            for m in ms:
                for a in m["arms"]:
                    for alt in pat_alternatives(a["pat"]):
                        # look through Ok(..)
                        hs = [alt]
                        hd0 = pat_head(alt)
                        if isinstance(alt, dict) and alt.get("k") == "ts" and alt.get("subs") and not (
                                isinstance(hd0, str) and hd0.startswith(TI)):
                            hs = pat_alternatives(alt["subs"][0])
                        for h in hs:
                            hd = pat_head(h)
                            if isinstance(hd, str) and hd.startswith(TI):
                                opt_set.add(hd[len(TI):])
                                negated = True
    return {"probes": len(probes), "not_in": sorted(opt_set) if negated else None, "node": g}


class Table:
    def __init__(self, facts, which):
        global CRATE
        c = facts.crate("candid")
        CRATE = c
        self.which = which
        self.fn = c.fn(CHECKERS[which])
        self.collecting = which == "subtype_collect_"
        ms = [m for m in nodes(self.fn["body"], "match") if m.get("src") == "Normal" and "TypeInner" in m.get("sty", "")
              and m["sty"].startswith("(")]
        if len(ms) < 2:
            raise AnchorMissing(f"{which}: expected the Var/Knot prologue match and the rule match on (t1, t2)")
        ms.sort(key=lambda m: len(m["arms"]))
        self.prologue, self.main = ms[0], ms[-1]
        self.rows = []
        for r in arm_rows(self.main):
            self.rows.append({"heads": [(ctor(h[0]), ctor(h[1])) for h in r["heads"] if len(h) == 2],
                              "guard": guard_info(r["guard"], c), "class": classify_body(r["body"], self.collecting),
                              "body": r["body"], "pat": r["pat"], "ln": r["ln"]})

    def decide(self, c1, c2):
        """first-match simulation: (list of guarded rows that apply, final unguarded row or None)"""
        guarded = []
        for r in self.rows:
            if any((h1 in ("_", c1)) and (h2 in ("_", c2)) for h1, h2 in r["heads"]):
                if r["guard"] is not None:
                    guarded.append(r)
                else:
                    return guarded, r
        return guarded, None


def type_ctors(facts):
    c = facts.crate("candid")
    return c.enum_variants(r"types::internal::TypeInner$")


def spec_subtype_axioms(spec):
    """accepting cross-constructor rules stated in spec/Candid.md's subtyping section (checked to be present there)"""
    t = spec.text
    need = {
        ("*", "Reserved"): r"<datatype> <: reserved",
        ("Empty", "*"): r"empty <: <datatype>",
        ("Nat", "Int"): r"nat <: int",
        ("Null", "Opt"): r"null <: opt <datatype>",
    }
    out = {}
    for k, pat in need.items():
        if not re.search(re.escape(pat), t):
            raise AnchorMissing(f"subtyping axiom `{pat}` not found in spec/Candid.md")
        out[k] = pat
    return out


def oracle(c1, c2):
    """expected final decision for constructor pair (after the t1 == t2 and Var/Knot prologue), from the spec rules"""
    if c1 == "Unknown" or c2 == "Unknown":
        # Reserved / Empty axioms are listed first in both checkers; Unknown never reaches them in practice
        if c2 == "Reserved" or c1 == "Empty":
            return "accept"
        if c2 == "Opt":
            return "accept*"
        if c1 == "Class" or c2 == "Class":
            return "class-or-unreachable"
        return "unreachable"
    if c2 == "Reserved" or c1 == "Empty":
        return "accept"
    if (c1, c2) in (("Nat", "Int"), ("Service", "Principal")):
        return "accept"
    if c2 == "Opt":
        return "accept*"          # every path ends in acceptance (possibly after probes / a report)
    if c1 == c2 and c1 in ("Vec", "Record", "Variant", "Service", "Func"):
        return "recurse"
    if c1 == "Class" or c2 == "Class":
        return "recurse"
    return "reject"
