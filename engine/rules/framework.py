"""Check runner: rule bookkeeping, known findings, evidence, reporting contract."""
import json
import os
import sys
import time
import traceback

from facts import AnchorMissing

VERIF = os.path.dirname(os.path.dirname(os.path.dirname(os.path.abspath(__file__))))
EVIDENCE_DIR = os.environ.get("VERIF_EVIDENCE_DIR") or os.path.join(VERIF, "evidence")
KNOWN = os.path.join(VERIF, "KNOWN_FINDINGS.txt")


def load_known():
    out = []
    if os.path.exists(KNOWN):
        for line in open(KNOWN):
            line = line.strip()
            if not line or line.startswith("#"):
                continue
            if line.startswith("open:"):
                body = line[len("open:"):].strip()
                head, _, what = body.partition(" :: ")
                f = dict(x.split("=", 1) for x in head.split() if "=" in x and not x.startswith("key="))
                k = head.split("key=", 1)[1].strip() if "key=" in head else ""
                out.append({"status": "open", "property": f.get("property"), "key": k, "what": what.strip()})
            elif line.startswith("fixed:"):
                body = line[len("fixed:"):].strip()
                f = dict(x.split("=", 1) for x in body.split()[:1] if "=" in x)
                out.append({"status": "fixed", "property": f.get("property"), "what": body})
    return out


class Check:
    def __init__(self, prop, tier="quick", title=""):
        self.prop = prop
        self.tier = tier
        self.title = title
        self.t0 = time.time()
        self.rules = {}          # rule id -> dict(desc, obligations, discharged, instances[])
        self.violations = []     # dict(rule,key,msg,where,detail)
        self.assumptions = []
        self.trusted = []
        self.samples = []
        self.cur = None
        self.analysed_fns = set()
        self.nontrivial = set()
        self.configs = []
        self.extra = {}
        self.alias = {}          # rule id -> id under which another property includes that rule

    # ---- bookkeeping
    def rule(self, rid, desc):
        rid = self.alias.get(rid.split("@")[0], rid.split("@")[0]) + ("@" + rid.split("@", 1)[1] if "@" in rid else "")
        self.cur = rid
        self.rules.setdefault(rid, {"desc": desc, "obligations": 0, "discharged": 0, "instances": []})
        return rid

    def analysed(self, *fn_keys):
        for k in fn_keys:
            self.analysed_fns.add(k)

    def assume(self, text):
        if text not in self.assumptions:
            self.assumptions.append(text)

    def ok(self, key, detail=None, nontrivial=True):
        r = self.rules[self.cur]
        r["obligations"] += 1
        r["discharged"] += 1
        r["instances"].append({"key": key, "ok": True, "detail": detail})
        if nontrivial:
            self.nontrivial.add((self.cur, key))

    def bad(self, key, msg, where=None, detail=None):
        r = self.rules[self.cur]
        r["obligations"] += 1
        r["instances"].append({"key": key, "ok": False, "detail": msg})
        self.nontrivial.add((self.cur, key))
        self.violations.append({"rule": self.cur, "key": f"{self.cur}|{key}", "msg": msg,
                                "where": where, "detail": detail})

    def expect(self, cond, key, msg, where=None, detail=None, ok_detail=None):
        if cond:
            self.ok(key, ok_detail)
        else:
            self.bad(key, msg, where, detail)
        return cond

    def floor(self, what, count, minimum):
        """fail closed when an inventory shrinks below the hand-confirmed count"""
        key = f"floor:{what}"
        if count < minimum:
            self.bad(key, f"anchor moved: only {count} instance(s) of {what} found, {minimum} were confirmed by hand "
                          f"(rule would pass vacuously)")
        else:
            self.ok(key, f"{count} >= {minimum}", nontrivial=False)

    def include(self, module, rid, as_rid, facts, tier="quick"):
        """run rule `rid` of another property's module under the id `as_rid` (properties that share anchors share rules)"""
        self.alias[rid] = as_rid
        try:
            module.run(self, facts, tier, rid)
        finally:
            self.alias.pop(rid, None)

    def run_rule(self, rid, desc, fn):
        """run one rule; a missing anchor fails closed with a message that says so"""
        self.rule(rid, desc)
        try:
            fn()
        except AnchorMissing as e:
            self.rule(rid, desc)
            self.bad("anchor-missing", f"anchor moved (not necessarily a property violation): {e}")
        except Exception as e:  # a crash of the checker is a broken check, not a pass
            self.rule(rid, desc)
            tb = traceback.format_exc()
            self.bad("checker-error", f"rule crashed: {e!r}", detail=tb)

    # ---- finish
    def finish(self):
        known = [k for k in load_known() if k.get("property") == self.prop]
        open_keys = {k["key"]: k for k in known if k.get("status") == "open"}
        new = []
        known_hit = []
        for v in self.violations:
            if v["key"] in open_keys:
                known_hit.append((v, open_keys[v["key"]]))
            else:
                new.append(v)
        os.makedirs(os.path.join(EVIDENCE_DIR, "replay"), exist_ok=True)
        for rid, r in sorted(self.rules.items()):
            print(f"[{self.prop}] rule {rid}: {r['desc']} — {r['discharged']}/{r['obligations']} obligations hold")
        for v, k in known_hit:
            print(f"KNOWN-FINDING: property={self.prop} {v['key']} {k.get('what', v['msg'])}")
        for n, v in enumerate(new):
            rp = os.path.join(EVIDENCE_DIR, "replay", f"{self.prop}-{n}.json")
            with open(rp, "w") as fh:
                json.dump(v, fh, indent=1)
            where = f" at {v['where']}" if v.get("where") else ""
            print(f"  {v['key']}{where}: {v['msg']}")
            print(f"VIOLATION property={self.prop} replay={rp}")
        obligations = sum(r["obligations"] for r in self.rules.values())
        discharged = sum(r["discharged"] for r in self.rules.values())
        samples = []
        for rid, r in sorted(self.rules.items()):
            for inst in r["instances"][:3]:
                samples.append({"rule": rid, "instance": inst["key"], "holds": inst["ok"],
                                "detail": inst["detail"]})
        expl = (f"Static analysis of /repo's current sources (rustc-resolved MIR/HIR facts; nothing is executed). "
                f"{self.title} Rules: " +
                "; ".join(f"{rid}: {r['desc']} [{r['discharged']}/{r['obligations']}]"
                          for rid, r in sorted(self.rules.items())))
        ev = {
            "property_id": self.prop,
            "tier": self.tier,
            "seed": int(os.environ.get("VERIF_SEED", "0") or 0),
            "level": "other",
            "coverage": {
                "explanation": expl,
                "obligations": obligations,
                "discharged": discharged,
                "evaluations": max(obligations, 1),
                "distinct_nontrivial": len(self.nontrivial),
                "rule": "one evaluation = one rule instance (a site, path set, table row or inventory entry) decided "
                        "on the extracted facts; non-trivial = the instance required a path/table comparison "
                        "(floors and anchor-presence checks are not counted)",
                "samples": samples[:40],
                "functions_analysed": sorted(self.analysed_fns)[:200],
                "n_functions_analysed": len(self.analysed_fns),
                "rules": {rid: {"desc": r["desc"], "obligations": r["obligations"], "discharged": r["discharged"]}
                          for rid, r in sorted(self.rules.items())},
                "configs": self.configs,
                "known_findings_reproduced": [v["key"] for v, _ in known_hit],
                "trusted_base": self.trusted,
                "exhaustive": True,
                **self.extra,
            },
            "assumptions": self.assumptions,
            "wall_s": round(time.time() - self.t0, 2),
            "violations": len(new),
        }
        os.makedirs(EVIDENCE_DIR, exist_ok=True)
        with open(os.path.join(EVIDENCE_DIR, f"{self.prop}.json"), "w") as fh:
            json.dump(ev, fh, indent=1)
        print(f"[{self.prop}] {obligations} obligations, {discharged} hold, {len(new)} violation(s), "
              f"{len(known_hit)} known finding(s), {ev['wall_s']}s")
        return 1 if new else 0
