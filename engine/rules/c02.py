"""C02 — decoding at an expected type is exactly the spec's coercion (structural clauses)."""
import re

from facts import AnchorMissing, short, callee, expr_path, nodes, pat_alternatives, pat_head, unblock, walk
from shared import TI, arm_rows, is_err_body, method_calls, the_match, variant_paths
import c04
import de_rules
import sorted_unique

TITLE = ("C02: every wire read is preceded by tests of both the expected and the wire type; the optional-omission set is "
         "{opt,null,reserved} at every site; back-tracking under opt happens only for coercion (subtype) errors; header "
         "validation is on the path; cross-constructor coercions equal the subtype axioms.")

OMIT = ["Null", "Opt", "Reserved"]


def omission_sets(fn_hir, c=None):
    """sets of TypeInner constructors singled out by a match whose variant arms mention only null/reserved/opt
    (a predicate factored out into a small local helper is looked into once per call site)"""
    out = []
    ms = list(nodes(fn_hir["body"], "match"))
    if c is not None:
        from shared import helper_bodies
        for n in walk(fn_hir["body"]):
            if n.get("k") in ("call", "mcall") and callee(n) in c.hir and callee(n) != fn_hir["key"]:
                for hb in helper_bodies(c, {"k": "semi", "e": n}):
                    ms.extend(nodes(hb, "match"))
    for m in ms:
        hs = []
        other = False
        m_resolved = m
        def heads(p):
            res = []
            for alt in pat_alternatives(p):
                h = pat_head(alt)
                if isinstance(alt, dict) and alt.get("k") == "ts" and alt.get("subs") and not (
                        isinstance(h, str) and h.startswith(TI)):
                    res.extend(heads(alt["subs"][0]))   # look through Ok(..) / Some(..)
                else:
                    res.append(h)
            return res

        for a in m["arms"]:
            for h in heads(a["pat"]):
                if isinstance(h, str) and h.startswith(TI):
                    hs.append(h[len(TI):])
                elif h != "_":
                    other = True
        if hs and not other and set(hs) <= {"Null", "Opt", "Reserved", "Empty"} and len(hs) >= 2:
            out.append(sorted(hs))
            UNRESOLVED_CHECK.append(m_resolved)
    return out


UNRESOLVED_CHECK = []


def resolved_scrutinee(fn_hir, m, c=None):
    """is the type tested by omission-set match `m` the result of resolving type names (trace_type / trace_type_with_depth / unroll)?
    Looks at the statement (or arm guard) the match sits in: the call must be part of the same expression chain, or the match lives in a
    small predicate helper whose body contains the call."""
    TR = r"(TypeEnv::trace_type(_with_depth)?|unroll_type)$"

    def has_trace(node):
        return any(x.get("k") in ("call", "mcall") and re.search(TR, callee(x) or "") for x in walk(node))
    # the helper-body case
    if not any(x is m for x in walk(fn_hir["body"])):
        if c is not None:
            for k_, hh in c.hir.items():
                if hh.get("body") is not None and any(x is m for x in walk(hh["body"])):
                    return has_trace(hh["body"])
        return False
    # innermost statement / guard / let initialiser containing the match
    best = None
    for n in walk(fn_hir["body"]):
        cands = []
        if n.get("k") in ("slet", "semi"):
            cands.append(n)
        if n.get("k") == "match":
            cands.extend(a["guard"] for a in n["arms"] if isinstance(a.get("guard"), dict))
        if n.get("k") == "if":
            cands.append(n["c"])
        for cnd in cands:
            if any(x is m for x in walk(cnd)):
                if best is None or sum(1 for _ in walk(cnd)) < sum(1 for _ in walk(best)):
                    best = cnd
    if best is None:
        return False
    if has_trace(best):
        return True
    # `let t = env.trace_type(..)?; … match t.as_ref() {..}`: the scrutinee is a local initialised by the call
    sc = unblock(m["scrut"])
    root = (expr_path(sc.get("recv")) if sc.get("k") == "mcall" else expr_path(sc)) or ""
    root = root.split(".")[0]
    for st in nodes(fn_hir["body"], "slet"):
        if (st.get("pat") or {}).get("k") == "bind" and st["pat"]["n"] == root and st.get("init") is not None and has_trace(st["init"]):
            return True
    return False


def run(chk, facts, tier, only=None):
    c = facts.crate("candid")

    def r1():
        de_rules.rule_check_before_read(chk, facts)
        de_rules.rule_mismatch_is_subtype_error(chk, facts)

    def r2():
        sites = [
            ("IDLDeserialize::deserialize_with_type (no more values on the wire)", c.fn(r"de::IDLDeserialize::<'de>::deserialize_with_type$"), 1),
            ("MapAccess::next_key_seed (expected field absent from the wire)", c.method(r"de::Compound", "next_key_seed", r"MapAccess$"), 1),
            ("subtype_ (record field missing)", c.fn(r"types::subtype::subtype_$"), 2),
            ("subtype_collect_ (record field missing)", c.fn(r"types::subtype::subtype_collect_$"), 2),
            ("IDLArgs::annotate_types (omitted arguments)", c.fn(r"value::IDLArgs::annotate_types$"), 1),
            ("IDLValue::annotate_type_with_depth (omitted record field / constituent rule)", c.fn(r"value::IDLValue::annotate_type_with_depth$"), 2),
        ]
        for name, h, floor in sites:
            chk.analysed(h["key"])
            del UNRESOLVED_CHECK[:]
            sets = omission_sets(h, c)
            if re.search(r"subtype_|annotate_", h["key"]):
                unres = [m for m in UNRESOLVED_CHECK if not resolved_scrutinee(h, m, c)]
                chk.expect(not unres, f"omission-set:{name.split(' ')[0]}:on-resolved-type",
                           f"{name}: the test `is it opt / null / reserved?` is made on a type that was not resolved through the environment "
                           f"(line {unres[0].get('ln') if unres else ''}): a field or argument whose type is a *name* for an optional type would be treated as required, "
                           f"unlike at the sibling sites", where=f"{h['span']['file']}:{unres[0].get('ln')}" if unres else None,
                           ok_detail="trace_type(..) feeds every omission test")
            chk.expect(len(sets) >= floor and all(s == OMIT for s in sets), f"omission-set:{name.split(' ')[0]}",
                       f"{name}: a missing value is tolerated for exactly opt, null and reserved (spec: `null <: <datatype'>`); "
                       f"this site singles out {sets} (expected {floor} set(s) equal to {OMIT})",
                       ok_detail=f"{len(sets)} set(s) = {OMIT}")

    def r3():
        h = c.method(r"^candid::de::Deserializer", "recoverable_visit_some", "")
        chk.analysed(h["key"])
        ms = [m for m in nodes(h["body"], "match") if m.get("src") == "Normal" and "Result<" in m.get("sty", "")
              and any(n.get("k") == "mcall" and n["m"] == "visit_some" for n in walk(m["scrut"]))]
        if len(ms) != 1:
            raise AnchorMissing("recoverable_visit_some: match on the result of visit_some not found")
        rec = []
        for a in ms[0]["arms"]:
            errs = sorted({p.rsplit("::", 1)[-1] for p in variant_paths_pat(a["pat"], "candid::error::Error::")})
            recovers = bool(method_calls(a["body"], r"^visit_none$"))
            is_err_pat = any(p.endswith("Result::Err") for p in all_pat_paths(a["pat"]))
            rec.append((errs, recovers, is_err_pat, is_err_body(a["body"])))
        recovering = [r for r in rec if r[1]]
        chk.expect(len(recovering) == 1 and recovering[0][0] == ["Subtype"], "recover-only-subtype",
                   f"recoverable_visit_some must fall back to none only for Error::Subtype (a failed coercion); malformed value bytes "
                   f"below an opt stay errors. Arms (error variants, recovers?): {[(r[0], r[1]) for r in rec]}",
                   ok_detail="only Err(Error::Subtype(_)) recovers")
        others = [r for r in rec if r[2] and not r[1]]
        chk.expect(len(others) >= 1 and all(r[3] for r in others), "other-errors-propagate",
                   f"recoverable_visit_some: every other Err arm must return the error; arms: {[(r[0], r[3]) for r in others]}")
        # the skipped value is consumed as untyped data after restoring the saved state
        seq = [n["m"] for a in ms[0]["arms"] if method_calls(a["body"], r"^visit_none$")
               for n in method_calls(a["body"], r"^(add_cost|deserialize_ignored_any|visit_none)$")]
        chk.expect(seq == ["add_cost", "deserialize_ignored_any", "visit_none"], "recover-skips-value",
                   f"the recovery arm must charge, skip the wire value (deserialize_ignored_any) and then yield none; found {seq}")

    def r4():
        b = c.body(r"candid::de::Deserializer::<'de>::from_bytes$")
        chk.analysed(b.key)
        cs = [cal for _, t, cal in b.call_sites()]
        chk.expect(any(x and x.endswith("BinRead::read_args") or x and "read_args" in x for x in cs) and
                   any(x and x.endswith("binary_parser::Header::to_types") for x in cs), "from_bytes:parses-and-validates",
                   f"Deserializer::from_bytes must parse the header (Header::read_args) and validate it (Header::to_types)")
        h = c.fn(r"binary_parser::Header::to_types$")
        cs = [callee(n) or n.get("m") for n in walk(h["body"]) if n.get("k") in ("call", "mcall")]
        cs = [x.rsplit("::", 1)[-1] for x in cs if isinstance(x, str)]
        chk.expect("to_env" in cs and "replace_empty" in cs and cs.count("to_type") >= 1, "to_types:steps",
                   f"Header::to_types must build the environment (to_env), replace vacuous types (replace_empty) and convert every argument index; calls: {sorted(set(x for x in cs if isinstance(x, str) and not x.startswith('core::')))[:12]}")
        sorted_unique.header_rule(chk, facts)
        # index range test in IndexType::to_type
        h = c.fn(r"binary_parser::IndexType::to_type$")
        ok = False
        for n in nodes(h["body"], "if"):
            cond = n["c"]
            if cond.get("k") == "bin" and cond.get("op") in ("Ge", "Gt") and "len" in str(expr_path(unwrap_cast(cond["b"])) or "") and is_err_body(n["t"]):
                ok = cond["op"] == "Ge"
        chk.expect(ok, "index-in-range", "IndexType::to_type must reject a table index >= the table length (`v >= len` ⇒ error)")
        # replace_empty turns definitions without values into `empty`: only a record with a vacuous field (a cycle through records and
        # names) has no values; a variant / opt / vec always has some (spec: the replacement concerns records only)
        ie = c.fn(r"types::type_env::TypeEnv::is_empty$")
        chk.analysed(ie["key"])
        im = the_match(ie, r"TypeInner$", 2)
        heads_ = sorted({hd[0][len(TI):] if isinstance(hd[0], str) and hd[0].startswith(TI) else str(hd[0]) for r_ in arm_rows(im) for hd in r_["heads"]})
        chk.expect(heads_ == ["Record", "Var", "_"], "replace_empty:records-only",
                   f"TypeEnv::is_empty decides emptiness by cases {heads_}; only Record (some field's definition is empty) and Var (alias) may lead "
                   f"to `true`, everything else is inhabited — a variant or option declared empty would make accepted messages undecodable",
                   where=f"{ie['span']['file']}:{ie['span']['lo']}", ok_detail=str(heads_))
        # check_subtype: Ok only through the subtype check itself (no cached / shortcut acceptance keyed by less than both types)
        cs = c.body(r"candid::de::Deserializer::<'de>::check_subtype$")
        chk.analysed(cs.key)
        from facts import term_callee as _tc
        dom = cs.dominators()
        sub_blocks = [bi for bi, t_, cal in cs.call_sites() if cal and cal.endswith("subtype::subtype_with_config")]
        ok_exits = []
        for bi, blk in enumerate(cs.blocks):
            if blk.get("c"):
                continue
            for st in blk["s"]:
                if st["k"] == "assign" and st["r"].get("k") == "agg" and st["r"].get("variant") == "Ok" and not st["p"].get("p") and st["p"]["l"] == 0:
                    ok_exits.append(bi)
        undom = [bi for bi in ok_exits if bi in dom and not any(sb in dom[bi] for sb in sub_blocks)]
        chk.expect(bool(sub_blocks) and bool(ok_exits) and not undom, "check_subtype:ok-only-through-the-check",
                   f"Deserializer::check_subtype can return Ok without having called subtype_with_config on this (wire, expected) pair "
                   f"(Ok exits in MIR blocks {undom}): a shortcut keyed by the wire type alone accepts the same wire type at an expected type it is "
                   f"not a subtype of", where=f"{cs.span['file']}:{cs.span['lo']}", ok_detail="every Ok exit is dominated by the subtype check")
        # service methods must be function types
        h = c.fn(r"binary_parser::Table::to_env$")
        # inside the loop over the methods of a service entry: a test that mentions TypeInner::Func and an error return
        from shared import with_local_callees
        loops = [m for g_, _via in with_local_callees(c, h, depth=2) for m in nodes(g_["body"], "match") if m.get("src") == "ForLoopDesugar"]
        hasfunc = any("Func" in variant_paths_all(lp) and any(is_err_body(n.get("e")) for n in nodes(lp, "ret") if n.get("e")) for lp in loops)
        chk.expect(hasfunc, "methods-are-functions",
                   "Table::to_env must reject a service whose method type is not (a reference to) a function type")
        # trailing bytes
        h = c.fn(r"de::IDLDeserialize::<'de>::done$")
        ok = False
        for n in nodes(h["body"], "if"):
            if any(x.get("k") == "mcall" and x["m"] == "is_empty" for x in walk(n["c"])) and \
                    any(x.get("k") == "un" and x.get("op") == "Not" for x in walk(n["c"])):
                rets = nodes(n["t"], "ret")
                ok = bool(rets) and n.get("e") is None or ok
        chk.expect(ok, "done:trailing-bytes", "IDLDeserialize::done must fail when input remains after the last value")
        # binread assertions (derive-helper attributes)
        want = {
            r"binary_parser::Table$": [r"assert\(len <=\s*max_type_len\.unwrap_or\(MAX_TYPE_TABLE_LEN"],
            r"binary_parser::FuncType$": [r"assert\(ann_len <= 1u8"],
            r"binary_parser::PrincipalBytes$": [r"assert\(flag == 1u8", r"assert\(len <= 29"],
            r"binary_parser::Header$": [r"magic = b\"DIDL\""],
            r"binary_parser::BoolValue$": [r"0u8 => Ok\(false\).*1u8 => Ok\(true\).*_ => Err"],
        }
        for path, pats in want.items():
            it = c.attr_item(path)
            txt = " ".join(it.get("attrs", []) + [a for f in it.get("fields", []) for a in f["attrs"]])
            txt = re.sub(r"\s+", " ", txt)
            for ptn in pats:
                chk.expect(re.search(ptn, txt) is not None, f"binread:{path.split('::')[-1].rstrip('$')}:{ptn[:24]}",
                           f"binread attribute matching /{ptn}/ not found on {path}: {txt[:200]}")

    def r5():
        c04.rule_tables(chk, facts)

    def r6():
        de_rules.rule_unrolled(chk, facts)
        de_rules.rule_raw_field_tests(chk, facts)

    def shared_rules():
        import c05, c07
        chk.include(c05, "C05.R1", "C02.R7", facts)     # references: wire <: expected decided as the spec's rules decide it
        chk.include(c05, "C05.R3", "C02.R8", facts)     # ... with a sound memo (a non-subtype reference fails)
        chk.include(c07, "C07.R3", "C02.R9", facts)     # a failed coercion under opt restores the whole decoder state
        import c08
        chk.include(c08, "C08.R5", "C02.R10", facts)    # dispatch: each expected constructor (and each big-number fast path) goes to its own routine
        chk.include(c08, "C08.R7", "C02.R11", facts)    # ... and each routine hands the visitor the kind of value it is for (no shortcut around validation)
        chk.include(c08, "C08.R2", "C02.R12", facts)    # fast paths and accessors are built from (expected, wire) in that order, per component
        import c10
        chk.include(c10, "C10.R6", "C02.R13", facts)    # a variant tag whose payload coerces (null at opt T) gets the accessor of the *expected* payload

    def r14():
        """Back-tracking below `opt` recovers from Error::Subtype and from nothing else (C02.R3). That only implements the spec if the class of
        an error is stable on its way up: (a) inside the decoder, its accessors and the library's visitors, the result of a re-entrant decoding
        call is never re-wrapped (`map_err`, `with_context`, `context`, `or_else`: candid's Error turns a wrapped Subtype into Custom), so a
        coercion failure stays recoverable; (b) the number kernels never report a malformed or out-of-range number as a Subtype error, so
        such a message is never read as `null`."""
        REENTRANT = re.compile(r"serde_core::de::(DeserializeSeed::deserialize|Deserialize::deserialize|Visitor::visit_\w+|VariantAccess::\w+|SeqAccess::next_\w+|"
                               r"MapAccess::next_\w+|EnumAccess::variant\w*|Deserializer::deserialize_\w+)$")
        WRAP = ("map_err", "with_context", "context", "or_else", "or")
        scope = [h for k, h in sorted(c.hir.items()) if h.get("kind") in ("Fn", "AssocFn") and (
            re.search(r"^<&(?:'a )?mut candid::de::Deserializer<'de> as serde_core::de::Deserializer<'de>>::", k)
            or re.search(r"^<candid::de::(Compound|PrimitiveVecAccess)<.*> as serde_core::de::", k)
            or re.search(r"^candid::de::Deserializer::<'de>::(recoverable_visit_some|deserialize_\w+)$", k)
            or re.search(r" as serde_core::de::Visitor<'de>>::visit_\w+$", k))]
        chk.floor("decoder / accessor / visitor functions scanned for error re-wrapping", len(scope), 80)
        n_re = 0
        for h in scope:
            chk.analysed(h["key"])
            for x in walk(h["body"]):
                if x.get("k") in ("call", "mcall") and REENTRANT.search(callee(x) or ""):
                    n_re += 1
                if x.get("k") == "mcall" and x["m"] in WRAP:
                    r_ = x["recv"]
                    while isinstance(r_, dict) and r_.get("k") in ("block",) and not r_.get("stmts") and r_.get("e"):
                        r_ = r_["e"]
                    inner = [y for y in walk(r_) if y.get("k") in ("call", "mcall") and REENTRANT.search(callee(y) or "")]
                    # only the receiver chain itself counts (a closure argument that decodes is not "the result being wrapped")
                    direct = unblock(r_)
                    while direct.get("k") == "mcall" and direct["m"] in ("map", "and_then", "inspect") :
                        direct = unblock(direct["recv"])
                    if direct.get("k") in ("call", "mcall") and REENTRANT.search(callee(direct) or ""):
                        chk.bad(f"error-class:rewrapped:{short(h['key'])}:{x['m']}",
                                f"{h['key']}: the result of the re-entrant decoding call `{short(callee(direct) or '')}` is passed through `.{x['m']}(..)`: a coercion "
                                f"failure inside it (Error::Subtype) arrives at the enclosing `opt` as another error class, so the `opt` no longer reads as null and a "
                                f"message the subtype check accepts fails to decode", where=f"{h['span']['file']}:{x.get('ln')}")
        chk.floor("re-entrant decoding calls seen", n_re, 60)
        chk.ok("error-class:no-rewrapping", f"{len(scope)} functions, {n_re} re-entrant calls, none re-wrapped", nontrivial=False)
        kernels = [h for k, h in sorted(c.hir.items()) if re.search(r"^candid::types::(leb128::\w+|number::(Nat|Int)::(decode|encode))$|^<candid::types::number::\w+ as ", k)
                   or re.search(r"^candid::de::Deserializer::<'de>::(try_read_leb_\w+|read_leb_\w+|read_len|borrow_bytes)$", k)]
        chk.floor("number kernels scanned for the error class of their rejections", len(kernels), 10)
        for h in kernels:
            bad_ = [x for x in walk(h["body"]) if (x.get("k") == "call" and (callee(x) or "").endswith("error::Error::subtype"))
                    or (x.get("k") in ("path", "call") and ((x.get("res") or x.get("callee") or {}).get("path", "") if isinstance(x.get("res") or x.get("callee"), dict) else "").endswith("error::Error::Subtype"))]
            chk.expect(not bad_, f"error-class:malformed-number-is-not-a-coercion-failure:{short(h['key'])}",
                       f"{h['key']} reports a malformed / out-of-range number as Error::Subtype: below an `opt` the decoder recovers from that class, so e.g. "
                       f"`opt nat` holding 2^128 decodes at Option<u128> as None instead of being rejected",
                       where=f"{h['span']['file']}:{bad_[0].get('ln') if bad_ else ''}", ok_detail="no Subtype error constructed")

    for rid, desc, fn in (("C02.R14", "the class of a decoding error is stable: no re-wrapping of nested results, malformed numbers are not coercion failures", r14),
                          ("C02.R1", "every wire read is preceded by tests of both the expected and the wire type", r1),
                          ("C02.R2", "the optional-omission set is {opt, null, reserved} at every site that implements it", r2),
                          ("C02.R3", "back-tracking below opt happens only for coercion (subtype) errors", r3),
                          ("C02.R4", "header validation is on the decoding path", r4),
                          ("C02.R5", "cross-constructor coercions of the decoder equal the subtype axioms", r5),
                          ("C02.R6", "type names are resolved (unroll_type) before any test of the expected / wire type", r6)):
        if only and only != rid:
            continue
        chk.run_rule(rid, desc, fn)
    if not only or only in ("C02.R7", "C02.R8", "C02.R9"):
        shared_rules()


def all_pat_paths(p):
    out = []
    for n in walk(p):
        r = n.get("res")
        if isinstance(r, dict) and r.get("path"):
            out.append(r["path"])
    return out


def variant_paths_pat(p, prefix):
    return [x for x in all_pat_paths(p) if x.startswith(prefix)]


def variant_paths_all(node):
    out = set()
    for n in walk(node):
        r = n.get("res")
        if isinstance(r, dict) and isinstance(r.get("path"), str) and r["path"].startswith(TI):
            out.add(r["path"][len(TI):])
    return out


def unwrap_cast(e):
    while isinstance(e, dict) and e.get("k") == "cast":
        e = e["e"]
    return e
