"""Private helpers of c17.py and c19.py (binding generators): lexical scopes over the typed HIR, name provenance,
flattening of `RcDoc` append chains / `format!` templates into literal and non-literal pieces, quote/comment
context scanning, handlebars template scanning, reachability, oracle files.  Static facts only."""
import json
import os
import re
import sys

from facts import AnchorMissing, callee, lit_value, short, walk

sys.setrecursionlimit(20000)

VERIF = os.path.dirname(os.path.dirname(os.path.dirname(os.path.abspath(__file__))))
ORACLES = os.path.join(VERIF, "engine", "oracles")
TI = "candid::types::internal::TypeInner::"
LABEL = "candid::types::internal::Label::"
BIND = "candid_parser::bindings::"
STRINGY = ("&&str", "&str", "&alloc::string::String", "alloc::string::String", "&&alloc::string::String",
           "&mut alloc::string::String", "&&&str")


def oracle(name):
    p = os.path.join(ORACLES, name)
    if not os.path.exists(p):
        raise AnchorMissing(f"oracle file {p} is missing")
    with open(p) as fh:
        return json.load(fh)


def fshort(key):
    """candid_parser::bindings::rust::State::<'a>::pp_ty -> rust::State::pp_ty (keys of reports; no generics)"""
    k = re.sub(r"::<[^>]*>", "", key)
    k = k.replace(BIND, "").replace("candid::pretty::", "pretty::").replace("candid_parser::", "")
    return k


def keyword_table(c, key_re):
    h = c.fn(key_re)
    b = h["body"]
    if b.get("k") != "array" or not all(e.get("k") == "lit" and "str" in e["v"] for e in b["es"]):
        raise AnchorMissing(f"{h['key']} is no longer an array of string literals")
    return h["key"], [e["v"]["str"] for e in b["es"]]


# --------------------------------------------------------------------------- lexical scopes
class Binder:
    __slots__ = ("name", "pat", "kind", "ctx", "ty", "init", "uses", "under", "fn", "idx")

    def __init__(self, name, pat, kind, ctx, under, fn, idx=None, init=None):
        self.name = name
        self.pat = pat
        self.kind = kind      # param | let | arm | closure | iflet
        self.ctx = ctx        # slet node / match node / closure node / let node / None
        self.ty = pat.get("ty")
        self.init = init      # initialiser when `let x = init` binds x directly
        self.uses = []
        self.under = under    # constructor paths enclosing the binding inside its pattern, outermost first
        self.fn = fn
        self.idx = idx        # parameter index (param / closure)

    def __repr__(self):
        return f"<{self.kind} {self.name}: {self.ty}>"


def pat_binds(pat, under=()):
    """(bind node, enclosing constructor paths) of every binding in a pattern"""
    out = []
    if not isinstance(pat, dict):
        return out
    k = pat.get("k")
    if k == "bind":
        out.append((pat, under))
        if pat.get("sub"):
            out.extend(pat_binds(pat["sub"], under))
        return out
    here = under
    if k in ("ts", "struct", "path") and pat.get("res"):
        here = under + (pat["res"].get("path"),)
    if k == "tuple":
        here = under + ("(tuple)",)
    for key in ("subs", "pre", "post"):
        for s in pat.get(key) or []:
            out.extend(pat_binds(s, here))
    for key in ("sub", "mid"):
        if pat.get(key):
            out.extend(pat_binds(pat[key], here))
    for f in pat.get("fields") or []:
        out.extend(pat_binds(f[1], here))
    return out


class Scope:
    """Lexical resolution of locals in one function (closures are inlined in the HIR)."""

    def __init__(self, hir):
        self.hir = hir
        self.key = hir["key"]
        self.parent = {}
        self.res = {}
        self.binders = []
        self.params = []
        env = {}
        for i, p in enumerate(hir.get("params") or []):
            bs = []
            for b, under in pat_binds(p):
                bd = Binder(b["n"], b, "param", None, under, self.key, idx=i)
                self.binders.append(bd)
                env[b["n"]] = bd
                bs.append(bd)
            self.params.append(bs)
        self._index(hir["body"], None)
        self._visit(hir["body"], env)

    # parent map over nodes that have a kind (match arms are skipped: the parent of an arm body is the match)
    def _index(self, n, parent):
        if isinstance(n, list):
            for x in n:
                self._index(x, parent)
            return
        if not isinstance(n, dict):
            return
        if "k" in n:
            self.parent[id(n)] = parent
            here = n
        else:
            here = parent
        for key, v in n.items():
            if key in ("pat", "params", "res", "callee", "v"):
                continue
            if isinstance(v, (dict, list)):
                self._index(v, here)

    def _bind(self, env, pat, kind, ctx, init=None):
        env = dict(env)
        direct = isinstance(pat, dict) and pat.get("k") == "bind" and not pat.get("sub")
        for b, under in pat_binds(pat):
            bd = Binder(b["n"], b, kind, ctx, under, self.key, init=init if direct else None)
            self.binders.append(bd)
            env[b["n"]] = bd
        return env

    def _visit(self, n, env):
        if isinstance(n, list):
            for x in n:
                self._visit(x, env)
            return env
        if not isinstance(n, dict):
            return env
        k = n.get("k")
        if k == "path":
            r = n.get("res") or {}
            if r.get("kind") == "Local" and r.get("path") in env:
                bd = env[r["path"]]
                self.res[id(n)] = bd
                bd.uses.append(n)
            return env
        if k == "block":
            e2 = env
            for st in n.get("stmts") or []:
                if st.get("k") == "slet":
                    if st.get("init") is not None:
                        self._visit(st["init"], e2)
                    if st.get("els") is not None:
                        self._visit(st["els"], e2)
                    e2 = self._bind(e2, st["pat"], "let", st, st.get("init"))
                else:
                    self._visit(st, e2)
            if n.get("e") is not None:
                self._visit(n["e"], e2)
            return env
        if k == "match":
            self._visit(n["scrut"], env)
            for a in n["arms"]:
                e2 = self._bind(env, a["pat"], "arm", n)
                if a.get("guard") is not None:
                    e2 = self._cond(a["guard"], e2)
                self._visit(a["body"], e2)
            return env
        if k == "closure":
            e2 = env
            for i, p in enumerate(n.get("params") or []):
                e2 = dict(e2)
                for b, under in pat_binds(p):
                    bd = Binder(b["n"], b, "closure", n, under, self.key, idx=i)
                    self.binders.append(bd)
                    e2[b["n"]] = bd
            self._visit(n["body"], e2)
            return env
        if k == "if":
            e2 = self._cond(n["c"], env)
            self._visit(n["t"], e2)
            if n.get("e") is not None:
                self._visit(n["e"], env)
            return env
        for key, v in n.items():
            if key in ("pat", "res", "callee", "v"):
                continue
            if isinstance(v, (dict, list)):
                self._visit(v, env)
        return env

    def _cond(self, c, env):
        """conditions may contain `let` (if-let, let chains): their bindings are visible in the then-branch"""
        if isinstance(c, dict) and c.get("k") == "let":
            self._visit(c["init"], env)
            return self._bind(env, c["pat"], "iflet", c, c.get("init"))
        if isinstance(c, dict) and c.get("k") == "bin" and c.get("op") == "And":
            env = self._cond(c["a"], env)
            return self._cond(c["b"], env)
        self._visit(c, env)
        return env

    # ------------------------------------------------------------------ queries
    def binder_of(self, node):
        return self.res.get(id(node))

    def ancestors(self, node):
        p = self.parent.get(id(node))
        while p is not None:
            yield p
            p = self.parent.get(id(p))

    def for_source(self, binder):
        """collection expression a `for` loop variable iterates, or None"""
        m = binder.ctx
        if not (isinstance(m, dict) and m.get("k") == "match" and m.get("src") == "ForLoopDesugar"):
            return None
        for a in self.ancestors(m):
            if a.get("k") == "match" and a.get("src") == "ForLoopDesugar" and a["scrut"].get("k") == "call" \
                    and (callee(a["scrut"]) or "").endswith("into_iter"):
                return a["scrut"]["args"][0]
        return None

    def closure_source(self, binder):
        """receiver of the iterator adaptor (`x.iter().map(closure)`) a closure parameter is fed by, or None"""
        cl = binder.ctx
        if not (isinstance(cl, dict) and cl.get("k") == "closure"):
            return None
        p = self.parent.get(id(cl))
        if isinstance(p, dict) and p.get("k") == "mcall" and any(a is cl for a in p.get("args", [])):
            return p["recv"]
        return None


TRANSPARENT_M = {"clone", "as_ref", "as_str", "to_string", "to_owned", "borrow", "deref", "into", "as_slice",
                 "as_deref", "cloned", "copied"}
TRANSPARENT_F = ("::deref", "::as_ref", "::clone", "::from", "::into", "::to_string", "::borrow", "::to_owned", "::must_use")


def consumer(scope, node):
    """climb from a use through wrappers that keep the same text; -> (consuming node, the child it consumes)"""
    cur = node
    while True:
        p = scope.parent.get(id(cur))
        if p is None:
            return None, cur
        k = p.get("k")
        if k in ("ref", "cast") or (k == "un" and p.get("op") == "Deref"):
            cur = p
            continue
        if k == "block" and p.get("e") is cur:
            cur = p
            continue
        if k == "mcall" and p.get("recv") is cur and p["m"] in TRANSPARENT_M:
            cur = p
            continue
        if k == "call" and len(p.get("args", [])) == 1 and p["args"][0] is cur and (callee(p) or "").endswith(TRANSPARENT_F):
            cur = p
            continue
        if k == "if" and (p.get("t") is cur or p.get("e") is cur):
            cur = p
            continue
        if k == "match" and any(a["body"] is cur for a in p["arms"]):
            cur = p
            continue
        return p, cur


def root_local(scope, e):
    """the binder an expression is a (wrapped / field-projected) view of, or None"""
    while isinstance(e, dict):
        k = e.get("k")
        if k == "path":
            return scope.binder_of(e)
        if k in ("ref", "cast", "field"):
            e = e["e"]
        elif k == "un":
            e = e["a"]
        elif k == "index":
            e = e["a"]
        elif k == "mcall" and e["m"] in TRANSPARENT_M | {"iter", "as_slice", "into_iter", "enumerate", "escape_debug", "trim_end_matches", "trim_start_matches",
                                                          "trim_matches", "trim", "trim_end", "trim_start"}:
            e = e["recv"]
        elif k == "block" and not e.get("stmts") and e.get("e"):
            e = e["e"]
        else:
            return None
    return None


def alias_root(scope, e):
    """like root_local, but follows `let x = <view of y>` aliases to the binder the value originally comes from"""
    b = root_local(scope, e)
    for _ in range(8):
        if b is None or b.kind != "let" or b.init is None:
            return b
        nb = root_local(scope, b.init)
        if nb is None:
            return b
        b = nb
    return b


# --------------------------------------------------------------------------- name provenance
class NameFlow:
    """Where does a string that *is a program name* go?  Every use of a source binder is classified as
    escaped (argument of the generator's identifier escaper), neutral (look-ups, comparisons, config paths),
    raw (reaches a text constructor as it is) or unknown (fail closed).  Calls into other functions of the
    bindings modules are followed into the callee's parameter."""

    RAW = [r"^candid::pretty::utils::(str|kwd|ident|quote_ident)$",
           r"^pretty::RcDoc::<.*>::(text|as_string|append)$", r"^pretty::Doc::<.*>::(text|as_string)$",
           r"^core::fmt::rt::Argument::<.*>::new_", r"^alloc::string::String::push_str$",
           r"^alloc::fmt::format$", r"^core::fmt::Display::fmt$"]
    NEUTRAL = [r"^candid::types::type_env::TypeEnv::(find_type|rec_find_type|trace_type|as_service|as_func|get_method)$",
               r"^alloc::collections::btree::set::BTreeSet::<.*>::(contains|insert|get)$",
               r"^alloc::collections::btree::map::BTreeMap::<.*>::(get|contains_key)$",
               r"^candid_parser::syntax::IDLMergedProg::lookup$",
               r"^core::slice::<impl \[T\]>::contains$",
               r"^candid_parser::configs::StateElem::(Label|TypeStr)$",
               r"^core::cmp::PartialEq::(eq|ne)$", r"^core::str::<impl str>::(len|is_empty)$"]

    def __init__(self, crate, escapers, scopes):
        self.c = crate
        self.escapers = set(escapers)
        self.scopes = scopes       # key -> Scope (shared cache)
        self.memo = {}

    def scope(self, key):
        if key not in self.scopes:
            if key not in self.c.hir:
                return None
            self.scopes[key] = Scope(self.c.hir[key])
        return self.scopes[key]

    def _cls(self, path):
        if path in self.escapers:
            return "escaped"
        if any(re.search(r, path) for r in self.RAW):
            return "raw"
        if any(re.search(r, path) for r in self.NEUTRAL):
            return "neutral"
        return None

    def flow(self, scope, binder, seen=None):
        """-> list of (class, function key, consuming callee or construct, node, extra)"""
        seen = seen if seen is not None else set()
        tag = (scope.key, id(binder.pat))
        if tag in seen:
            return []
        seen.add(tag)
        out = []
        for u in binder.uses:
            p, child = consumer(scope, u)
            if p is None:
                out.append(("unknown", scope.key, "function result", u, None))
                continue
            k = p.get("k")
            if k == "bin" and p.get("op") in ("Eq", "Ne", "Lt", "Le", "Gt", "Ge"):
                out.append(("neutral", scope.key, "comparison", p, None))
                continue
            if k in ("semi",):
                out.append(("neutral", scope.key, "discarded", p, None))
                continue
            if k == "slet" and p.get("init") is child:
                bs = [b for b in scope.binders if b.ctx is p]
                if len(bs) == 1:
                    out.extend(self.flow(scope, bs[0], seen))
                    continue
                out.append(("unknown", scope.key, "destructuring let", p, None))
                continue
            if k in ("call", "mcall"):
                cp = callee(p) or ""
                if k == "call" and not isinstance(p.get("callee"), dict):
                    out.append(("unknown", scope.key, "indirect call", p, None))
                    continue
                if k == "mcall" and p.get("recv") is child:
                    idx = 0
                    role = "receiver"
                else:
                    args = p.get("args", [])
                    pos = [i for i, a in enumerate(args) if a is child]
                    if not pos:
                        out.append(("unknown", scope.key, cp, p, None))
                        continue
                    idx = pos[0] + (1 if k == "mcall" else 0)
                    role = f"argument {pos[0]}"
                cls = self._cls(cp)
                if cls:
                    out.append((cls, scope.key, cp, p, role))
                    continue
                if cp.startswith(BIND) and cp in self.c.hir and self.c.hir[cp]["kind"] in ("Fn", "AssocFn"):
                    sub = self.scope(cp)
                    if sub is not None and idx < len(sub.params) and len(sub.params[idx]) == 1:
                        out.extend(self.flow(sub, sub.params[idx][0], seen))
                        continue
                out.append(("unknown", scope.key, cp, p, role))
                continue
            out.append(("unknown", scope.key, f"`{k}` expression", p, None))
        return out


def arm_binders(scope, match, arm):
    """binders introduced by the pattern of one match arm"""
    pats = [x for x, _ in pat_binds(arm["pat"])]
    return [b for b in scope.binders if b.ctx is match and any(b.pat is x for x in pats)]


def var_binders(scope):
    """bindings of the name inside a `TypeInner::Var(..)` pattern"""
    return [b for b in scope.binders if b.under and b.under[-1] == TI + "Var" and b.kind in ("arm", "iflet", "let")]


def iteration_binders(scope):
    """string-typed closure parameters and for-loop variables (the iteration variables of a definition printer)"""
    out = []
    for b in scope.binders:
        if b.ty not in STRINGY:
            continue
        if b.kind == "closure" and scope.closure_source(b) is not None:
            out.append(b)
        elif b.kind == "arm" and scope.for_source(b) is not None:
            out.append(b)
    return out


# --------------------------------------------------------------------------- format! templates
def decode_fmt_template(bs):
    """rustc's compact format_args template (library/core/src/fmt/mod.rs): a sequence of
       0x01..0x7f = literal piece of that length | 0x80 = literal with u16 length | 0xc0|bits = placeholder
       (bit0 flags:u32, bit1 width:u16, bit2 precision:u16, bit3 argument index:u16 follow) | 0x00 = end.
       -> list of ('lit', text) / ('arg', index)"""
    out = []
    i = 0
    nxt = 0
    bs = list(bs)
    while i < len(bs):
        b = bs[i]
        i += 1
        if b == 0:
            return out
        if b < 0x80:
            out.append(("lit", bytes(bs[i:i + b]).decode("utf-8", "replace")))
            i += b
        elif b == 0x80:
            n = bs[i] | (bs[i + 1] << 8)
            i += 2
            out.append(("lit", bytes(bs[i:i + n]).decode("utf-8", "replace")))
            i += n
        elif b & 0xC0 == 0xC0:
            opts = b & 0x3F
            if opts & ~0x0F:
                raise AnchorMissing(f"unknown placeholder byte {b:#x} in a format_args template")
            if opts & 1:
                i += 4
            if opts & 2:
                i += 2
            if opts & 4:
                i += 2
            if opts & 8:
                nxt = bs[i] | (bs[i + 1] << 8)
                i += 2
            out.append(("arg", nxt))
            nxt += 1
        else:
            raise AnchorMissing(f"unknown byte {b:#x} in a format_args template")
    raise AnchorMissing("format_args template without terminator")


def format_site(node):
    """for a `core::fmt::Arguments::new*` call: -> (pieces, [argument expressions]) ; None when not a format site"""
    if node.get("k") != "call" or not re.search(r"^core::fmt::Arguments::<.*>::(new|from_str|new_const|new_v1)", callee(node) or ""):
        return None
    a0 = node["args"][0] if node["args"] else None
    while isinstance(a0, dict) and a0.get("k") in ("ref", "block"):
        a0 = a0["e"]
    tmpl = None
    if isinstance(a0, dict) and a0.get("k") == "lit":
        v = a0["v"]
        if "bytes" in v:
            tmpl = decode_fmt_template(v["bytes"])
        elif "str" in v:
            tmpl = [("lit", v["str"])]
    if tmpl is None:
        raise AnchorMissing("format_args call whose template is not a literal")
    return tmpl


def format_args_of(scope, node):
    """the user expressions behind `args.N` of a format site: walks up to the enclosing block that binds
    `let args = (&a, &b); let args = [Argument::new_display(args.0), ..]`"""
    blk = None
    for a in scope.ancestors(node):
        if a.get("k") == "block" and any(st.get("k") == "slet" for st in a.get("stmts") or []):
            blk = a
            break
    if blk is None:
        return []
    lets = [st for st in blk["stmts"] if st.get("k") == "slet"]
    tup = None
    arr = None
    for st in lets:
        ini = st.get("init")
        while isinstance(ini, dict) and ini.get("k") == "ref":
            ini = ini["e"]
        if isinstance(ini, dict) and ini.get("k") == "tup":
            tup = ini["es"]
        elif isinstance(ini, dict) and ini.get("k") == "array":
            arr = ini["es"]
    if tup is None or arr is None:
        return []
    out = []
    for el in arr:
        idx = None
        for x in walk(el):
            if x.get("k") == "field" and str(x.get("n")).isdigit():
                idx = int(x["n"])
        e = tup[idx] if idx is not None and idx < len(tup) else None
        while isinstance(e, dict) and e.get("k") == "ref":
            e = e["e"]
        out.append(e)
    return out


# --------------------------------------------------------------------------- flattening doc expressions
DOC_TEXT = re.compile(r"^(candid::pretty::utils::str|pretty::RcDoc::<.*>::text|pretty::Doc::<.*>::text)$")
DOC_BREAK = re.compile(r"^pretty::RcDoc::<.*>::(hardline|line|line_|softline|softline_)$")
DOC_NONE = re.compile(r"^pretty::RcDoc::<.*>::(nil|space)$")
DOC_SEQ = re.compile(r"^(candid::pretty::utils::(lines|concat|strict_concat)|pretty::RcDoc::<.*>::(concat|intersperse))$")
DOC_ENCLOSE = re.compile(r"^candid::pretty::utils::(enclose|enclose_space)$")


class Flat:
    def __init__(self, crates, scope):
        self.crates = crates
        self.scope = scope

    def const(self, path):
        for c in self.crates:
            h = c.hir.get(path)
            if h and h["kind"] in ("Const", "Static"):
                v = lit_value(h["body"])
                if isinstance(v, str):
                    return v
        return None

    def flat(self, e, depth=0):
        if not isinstance(e, dict) or depth > 12:
            return [("expr", e)]
        k = e.get("k")
        if k == "lit":
            v = e["v"]
            if "str" in v:
                return [("lit", v["str"])]
            if "char" in v:
                return [("lit", v["char"])]
            return [("lit", str(list(v.values())[0]))]
        if k in ("ref", "cast"):
            return self.flat(e["e"], depth)
        if k == "un" and e.get("op") == "Deref":
            return self.flat(e["a"], depth)
        if k == "block":
            return self.flat(e["e"], depth) if e.get("e") else []
        if k == "path":
            r = e.get("res") or {}
            if r.get("kind") in ("Const", "Static"):
                v = self.const(r["path"])
                return [("lit", v)] if v is not None else [("expr", e)]
            if r.get("kind") == "Local":
                b = self.scope.binder_of(e)
                if b is not None and b.kind == "let" and b.init is not None:
                    return self.flat(b.init, depth + 1)
            return [("expr", e)]
        if k == "call":
            cp = callee(e) or ""
            a = e.get("args", [])
            if DOC_TEXT.match(cp) and len(a) == 1:
                return self.flat(a[0], depth)
            if cp == "candid::pretty::utils::kwd" and len(a) == 1:
                return self.flat(a[0], depth) + [("lit", " ")]
            if DOC_ENCLOSE.match(cp) and len(a) == 3:
                return self.flat(a[0], depth) + self.flat(a[1], depth) + self.flat(a[2], depth)
            if DOC_BREAK.match(cp):
                return [("break",)]
            if DOC_NONE.match(cp):
                return []
            if DOC_SEQ.match(cp) and a:
                out = self.flat_iter(a[0], depth)
                for s in a[1:]:
                    out += self.flat(s, depth)
                return out + [("break",)] if cp.endswith("::lines") else out
            if cp == "alloc::fmt::format" and a:
                return self.flat_format(a[0], depth)
            if cp == "core::hint::must_use" and len(a) == 1:
                return self.flat(a[0], depth)
            return [("expr", e)]
        if k == "mcall":
            m = e["m"]
            cp = e.get("callee") or ""
            if m == "append" and cp.startswith("pretty::"):
                return self.flat(e["recv"], depth) + self.flat(e["args"][0], depth)
            if m in ("nest", "group", "pretty") and cp.startswith("pretty::"):
                return self.flat(e["recv"], depth)
            if m == "flat_alt" and cp.startswith("pretty::"):
                return self.flat(e["recv"], depth)
            if m in TRANSPARENT_M:
                inner = self.flat(e["recv"], depth)
                return inner
            return [("expr", e)]
        return [("expr", e)]

    def flat_iter(self, x, depth):
        """pieces one element of an iterator of docs contributes (the closure of the last `.map`)"""
        cur = x
        for _ in range(12):
            if not isinstance(cur, dict):
                break
            k = cur.get("k")
            if k == "path" and (cur.get("res") or {}).get("kind") == "Local":
                b = self.scope.binder_of(cur)
                if b is not None and b.kind == "let" and b.init is not None:
                    cur = b.init
                    continue
                break
            if k == "mcall" and cur["m"] == "map" and cur.get("args"):
                f = cur["args"][0]
                if f.get("k") == "closure":
                    return self.flat(f["body"], depth + 1)
                return [("expr", cur)]
            if k == "mcall" and cur["m"] in ("into_iter", "iter", "collect", "peekable", "rev", "enumerate", "cloned"):
                cur = cur["recv"]
                continue
            if k in ("ref", "block"):
                cur = cur["e"] if cur.get("e") else None
                continue
            if k == "array":
                out = []
                for el in cur["es"]:
                    out += self.flat(el, depth + 1)
                return out
            break
        return [("expr", x)]

    def flat_format(self, blk, depth):
        site = None
        for n in walk(blk):
            if n.get("k") == "call" and re.search(r"^core::fmt::Arguments::", callee(n) or ""):
                site = n
                break
        if site is None:
            return [("expr", blk)]
        tmpl = format_site(site)
        args = format_args_of(self.scope, site)
        out = []
        for kind, v in tmpl:
            if kind == "lit":
                out.append(("lit", v))
            else:
                e = args[v] if v < len(args) else None
                out += self.flat(e, depth + 1) if e is not None else [("expr", None)]
        return out


def doc_roots(scope):
    """maximal doc-building expressions of a function: `append` chains and `format!` results that are not
    themselves part of a larger chain"""
    hir = scope.hir
    cands = []
    for n in walk(hir["body"]):
        if n.get("k") == "mcall" and n["m"] == "append" and (n.get("callee") or "").startswith("pretty::"):
            cands.append(n)
        elif n.get("k") == "call" and (callee(n) or "") == "alloc::fmt::format":
            cands.append(n)
    cset = {id(n) for n in cands}
    roots = []
    for n in cands:
        cur = n
        inner = False
        while True:
            p = scope.parent.get(id(cur))
            if p is None:
                break
            k = p.get("k")
            if id(p) in cset:
                inner = True
                break
            if k in ("ref", "cast", "block") or (k == "un" and p.get("op") == "Deref"):
                if k == "block" and p.get("e") is not cur:
                    break
                cur = p
                continue
            if k == "call" and (DOC_TEXT.match(callee(p) or "") or DOC_ENCLOSE.match(callee(p) or "")
                                or (callee(p) or "") == "candid::pretty::utils::kwd"):
                cur = p
                continue
            if k == "mcall" and p.get("recv") is cur and (p["m"] in TRANSPARENT_M or p["m"] in ("nest", "group", "pretty")):
                cur = p
                continue
            break
        if not inner:
            roots.append(n)
    return roots


class Ctx:
    """scan a piece list, yielding the non-literal pieces that stand inside quotes or comments"""

    def __init__(self, quotes, line_comment=("//",), block=("/*", "*/")):
        self.quotes = quotes
        self.lc = line_comment
        self.block = block

    def scan(self, pieces):
        """-> (findings [(context, quote char, piece)], unbalanced quote or None)"""
        q = None
        line = False
        blk = False
        out = []
        for p in pieces:
            if p[0] == "break":
                line = False
                continue
            if p[0] == "expr":
                if blk:
                    out.append(("block-comment", None, p[1]))
                elif line:
                    out.append(("line-comment", None, p[1]))
                elif q:
                    out.append(("quote", q, p[1]))
                continue
            s = p[1]
            i = 0
            while i < len(s):
                ch = s[i]
                if blk:
                    if s.startswith(self.block[1], i):
                        blk = False
                        i += len(self.block[1])
                        continue
                elif line:
                    if ch == "\n":
                        line = False
                elif q:
                    if ch == "\\" and i + 1 < len(s):
                        i += 2
                        continue
                    if ch == q:
                        q = None
                else:
                    if s.startswith(self.block[0], i):
                        blk = True
                        i += len(self.block[0])
                        continue
                    if any(s.startswith(x, i) for x in self.lc):
                        line = True
                    elif ch in self.quotes:
                        q = ch
                i += 1
        return out, q


# --------------------------------------------------------------------------- handlebars templates
MUSTACHE = re.compile(r"\{\{\{?(.*?)\}?\}\}", re.S)


def scan_template(text, quotes='"'):
    """-> list of dicts {ctx: quote|line-comment|code, expr, block: [enclosing #each/#if expressions]} for every
    emitting mustache of a handlebars template (block helpers and {{else}} emit nothing)"""
    out = []
    pos = 0
    q = None
    line = False
    line_mustaches = []
    stack = []
    for m in MUSTACHE.finditer(text):
        seg = text[pos:m.start()]
        pos = m.end()
        i = 0
        while i < len(seg):
            ch = seg[i]
            if ch == "\n":
                line = False
                line_mustaches = []
            elif line:
                pass
            elif q:
                if ch == "\\" and i + 1 < len(seg) and q != "raw":
                    i += 2
                    continue
                if ch == '"':
                    q = None
            else:
                if seg.startswith("//", i):
                    line = True
                elif ch in quotes:
                    q = "raw" if re.search(r"r#*$", seg[:i]) else '"'
            i += 1
        expr = m.group(1).strip()
        if expr.startswith("#"):
            stack.append(expr[1:].strip())
            continue
        if expr.startswith("/"):
            if stack:
                stack.pop()
            continue
        if expr in ("else", "^") or expr.startswith("else ") or expr.startswith("!"):
            continue
        ctx = "quote" if q else ("line-comment" if line else "code")
        out.append({"ctx": ctx, "expr": expr, "block": list(stack), "line_prefix": list(line_mustaches), "pos": m.start()})
        line_mustaches.append(expr)
    return out


# --------------------------------------------------------------------------- reachability over MIR bodies
def _refs(j, acc):
    if isinstance(j, dict):
        for k, v in j.items():
            if k in ("fn", "res") and isinstance(v, str):
                acc.add(v)
            elif isinstance(v, (dict, list)):
                _refs(v, acc)
    elif isinstance(j, list):
        for v in j:
            _refs(v, acc)


def reachable_bodies(crates, entries):
    """MIR bodies (of the given crates) reachable from the entry keys: direct and resolved callees, function items
    used as values, closures of reachable bodies; unresolved calls of a workspace trait method reach every impl"""
    keys = {}
    for c in crates:
        for k, b in c.bodies.items():
            keys.setdefault(k, b)
    children = {}
    for k, b in keys.items():
        if b.parent:
            children.setdefault(b.parent, []).append(k)
    impls = {}
    for k in keys:
        m = re.match(r"^<(.*) as ([^<>]*(?:<.*>)?)>::(\w+)$", k)
        if m:
            tr = re.sub(r"<.*$", "", m.group(2))
            impls.setdefault((tr, m.group(3)), []).append(k)
    seen = set()
    todo = [e for e in entries]
    for e in entries:
        if e not in keys:
            raise AnchorMissing(f"entry point {e} has no MIR body")
    while todo:
        k = todo.pop()
        if k in seen:
            continue
        seen.add(k)
        b = keys[k]
        refs = set()
        _refs(b.j.get("blocks"), refs)
        for r in refs:
            if r in keys:
                todo.append(r)
            else:
                m = re.match(r"^(.*)::(\w+)$", r)
                if m and (m.group(1), m.group(2)) in impls and m.group(1).startswith(("candid::", "candid_parser::")):
                    todo.extend(impls[(m.group(1), m.group(2))])
                elif r in ("alloc::string::ToString::to_string", "<T as alloc::string::ToString>::to_string", "alloc::fmt::format"):
                    todo.extend(k2 for k2 in impls.get(("core::fmt::Display", "fmt"), []) if k2.startswith("<candid::types::"))
        todo.extend(children.get(k, []))
    return {k: keys[k] for k in seen}


# --------------------------------------------------------------------------- misc
def enum_arm_cover(match, all_variants, prefix):
    """per arm of a match on an enum: the set of variants it decides (a wildcard or binding takes what is left)"""
    from facts import pat_alternatives, pat_head
    left = list(all_variants)
    rows = []
    for a in match["arms"]:
        heads = set()
        wild = False
        for alt in pat_alternatives(a["pat"]):
            h = pat_head(alt)
            if isinstance(h, str) and h.startswith(prefix):
                heads.add(h[len(prefix):])
            elif h == "_":
                wild = True
        cov = set(left) if wild else {h for h in heads if h in left}
        if not a.get("guard"):
            left = [v for v in left if v not in cov]
        rows.append({"arm": a, "covers": cov, "wild": wild, "guard": a.get("guard")})
    return rows, left


def is_panic(node):
    """panic-family macro call: -> macro name or None"""
    if not isinstance(node, dict):
        return None
    n = node
    while n.get("k") == "block" and not n.get("stmts") and n.get("e"):
        n = n["e"]
    if n.get("k") == "block" and len(n.get("stmts") or []) == 1 and not n.get("e"):
        st = n["stmts"][0]
        n = st["e"] if st.get("k") == "semi" else st
        while isinstance(n, dict) and n.get("k") == "block" and not n.get("stmts") and n.get("e"):
            n = n["e"]
        if isinstance(n, dict) and n.get("k") == "block" and len(n.get("stmts") or []) == 1:
            st = n["stmts"][0]
            n = st["e"] if st.get("k") == "semi" else st
    if isinstance(n, dict) and n.get("k") == "call" and re.search(r"^core::panicking::", callee(n) or ""):
        for m in n.get("mac") or []:
            if m in ("unreachable", "panic", "unimplemented", "todo"):
                return m
        return "panic"
    return None


def render(e, depth=0):
    """short human-readable rendering of an expression for messages (never used in keys of known findings)"""
    if not isinstance(e, dict) or depth > 6:
        return "?"
    k = e.get("k")
    if k == "path":
        return short((e.get("res") or {}).get("path") or "?")
    if k == "lit":
        return repr(list(e["v"].values())[0])
    if k in ("ref", "cast"):
        return render(e["e"], depth + 1)
    if k == "un":
        return render(e["a"], depth + 1)
    if k == "field":
        return render(e["e"], depth + 1) + "." + str(e["n"])
    if k == "mcall":
        return f"{render(e['recv'], depth + 1)}.{e['m']}(" + ", ".join(render(a, depth + 1) for a in e.get("args", [])) + ")"
    if k == "call":
        return f"{short(callee(e) or '?')}(" + ", ".join(render(a, depth + 1) for a in e.get("args", [])) + ")"
    if k == "block" and e.get("e"):
        return render(e["e"], depth + 1)
    return f"<{k}>"
