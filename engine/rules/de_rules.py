"""Rules over the decoder's path analysis (decoder.py), shared by C01, C02, C06, C07, C08."""
import re

from facts import AnchorMissing, op_int, op_place, short, term_callee
from decoder import (CTX_FLAGS, CTX_TYPES, READS as READS_RX, STYLE_MARKERS, VISITS as VISITS_RX, Decoder, fn_short, last_field)
from pathflow import simple_local

_cache = {}


def get_decoder(facts):
    k = id(facts)
    if k not in _cache:
        _cache[k] = Decoder(facts)
    return _cache[k]


def ctx_flags(facts):
    """the fast-path flag fields that exist in this build configuration (bignum_vec_fast_path is feature-gated)"""
    st = facts.crate("candid").item("struct", r"candid::de::Deserializer$")
    names = {f["name"] for f in st["variants"][0]["fields"]}
    out = [f for f in CTX_FLAGS if f in names]
    if "text_fast_path" not in out or "primitive_vec_fast_path" not in out:
        raise AnchorMissing(f"Deserializer no longer has the fast-path flag fields {CTX_FLAGS}: found {sorted(names)}")
    return out


def vouched(st):
    return any(x.startswith("V:") for x in st)


def show(st):
    return sorted(x for x in st if not x.startswith("$") and not x.startswith("AF:"))


def site_key(k, s, extra=""):
    return f"{fn_short(k)}:{short(s.name)}{extra}"


def ordinal_keys(items):
    """stable keys for several equal sites in one function: <fn>:<callee>#<n> in block order"""
    out = []
    seen = {}
    for k, eb, s in sorted(items, key=lambda x: (x[0], x[2].block)):
        base = site_key(k, s)
        n = seen.get((base, s.block), None)
        if n is None:
            n = len({b for (bb, b) in seen if bb == base})
            seen[(base, s.block)] = n
        out.append((f"{base}#{n}", k, eb, s))
    return out


# entry-point methods of the decoder whose wire reads must be preceded by tests of both types
READ_EXEMPT = {
    "Deserializer::deserialize_future": "expected type `future` only arises from the wire type itself (untyped skipping); "
                                        "nothing in a user-supplied expected type is coerced to it",
}


def is_decoding_method(k):
    return bool(re.search(r"::deserialize_\w+$", k))


def rule_check_before_read(chk, facts):
    """every wire read of a deserialize_* method happens after both expect_type and wire_type were tested
    (or on the set side of a fast-path marker)"""
    D = get_decoder(facts)
    items = [(k, eb, s) for k, eb, s in D.sites("read") if is_decoding_method(k)]
    n = 0
    by_key = {}
    for key, k, eb, s in ordinal_keys(items):
        by_key.setdefault(key, []).append((k, eb, s))
    for key, lst in sorted(by_key.items()):
        k = lst[0][0]
        chk.analysed(k)
        n += 1
        bad = []
        for _k, eb, s in lst:
            for st in s.states:
                if not (("E" in st and "W" in st) or vouched(st)):
                    bad.append((sorted(eb), show(st)))
        if fn_short(k) in READ_EXEMPT:
            chk.assume(f"{fn_short(k)}: {READ_EXEMPT[fn_short(k)]}")
            chk.ok(key, "reviewed exemption", nontrivial=False)
            continue
        s0 = lst[0][2]
        missing = sorted({x for eb, st in bad for x in ("E", "W") if x not in st})
        names = {"E": "the expected type", "W": "the wire type"}
        chk.expect(not bad, key,
                   f"{fn_short(k)} reads from the wire ({short(s0.name)}) on a path where "
                   f"{' and '.join(names[m] for m in missing) or 'a type'} of the current value was never tested: a value of another wire type "
                   f"would be read at this type (path facts: {bad[:2]})",
                   where=f"rust/candid/src/de.rs:{s0.ln}", ok_detail="both types tested (or fast-path marker set) on every path")
    chk.floor("wire reads in deserialize_* methods", n, 40)


# ---------------------------------------------------------------------------------------------- context freshness
STARTERS = {  # (trait::method) -> which style variants start a new component there ("*" = all that dispatch)
    "SeqAccess::next_element_seed": "*",
    "MapAccess::next_key_seed": "*",
    "MapAccess::next_value_seed": ("Map",),
    "EnumAccess::variant_seed": "*",
}


def style_names(facts):
    st = facts.crate("candid").item("enum", r"candid::de::Style$")
    return [v["name"] for v in st["variants"]]


def rule_context(chk, facts):
    """at every dispatch that starts a new component the decoding context is re-established"""
    D = get_decoder(facts)
    names = style_names(facts)
    FLAGS = ctx_flags(facts)
    n = 0
    found = set()
    for k, eb, s in D.sites("seed"):
        m = re.search(r"Compound<[^>]*> as [\w:]+::(\w+)<[^>]*>>::(\w+)$", k)
        if not m:
            continue
        acc = f"{m.group(1)}::{m.group(2)}"
        if acc not in STARTERS:
            continue
        chk.analysed(k)
        info = D.info(k)
        per_style = {}
        for st in s.states:
            sv = [x for x in st if x.startswith("S:")]
            style = names[int(sv[0][2:])] if sv and int(sv[0][2:]) < len(names) else "?"
            per_style.setdefault(style, []).append(st)
        for style, sts in sorted(per_style.items()):
            if STARTERS[acc] != "*" and style not in STARTERS[acc]:
                continue
            n += 1
            found.add((acc, style))
            key = f"{acc}/{style}"
            problems = []
            for st in sts:
                # types: assigned here, or the text flag was assigned here from a marker known set on this path
                for ty in CTX_TYPES:
                    if f"A:{ty}" in st:
                        continue
                    okv = False
                    for x in st:
                        if x.startswith("AF:") and x.split(":")[1] in CTX_FLAGS:
                            src = x.split(":", 2)[2]
                            if src.startswith("style."):
                                if f"V:{src[6:]}" in st:
                                    okv = True
                            elif f"V#{src}" in st or f"${src}=1" in st:
                                okv = True
                    if not okv:
                        problems.append(f"`{ty}` is not assigned before the dispatch")
                if style == "Map":
                    for fl in FLAGS:
                        if f"A:{fl}" not in st:
                            problems.append(f"fast-path flag `{fl}` is inherited from the previous component "
                                            f"(not assigned in the accessor)")
            problems = sorted(set(problems))
            chk.expect(not problems, key,
                       f"{acc} ({style}): a new component is dispatched with stale decoding context: " + "; ".join(problems)
                       + ". Key and value of a map have different types: a flag or type left over from the other component makes the "
                         "primitive decoders skip their type test or read at the wrong type.",
                       where=f"rust/candid/src/de.rs:{s.ln}",
                       ok_detail="types assigned (or vouched by a flag assigned here); map components assign every flag")
    want = {("SeqAccess::next_element_seed", "Vector"), ("SeqAccess::next_element_seed", "Struct"),
            ("MapAccess::next_key_seed", "Struct"), ("MapAccess::next_key_seed", "Map"),
            ("MapAccess::next_value_seed", "Map"), ("EnumAccess::variant_seed", "Enum")}
    for w in sorted(want - found):
        chk.bad(f"{w[0]}/{w[1]}", f"anchor moved: component starter {w[0]} for Style::{w[1]} not found")
    # Drop for Compound clears all three flags
    cleared = {}
    for k, eb, s in D.sites("flag-assign"):
        if fn_short(k) == "drop" or k.endswith("Drop>::drop"):
            cleared[s.name] = flag_value_class(D, k, s)
    for fl in FLAGS:
        chk.expect(cleared.get(fl) == "cleared", f"Drop for Compound:{fl}",
                   f"Drop for Compound must reset `{fl}` (found {cleared.get(fl)}): a fast-path flag would survive the compound it belongs to "
                   f"and the next sibling value would be decoded without type tests")


def flag_value_class(D, k, s):
    """'cleared' (constant false / None), 'set-const', 'style' (copied from a Style marker), 'computed'"""
    info = D.info(k)
    r = s.extra["rvalue"]
    if r["k"] != "use":
        if r["k"] == "agg":
            return "cleared" if r.get("variant") == "None" else "set-const"
        return "computed"
    o = r["o"]
    if "k" in o and isinstance(o["k"], dict):
        v = o["k"].get("int")
        return "cleared" if v == 0 else "set-const"
    p = op_place(o)
    if p is None:
        return "computed"
    if last_field(p) in STYLE_MARKERS:
        return "style"
    l = p["l"]
    mk = info.markers.get(l)
    if mk and (mk[0] in STYLE_MARKERS):
        return "style"
    root = info.root_of(l)
    ds = info.flow.defs.get(root, [])
    if len(ds) == 1 and ds[0].get("k") == "assign":
        rr = ds[0]["r"]
        if rr["k"] == "agg" and rr.get("variant") == "None":
            return "cleared"
        if rr["k"] == "use" and "k" in rr["o"] and isinstance(rr["o"]["k"], dict) and rr["o"]["k"].get("int") == 0:
            return "cleared"
        if rr["k"] == "use":
            sp = op_place(rr["o"])
            if sp is not None and (last_field(sp) in STYLE_MARKERS):
                return "style"
    mk = info.markers.get(root)
    if mk and mk[0] in STYLE_MARKERS:
        return "style"
    return "computed"


# ---------------------------------------------------------------------------------------------- charging
CHARGE_EXEMPT = {
    "PrimitiveVecAccess/SeqAccess::next_element_seed":
        "bulk-charged: its only construction site is covered by the bulk-charge rule (len * (3 + width) before construction)",
    "PrimitiveElement/Deserializer::deserialize_newtype_struct":
        "the element deserializer of the bulk-charged fast path (built only in PrimitiveVecAccess::next_element_seed): unwrapping a newtype around the "
        "already charged primitive consumes no wire data",
}


def rule_charged(chk, facts):
    """every visitor call / element dispatch is preceded by add_cost on every path, or sits on the set side of a marker"""
    D = get_decoder(facts)
    items = [(k, eb, s) for kind in ("visit", "seed") for k, eb, s in D.sites(kind)]
    by_key = {}
    for key, k, eb, s in ordinal_keys(items):
        by_key.setdefault(key, []).append((k, eb, s))
    n = 0
    for key, lst in sorted(by_key.items()):
        k = lst[0][0]
        chk.analysed(k)
        if fn_short(k) in CHARGE_EXEMPT:
            chk.assume(f"{fn_short(k)}: {CHARGE_EXEMPT[fn_short(k)]}")
            continue
        n += 1
        bad = [(sorted(eb), show(st)) for _k, eb, s in lst for st in s.states if not ("charged" in st or vouched(st))]
        s0 = lst[0][2]
        chk.expect(not bad, key,
                   f"{fn_short(k)} hands a value to the visitor ({short(s0.name)}) on a path that never called add_cost: "
                   f"decoding steps that cost nothing defeat the decoding quota (path facts: {bad[:2]})",
                   where=f"rust/candid/src/de.rs:{s0.ln}", ok_detail="add_cost on every path (or bulk-charged fast path)")
    chk.floor("visitor / seed dispatch sites in de.rs", n, 55)


def rule_bulk(chk, facts):
    """whoever arms a fast path (non-cleared marker into a flag, a Style marker field or PrimitiveVecAccess) has charged
    len * c (c >= 1) on that path"""
    D = get_decoder(facts)
    n = 0
    for k, eb, s in D.sites("agg"):
        info = D.info(k)
        r = s.extra["rvalue"]
        markers = []
        for fname, o in zip(r.get("fields", []), r["ops"]):
            if fname in STYLE_MARKERS or (r["adt"].endswith("PrimitiveVecAccess") and fname == "prim"):
                p = op_place(o)
                if p is not None and not p.get("p"):
                    markers.append((fname, info.root_of(p["l"])))
                elif p is None:
                    markers.append((fname, None))
        if not markers:
            continue
        n += 1
        chk.analysed(k)
        key = f"{fn_short(k)}:{s.name}"
        bad = []
        for st in s.states:
            if "bulk" in st:
                continue
            for fname, root in markers:
                if root is None:
                    continue
                if not (f"K#{root}" in st or f"${root}=0" in st):
                    bad.append((fname, show(st)))
        chk.expect(not bad, key,
                   f"{fn_short(k)} builds {s.name} with a fast-path marker that may be set ({sorted({b[0] for b in bad})}) on a path that "
                   f"has not charged len * c for the elements the fast path will not charge individually",
                   where=f"rust/candid/src/de.rs:{s.ln}", ok_detail="bulk charge (add_cost(len.checked_mul(c>=1))) dominates every armed marker")
    for k, eb, s in D.sites("flag-assign"):
        cls = flag_value_class(D, k, s)
        if cls in ("cleared", "style"):
            continue
        n += 1
        chk.analysed(k)
        key = f"{fn_short(k)}:{s.name}={cls}"
        info = D.info(k)
        p = op_place(s.extra["rvalue"].get("o", {})) if s.extra["rvalue"]["k"] == "use" else None
        root = info.root_of(p["l"]) if p is not None and not p.get("p") else None
        bad = []
        for st in s.states:
            if "bulk" in st:
                continue
            if root is not None and (f"K#{root}" in st or f"${root}=0" in st):
                continue
            bad.append(show(st))
        chk.expect(not bad, key,
                   f"{fn_short(k)} sets fast-path flag `{s.name}` on a path that has not charged len * c: elements decoded under the flag "
                   f"skip their per-element charge, so they would be free",
                   where=f"rust/candid/src/de.rs:{s.ln}", ok_detail="bulk charge precedes arming the flag")
    chk.floor("fast-path arming sites", n, 3)


def rule_flag_sources(chk, facts):
    """a fast path is armed only after both the expected and the wire component type were tested on that path"""
    D = get_decoder(facts)
    n = 0
    sites = []
    for k, eb, s in D.sites("agg"):
        r = s.extra["rvalue"]
        if any(f in STYLE_MARKERS for f in r.get("fields", [])) or r["adt"].endswith("PrimitiveVecAccess"):
            sites.append((k, s, f"{fn_short(k)}:{s.name}"))
    for k, eb, s in D.sites("flag-assign"):
        if flag_value_class(D, k, s) not in ("cleared", "style"):
            sites.append((k, s, f"{fn_short(k)}:{s.name}"))
    for k, s, key in sites:
        n += 1
        bad = [show(st) for st in s.states if not ("E" in st and "W" in st)]
        chk.expect(not bad, key,
                   f"{fn_short(k)} arms a fast path ({s.name}) on a path where the expected and the wire type were not both tested",
                   where=f"rust/candid/src/de.rs:{s.ln}")
    chk.floor("fast-path arming sites", n, 3)


# ---------------------------------------------------------------------------------------------- recursion guard
GUARD_EXEMPT = {
    "Deserializer/Deserializer::deserialize_newtype_struct":
        "consumes no type constructor: a cycle made only of newtypes has a vacuous Knot type, rejected by trace_type_with_depth before dispatch",
    "PrimitiveElement/Deserializer::deserialize_newtype_struct":
        "wraps one fixed-width primitive of the fast path: the chain of newtype structs around it is as long as the Rust type says (it ends at the "
        "primitive's own Deserialize impl), not as long as the message says",
}
REENTRANT_VISITS = ("visit_seq", "visit_map", "visit_enum", "visit_some", "visit_newtype_struct")


def rule_guard(chk, facts):
    """every re-entrant visitor call of the decoder is made while a DepthGuard is live"""
    D = get_decoder(facts)
    n = 0
    items = [(k, eb, s) for k, eb, s in D.sites("visit") if short(s.name) in REENTRANT_VISITS]
    by_key = {}
    for key, k, eb, s in ordinal_keys(items):
        by_key.setdefault(key, []).append((k, eb, s))
    for key, lst in sorted(by_key.items()):
        k = lst[0][0]
        chk.analysed(k)
        if fn_short(k) in GUARD_EXEMPT:
            chk.assume(f"{fn_short(k)}: {GUARD_EXEMPT[fn_short(k)]}")
            continue
        n += 1
        bad = [(sorted(eb), show(st)) for _k, eb, s in lst for st in s.states if "guard" not in st]
        s0 = lst[0][2]
        chk.expect(not bad, key,
                   f"{fn_short(k)} re-enters the deserializer through {short(s0.name)} on a path where no DepthGuard is live "
                   f"(guard not taken, bound to `_`, or dropped before the call): nesting depth is then unbounded and a deeply nested "
                   f"message overflows the stack",
                   where=f"rust/candid/src/de.rs:{s0.ln}", ok_detail="DepthGuard live on every path")
    chk.floor("re-entrant visitor calls in de.rs", n, 7)
    # Compound (the accessor that re-enters) is only ever constructed under a live guard
    m = 0
    for k, eb, s in D.sites("agg"):
        if not s.name.startswith("Style::"):
            continue
        m += 1
        bad = [show(st) for st in s.states if "guard" not in st]
        chk.expect(not bad, f"{fn_short(k)}:{s.name}:guarded-construction",
                   f"{fn_short(k)} constructs a Compound accessor ({s.name}) without a live DepthGuard",
                   where=f"rust/candid/src/de.rs:{s.ln}")
    chk.floor("Compound constructions", m, 5)


# ---------------------------------------------------------------------------------------------- type aliases are resolved
def rule_unrolled(chk, facts):
    """every test of the expected / wire type in a deserialize_* routine happens after unroll_type() resolved type
    names (Var / Knot) on that path: otherwise a value whose type is written through a definition is rejected"""
    D = get_decoder(facts)
    items = [(k, eb, s) for k, eb, s in D.sites("typetest") if is_decoding_method(k) or re.search(r"Compound<[^>]*> as ", k)]
    by_fn = {}
    for k, eb, s in items:
        by_fn.setdefault(k, []).append((eb, s))
    UNROLL_EXEMPT = {
        "Compound/VariantAccess::unit_variant":
            "serde calls unit_variant only for a case the Rust side declares without payload; the derive writes that case's type as the "
            "literal `null`, and the untyped visitor chooses `unit` only for a literal `null`; on the wire a type reference always names "
            "a compound table entry, never `null`, so the unresolved comparison cannot reject a well-typed value",
    }
    n = 0
    for k, lst in sorted(by_fn.items()):
        chk.analysed(k)
        if fn_short(k) in UNROLL_EXEMPT:
            chk.assume(f"{fn_short(k)}: {UNROLL_EXEMPT[fn_short(k)]}")
            continue
        n += 1
        bad = []
        for eb, s in lst:
            fields = {"E": "expect_type", "W": "wire_type"}
            for st in s.states:
                for tag in s.name.split("+"):
                    fld = fields[tag]
                    # resolved = unroll_type() ran and the field was not overwritten with an unresolved type since,
                    #            or the field currently holds the result of trace_type
                    ok1 = ("unrolled" in st and f"RAW:{fld}" not in st) or f"TR:{fld}" in st or vouched(st)
                    if not ok1:
                        bad.append((s.ln, show(st)))
        chk.expect(not bad, f"{fn_short(k)}:types-unrolled-before-test",
                   f"{fn_short(k)} tests the expected or wire type on a path where unroll_type() has not been called: a type that is a "
                   f"reference to a definition (Var / Knot) would be compared unresolved and a well-typed value rejected "
                   f"(tests at lines {sorted({b[0] for b in bad})[:4]})", where=f"rust/candid/src/de.rs:{bad[0][0] if bad else ''}",
                   ok_detail="unroll_type() (or a vouching fast-path marker) precedes every type test")
    chk.floor("deserialize_* routines that test types", n, 25)


VISITOR_TABLE = {
    # routine -> visitor methods it may call (serde's contract for the typed routines; the tagged-buffer protocol of C08.R3 for the helpers)
    "deserialize_bool": {"visit_bool"}, "deserialize_byte_buf": {"visit_byte_buf"}, "deserialize_bytes": {"visit_borrowed_bytes"},
    "deserialize_enum": {"visit_enum"}, "deserialize_f32": {"visit_f32"}, "deserialize_f64": {"visit_f64"},
    "deserialize_i8": {"visit_i8"}, "deserialize_i16": {"visit_i16"}, "deserialize_i32": {"visit_i32"}, "deserialize_i64": {"visit_i64"},
    "deserialize_i128": {"visit_i128"}, "deserialize_u8": {"visit_u8"}, "deserialize_u16": {"visit_u16"}, "deserialize_u32": {"visit_u32"},
    "deserialize_u64": {"visit_u64"}, "deserialize_u128": {"visit_u128"}, "deserialize_identifier": {"visit_string", "visit_u32"},
    "deserialize_map": {"visit_map"}, "deserialize_struct": {"visit_map"}, "deserialize_newtype_struct": {"visit_newtype_struct"},
    "deserialize_option": {"visit_none"}, "deserialize_seq": {"visit_seq"}, "deserialize_str": {"visit_borrowed_str"},
    "deserialize_unit": {"visit_unit"}, "deserialize_blob": {"visit_byte_buf"}, "deserialize_function": {"visit_byte_buf"},
    "deserialize_future": {"visit_unit"}, "deserialize_int": {"visit_byte_buf", "visit_i64", "visit_u64"},
    "deserialize_nat": {"visit_byte_buf", "visit_u64"}, "deserialize_principal": {"visit_byte_buf"},
    "deserialize_reserved": {"visit_byte_buf"}, "deserialize_service": {"visit_byte_buf"},
    "recoverable_visit_some": {"visit_none", "visit_some"}, "deserialize_null": {"visit_unit"}, "deserialize_empty": set(),
    "deserialize_text": {"visit_borrowed_str", "visit_string", "visit_str"}, "deserialize_tuple": {"visit_seq"},
    "deserialize_tuple_struct": {"visit_seq"}, "deserialize_unit_struct": {"visit_unit"}, "deserialize_char": set(),
    "deserialize_string": set(), "deserialize_any": set(), "deserialize_ignored_any": set(),
}


def rule_visitor_table(chk, facts):
    """each deserialize_* routine hands the visitor the kind of value the routine is for — a vector is always delivered through visit_seq
    over an accessor that validates every element, never short-circuited into visit_unit / visit_none for a visitor that will not look"""
    D = get_decoder(facts)
    tab = {}
    for k, eb, s in D.sites("visit"):
        tab.setdefault(fn_short(k).rsplit("::", 1)[-1], set()).add(s.name.rsplit("::", 1)[-1])
    n = 0
    for r, got in sorted(tab.items()):
        n += 1
        allowed = VISITOR_TABLE.get(r)
        if allowed is None:
            chk.bad(f"visitor-call:{r}", f"decoder routine {r} calls {sorted(got)} and is not in the reviewed visitor-call table")
            continue
        extra = got - allowed
        chk.expect(not extra, f"visitor-call:{r}",
                   f"{r} hands the visitor {sorted(extra)}; the routine may only call {sorted(allowed)} (a shortcut that answers for the visitor "
                   f"without decoding skips the per-element checks of the value, e.g. bool cells being 0 or 1)",
                   ok_detail=f"calls {sorted(got)}")
    chk.floor("decoder routines that call the visitor", n, 30)


def rule_mismatch_is_subtype_error(chk, facts):
    """a value whose wire type does not fit the expected type is reported with Error::Subtype — the one error kind the `opt` rule recovers
    from (`opt t` reads as null when the value does not coerce).  A mismatch reported as a plain message makes `Option<T>` fail where the
    untyped decoder returns null."""
    D = get_decoder(facts)
    n = 0
    seen = set()
    for k, eb, s in D.sites("typetest"):
        if (k, s.block) in seen:
            continue
        seen.add((k, s.block))
        b = D.bodies[k]
        t = s.term
        targets = list(t.get("ts") or []) + ([t["o"]] if t.get("o") is not None else [])
        n += 1
        plain = []
        for tgt in targets:
            cur, steps = tgt, 0
            consts = {}
            kind = None
            while cur is not None and steps < 24 and kind is None:
                blk = b.blocks[cur]
                steps += 1
                for st in blk["s"]:
                    if st["k"] == "assign" and st["r"].get("k") == "agg" and st["r"].get("variant") in ("Subtype", "Custom"):
                        kind = kind or st["r"]["variant"]
                    if st["k"] == "assign" and not st["p"].get("p"):
                        v = op_int(st["r"]["o"]) if st["r"].get("k") == "use" else None
                        if v is not None:
                            consts[st["p"]["l"]] = v
                        else:
                            consts.pop(st["p"]["l"], None)
                tt = blk["t"]
                if tt["k"] == "switch":
                    dpl = op_place(tt["d"])
                    if dpl is not None and not dpl.get("p") and dpl["l"] in consts:
                        v = consts[dpl["l"]]
                        cur = tt["ts"][tt["vals"].index(v)] if v in tt["vals"] else tt.get("o")
                        continue
                    break
                if tt["k"] == "call":
                    d, r = term_callee(tt)
                    nm = r or d or ""
                    if re.search(r"error::Error::subtype$", nm):
                        kind = "Subtype"
                    elif re.search(r"error::Error::msg$", nm):
                        # de.rs's own assert! (an internal-consistency test on the *expected* type, "please file a bug") is not a mismatch report
                        kind = "internal" if any("assert" in str(m_) for m_ in (tt.get("mac") or [])) else "msg"
                    elif re.search(r"(READ|VISIT)", "") or READS_RX.search(nm) or VISITS_RX.search(nm) or nm.endswith("add_cost"):
                        break          # the branch goes on decoding: not a rejection chain
                    cur = tt.get("t")
                elif tt["k"] in ("goto", "drop", "assert"):
                    cur = tt.get("t")
                else:
                    break
            if kind == "msg":
                plain.append(tgt)
        if fn_short(k).endswith("deserialize_empty"):
            chk.assume("deserialize_empty: a wire value of type `empty` is reported with Error::msg on purpose — no value of that type exists, so "
                       "the message is malformed and must fail even below an opt")
            continue
        chk.expect(not plain, f"{fn_short(k)}:mismatch-is-subtype-error@{s.ln and 'L'}{len([x for x in seen if x[0] == k])}",
                   f"{fn_short(k)} line {s.ln}: a branch taken right after a test of the expected / wire type builds its error with Error::msg: "
                   f"a type mismatch must be an Error::Subtype (check! / Error::subtype), the kind that `opt` recovery turns into null",
                   where=f"rust/candid/src/de.rs:{s.ln}", ok_detail="mismatch branches use Error::Subtype")
    chk.floor("type tests in the decoder inspected for their rejection kind", n, 40)


def rule_raw_field_tests(chk, facts):
    """a type taken from a field list (`e.ty`, `w.ty`: as written in the type table, possibly a reference to a definition) may steer an
    optimisation or a hint without being resolved — the unresolved case then simply takes the general route — but it may not decide a
    rejection: a field whose type is optional only through a type name would be refused"""
    D = get_decoder(facts)
    n = 0
    seen = set()
    for k, eb, s in D.sites("typetest-raw"):
        if (k, s.block) in seen:
            continue
        seen.add((k, s.block))
        b = D.bodies[k]
        n += 1
        t = s.term
        targets = list(t.get("ts") or []) + ([t["o"]] if t.get("o") is not None else [])
        rejecting = []
        for tgt in targets:
            cur, steps, rej = tgt, 0, False
            consts = {}
            while cur is not None and steps < 20:
                blk = b.blocks[cur]
                steps += 1
                for st in blk["s"]:
                    if st["k"] == "assign" and st["r"].get("k") == "agg" and st["r"].get("variant") == "Err":
                        rej = True
                    if st["k"] == "assign" and not st["p"].get("p"):
                        v = op_int(st["r"]["o"]) if st["r"].get("k") == "use" else None
                        if v is not None:
                            consts[st["p"]["l"]] = v
                        else:
                            pl = op_place(st["r"]["o"]) if st["r"].get("k") == "use" else None
                            if pl is not None and not pl.get("p") and pl["l"] in consts:
                                consts[st["p"]["l"]] = consts[pl["l"]]
                            else:
                                consts.pop(st["p"]["l"], None)
                tt = blk["t"]
                if tt["k"] == "switch":
                    # `matches!(..)` materialises a bool and branches on it again: follow the branch the constant selects
                    dpl = op_place(tt["d"])
                    if dpl is not None and not dpl.get("p") and dpl["l"] in consts:
                        v = consts[dpl["l"]]
                        cur = tt["ts"][tt["vals"].index(v)] if v in tt["vals"] else tt.get("o")
                        continue
                if tt["k"] == "call":
                    d, rr = term_callee(tt)
                    if re.search(r"error::Error::(subtype|msg)$|FromResidual", rr or d or ""):
                        rej = True
                    cur = tt.get("t")
                elif tt["k"] in ("goto", "drop", "assert"):
                    cur = tt.get("t")
                else:
                    cur = None
                if rej:
                    break
            if rej:
                rejecting.append(tgt)
        chk.expect(not rejecting, f"{fn_short(k)}:no-rejection-on-unresolved-field-type",
                   f"{fn_short(k)} line {s.ln}: a type read from a field list (not resolved through the type table) is tested and one outcome "
                   f"leads straight to an error: a field whose type is `opt`/`null`/`reserved` only through a type name would be refused; "
                   f"resolve it with trace_type first (as the sibling paths do)", where=f"rust/candid/src/de.rs:{s.ln}",
                   ok_detail="outcomes select a fast path or a hint only")
    chk.floor("tests of unresolved field types in the decoder", n, 3)


# ---------------------------------------------------------------------------------------------- progress
PROGRESS = {("MapAccess::next_key_seed", "Struct"): ("expect_idx", "wire_idx"),
            ("MapAccess::next_key_seed", "Map"): ("len",),
            ("SeqAccess::next_element_seed", "Vector"): ("len",)}


def rule_progress(chk, facts):
    """every dispatch of a compound accessor consumes something: the element counter is decremented, or at least one
    of the two field cursors advances; otherwise the visitor's loop never ends"""
    D = get_decoder(facts)
    names = style_names(facts)
    found = set()
    for k, eb, s in D.sites("seed"):
        m = re.search(r"Compound<[^>]*> as [\w:]+::(\w+)<[^>]*>>::(\w+)$", k)
        if not m:
            continue
        acc = f"{m.group(1)}::{m.group(2)}"
        per_style = {}
        for st in s.states:
            sv = [x for x in st if x.startswith("S:")]
            style = names[int(sv[0][2:])] if sv and int(sv[0][2:]) < len(names) else "?"
            per_style.setdefault(style, []).append(st)
        for style, sts in per_style.items():
            need = PROGRESS.get((acc, style))
            if not need:
                continue
            found.add((acc, style))
            bad = [show(st) for st in sts if not any(f"P:{c}" in st for c in need)]
            chk.expect(not bad, f"{acc}/{style}:progress",
                       f"{acc} ({style}) dispatches a component on a path that neither decrements the element counter nor advances a field "
                       f"cursor ({'/'.join(need)}): the same component would be handed out again forever",
                       where=f"rust/candid/src/de.rs:{s.ln}", ok_detail=f"{'/'.join(need)} updated on every dispatching path")
    for w in sorted(set(PROGRESS) - found):
        chk.bad(f"{w[0]}/{w[1]}:progress", f"anchor moved: dispatch of {w[0]} for Style::{w[1]} not found")
