"""Loading fact files and the small dataflow kit used by every rule (stdlib only)."""
import json
import os
import re
from collections import defaultdict, deque

from extract import extract

CRATE_FILES = {
    "candid": "candid.rlib.json",
    "candid_parser": "candid_parser.rlib.json",
    "candid_derive": "candid_derive.procmacro.json",
    "ic_principal": "ic_principal.rlib.json",
    "didc": "didc.executable.json",
    "witness": "witness.rlib.json",   # only in Facts("witness"): /verif/witness, expands candid's macro_rules!
}


class AnchorMissing(Exception):
    """An anchor (function, field, table) a rule was written against does not exist any more."""


# --------------------------------------------------------------------------- HIR helpers
def walk(node):
    """pre-order iteration over every dict node of a HIR tree"""
    stack = [node]
    while stack:
        n = stack.pop()
        if isinstance(n, dict):
            yield n
            for v in reversed(list(n.values())):
                if isinstance(v, (dict, list)):
                    stack.append(v)
        elif isinstance(n, list):
            for v in reversed(n):
                if isinstance(v, (dict, list)):
                    stack.append(v)


def nodes(node, kind):
    return [n for n in walk(node) if n.get("k") == kind]


def callee(n):
    """resolved callee path of a call/mcall node (or None)"""
    if n.get("k") == "call":
        c = n.get("callee")
        return c.get("path") if isinstance(c, dict) else None
    if n.get("k") == "mcall":
        return n.get("callee")
    return None


def calls(node, name_re=None):
    out = []
    for n in walk(node):
        if n.get("k") in ("call", "mcall"):
            c = callee(n) or ""
            if name_re is None or re.search(name_re, c):
                out.append(n)
    return out


def peel(e):
    """strip wrappers that do not change which value is meant: blocks with only a tail, refs, derefs,
    casts, as_ref/clone/into/borrow/deref calls"""
    while isinstance(e, dict):
        k = e.get("k")
        if k == "block" and not e.get("stmts") and e.get("e"):
            e = e["e"]
        elif k == "ref":
            e = e["e"]
        elif k == "un" and e.get("op") == "Deref":
            e = e["a"]
        elif k == "cast":
            e = e["e"]
        elif k == "mcall" and e.get("m") in ("as_ref", "clone", "into", "borrow", "deref", "as_str",
                                               "to_owned", "as_mut", "borrow_mut", "to_string", "as_slice"):
            e = e["recv"]
        elif k == "call" and (callee(e) or "").endswith(("::deref", "::as_ref", "::clone", "::from", "::into")) and len(e.get("args", [])) == 1:
            e = e["args"][0]
        else:
            break
    return e


def unblock(e):
    """strip only tail-only blocks"""
    while isinstance(e, dict) and e.get("k") == "block" and not e.get("stmts") and e.get("e"):
        e = e["e"]
    return e


def expr_path(e):
    """render a place-like expression as a dotted string: self.de.expect_type ; None if not place-like"""
    e = peel(e)
    if not isinstance(e, dict):
        return None
    k = e.get("k")
    if k == "path":
        r = e.get("res", {})
        return r.get("path")
    if k == "field":
        b = expr_path(e["e"])
        return None if b is None else b + "." + e["n"]
    if k == "index":
        b = expr_path(e["a"])
        return None if b is None else b + "[]"
    return None


def pat_variants(p, acc=None):
    """all resolved variant/struct paths mentioned in a pattern (flattening or/tuple/ref)"""
    acc = [] if acc is None else acc
    if not isinstance(p, dict):
        return acc
    k = p.get("k")
    if k in ("ts", "struct", "path"):
        r = p.get("res")
        if r:
            acc.append(r.get("path"))
    for key in ("subs", "pre", "post"):
        for s in p.get(key, []) or []:
            pat_variants(s, acc)
    if p.get("sub"):
        pat_variants(p["sub"], acc)
    if p.get("mid"):
        pat_variants(p["mid"], acc)
    for f in p.get("fields", []) or []:
        pat_variants(f[1], acc)
    return acc


def pat_alternatives(p):
    """top-level alternatives of a pattern (flatten `a | b`, look through refs/bindings with subpattern)"""
    if not isinstance(p, dict):
        return [p]
    k = p.get("k")
    if k == "or":
        out = []
        for s in p["subs"]:
            out.extend(pat_alternatives(s))
        return out
    if k in ("ref", "deref"):
        return pat_alternatives(p["sub"])
    if k == "bind" and p.get("sub"):
        return pat_alternatives(p["sub"])
    return [p]


def pat_head(p):
    """head constructor of a (non-or) pattern: variant path, '_' for wild/binding, ('lit', v), ('tuple', n)"""
    if not isinstance(p, dict):
        return "_"
    k = p.get("k")
    if k in ("ref", "deref"):
        return pat_head(p["sub"])
    if k == "bind":
        return pat_head(p["sub"]) if p.get("sub") else "_"
    if k in ("ts", "struct", "path"):
        return (p.get("res") or {}).get("path")
    if k == "wild":
        return "_"
    if k == "lit":
        v = p.get("v") or {}
        return ("lit", v.get("int", v.get("str", v.get("char", v.get("bool")))))
    if k == "tuple":
        return ("tuple", len(p.get("subs", [])))
    if k == "range":
        return ("range",)
    return ("other", k)


def short(path):
    """last path segment without generics: candid::types::internal::TypeInner::Nat -> Nat"""
    if not isinstance(path, str):
        return path
    p = re.sub(r"<.*>", "", path)
    return p.rsplit("::", 1)[-1]


def lit_value(e):
    e = peel(e)
    if isinstance(e, dict) and e.get("k") == "lit":
        v = e.get("v") or {}
        for key in ("int", "str", "char", "bool", "float", "big"):
            if key in v:
                return v[key]
        if "bytes" in v:
            return bytes(v["bytes"])
    if isinstance(e, dict) and e.get("k") == "un" and e.get("op") == "Neg":
        v = lit_value(e["a"])
        if isinstance(v, int):
            return -v
    return None


def macro_of(n):
    m = n.get("mac")
    return m or []


# --------------------------------------------------------------------------- MIR helpers
def place_local(p):
    return p["l"]


def place_fields(p):
    """names of the field projections of a place, in order (None for unnamed)"""
    out = []
    for e in p.get("p") or []:
        if isinstance(e, dict) and "f" in e:
            out.append(e.get("n") if e.get("n") is not None else str(e["f"]))
    return out


def op_place(o):
    if "c" in o:
        return o["c"]
    if "m" in o:
        return o["m"]
    return None


def op_const(o):
    return o.get("k") if isinstance(o, dict) and isinstance(o.get("k"), dict) else None


def op_int(o):
    k = op_const(o)
    if k is not None and "int" in k:
        if "big" in k:
            return int(k["big"])
        v = k["int"]
        return int(v) if isinstance(v, str) else v     # ints beyond 2^62 are dumped as strings
    return None


def term_callee(t):
    """(declared callee path, resolved callee path or None) of a call terminator"""
    if t.get("k") not in ("call", "tailcall"):
        return None, None
    k = op_const(t["f"])
    if k is None:
        return None, None
    return k.get("fn"), k.get("res")


class Body:
    def __init__(self, j, crate):
        self.j = j
        self.crate = crate
        self.key = j["key"]
        self.name = j["name"]
        self.blocks = j["blocks"]
        self.locals = j["locals"]
        self.span = j["span"]
        self.impl = j.get("impl")
        self.parent = j.get("parent")
        self._succ = None
        self._pred = None
        self._dom = None

    # locals
    def local_name(self, l):
        return self.locals[l].get("name")

    def local_ty(self, l):
        return self.locals[l]["ty"]

    def place_str(self, p):
        s = self.local_name(p["l"]) or f"_{p['l']}"
        for e in p.get("p") or []:
            if e == "*":
                s = f"(*{s})"
            elif isinstance(e, dict) and "f" in e:
                s = f"{s}.{e.get('n') if e.get('n') is not None else e['f']}"
            elif isinstance(e, dict) and "d" in e:
                s = f"({s} as {e['d']})"
            elif isinstance(e, dict) and "i" in e:
                s = f"{s}[_{e['i']}]"
            else:
                s = f"{s}[..]"
        return s

    # CFG
    def succ(self, b, unwind=False):
        t = self.blocks[b]["t"]
        k = t["k"]
        out = []
        if k == "goto":
            out = [t["t"]]
        elif k == "switch":
            out = list(t["ts"]) + [t["o"]]
        elif k in ("call", "drop", "assert"):
            if t.get("t") is not None:
                out = [t["t"]]
            if unwind and t.get("u") is not None:
                out.append(t["u"])
        return out

    def succs(self, unwind=False):
        return [self.succ(b, unwind) for b in range(len(self.blocks))]

    def preds(self, unwind=False):
        pr = [[] for _ in self.blocks]
        for b in range(len(self.blocks)):
            for s in self.succ(b, unwind):
                pr[s].append(b)
        return pr

    def reachable(self, start=0, unwind=False):
        seen = {start}
        q = deque([start])
        while q:
            b = q.popleft()
            for s in self.succ(b, unwind):
                if s not in seen:
                    seen.add(s)
                    q.append(s)
        return seen

    def dominators(self):
        """dom[b] = set of blocks dominating b (normal edges only)"""
        if self._dom is not None:
            return self._dom
        n = len(self.blocks)
        reach = self.reachable()
        pr = self.preds()
        allb = set(reach)
        dom = {b: set(allb) for b in reach}
        dom[0] = {0}
        order = self.rpo()
        changed = True
        while changed:
            changed = False
            for b in order:
                if b == 0:
                    continue
                ps = [p for p in pr[b] if p in reach]
                if not ps:
                    continue
                new = set.intersection(*(dom[p] for p in ps)) | {b}
                if new != dom[b]:
                    dom[b] = new
                    changed = True
        self._dom = dom
        return dom

    def rpo(self):
        seen = set()
        order = []

        def dfs(b):
            stack = [(b, iter(self.succ(b)))]
            seen.add(b)
            while stack:
                node, it = stack[-1]
                adv = False
                for s in it:
                    if s not in seen:
                        seen.add(s)
                        stack.append((s, iter(self.succ(s))))
                        adv = True
                        break
                if not adv:
                    order.append(node)
                    stack.pop()

        dfs(0)
        order.reverse()
        return order

    def is_cleanup(self, b):
        return bool(self.blocks[b].get("c"))

    def call_sites(self):
        """yield (block index, terminator, callee name used for matching)"""
        for b, blk in enumerate(self.blocks):
            t = blk["t"]
            if t["k"] in ("call", "tailcall"):
                d, r = term_callee(t)
                yield b, t, (r or d)

    def returns(self):
        return [b for b, blk in enumerate(self.blocks) if blk["t"]["k"] == "return"]

    def closures(self):
        return [b for b in self.crate.bodies.values() if b.parent == self.key and b.j["kind"] == "Closure"]

    def with_closures(self):
        out = [self]
        for c in self.closures():
            out.extend(c.with_closures())
        return out


class Crate:
    def __init__(self, j):
        self.j = j
        self.name = j["crate"]
        self.bodies = {}
        for b in j["bodies"]:
            self.bodies[b["key"]] = Body(b, self)
        self.hir = {}
        for h in j["hir"]:
            self.hir.setdefault(h["key"], h)
        self.items = j["items"]
        self.attrs = j["attrs"]

    def body(self, key_re, unique=True):
        rx = re.compile(key_re)
        ms = [b for k, b in self.bodies.items() if rx.search(k)]
        if not ms:
            raise AnchorMissing(f"no MIR body matches /{key_re}/ in crate {self.name}")
        if unique and len(ms) > 1:
            raise AnchorMissing(f"{len(ms)} MIR bodies match /{key_re}/ in crate {self.name}: {[m.key for m in ms][:5]}")
        return ms[0] if unique else ms

    def fn(self, key_re, unique=True):
        rx = re.compile(key_re)
        ms = [h for k, h in self.hir.items() if rx.search(k)]
        if not ms:
            raise AnchorMissing(f"no HIR body matches /{key_re}/ in crate {self.name}")
        if unique and len(ms) > 1:
            raise AnchorMissing(f"{len(ms)} HIR bodies match /{key_re}/ in crate {self.name}: {[m['key'] for m in ms][:5]}")
        return ms[0] if unique else ms

    def method(self, self_ty_re, name, trait_re=None, kind="hir"):
        """function `name` of the impl whose self type matches (and whose trait matches, if given)"""
        rx = re.compile(self_ty_re)
        tx = re.compile(trait_re) if trait_re else None
        src = self.hir.values() if kind == "hir" else [b.j for b in self.bodies.values()]
        ms = []
        for h in src:
            im = h.get("impl")
            if not im or h["name"] != name or not rx.search(im["self_ty"]):
                continue
            if tx is not None and not (im.get("trait") and tx.search(im["trait"])):
                continue
            if tx is None and trait_re == "" and im.get("trait"):
                continue
            ms.append(h)
        if len(ms) != 1:
            raise AnchorMissing(f"{len(ms)} functions `{name}` in impls for /{self_ty_re}/ "
                                f"(trait /{trait_re}/) in crate {self.name}")
        return ms[0] if kind == "hir" else self.bodies[ms[0]["key"]]

    def methods(self, name_re, trait_re=None, self_ty_re=None):
        nx = re.compile(name_re)
        tx = re.compile(trait_re) if trait_re else None
        sx = re.compile(self_ty_re) if self_ty_re else None
        out = []
        for h in self.hir.values():
            im = h.get("impl")
            if not im or not nx.search(h["name"]):
                continue
            if tx is not None and not (im.get("trait") and tx.search(im["trait"])):
                continue
            if sx is not None and not sx.search(im["self_ty"]):
                continue
            out.append(h)
        return out

    def fns(self, key_re):
        rx = re.compile(key_re)
        return [h for k, h in self.hir.items() if rx.search(k)]

    def item(self, kind, key_re):
        rx = re.compile(key_re)
        ms = [i for i in self.items if i["kind"] == kind and rx.search(i.get("key") or i.get("self_ty") or "")]
        if not ms:
            raise AnchorMissing(f"no {kind} item matches /{key_re}/ in crate {self.name}")
        return ms[0]

    def enum_variants(self, key_re):
        return [v["name"] for v in self.item("enum", key_re)["variants"]]

    def attr_item(self, path_re):
        rx = re.compile(path_re)
        ms = [a for a in self.attrs if rx.search(a["path"])]
        if not ms:
            raise AnchorMissing(f"no attribute table for /{path_re}/ in crate {self.name}")
        return ms[0]

    def files(self):
        return sorted({b.span["file"] for b in self.bodies.values()})


class Facts:
    def __init__(self, cfg="all", repo=None, cache=None):
        self.cfg = cfg
        self._repo, self._cache = repo, cache
        self.dir = extract(cfg, repo=repo, cache=cache)
        self._crates = {}

    def crate(self, name):
        if name not in self._crates:
            import fcntl
            from extract import CACHE
            p = os.path.join(self.dir, CRATE_FILES[name])
            # a concurrent re-extraction (another check after /repo changed) rewrites these files under an
            # exclusive lock: read under a shared lock, and re-run the (cached) extraction if the file is gone
            for attempt in range(3):
                lock = open(os.path.join(os.path.dirname(os.path.dirname(self.dir)), "extract.lock"), "a+")
                fcntl.flock(lock, fcntl.LOCK_SH)
                try:
                    if os.path.exists(p):
                        with open(p) as fh:
                            self._crates[name] = Crate(json.load(fh))
                        break
                finally:
                    fcntl.flock(lock, fcntl.LOCK_UN)
                    lock.close()
                self.dir = extract(self.cfg, repo=self._repo, cache=self._cache)
            else:
                raise AnchorMissing(f"fact file for crate {name} missing in cfg {self.cfg}")
        return self._crates[name]
