"""Tables shared by several properties: spec oracle, primitive matrix (DESIGN §4.1), helpers on match tables."""
import os
import re

from extract import REPO
from facts import (unblock, AnchorMissing, callee, calls, expr_path, lit_value, nodes, pat_alternatives, pat_head,
                   peel, short, walk)

TI = "candid::types::internal::TypeInner::"


# --------------------------------------------------------------------------- spec oracle
class Spec:
    def __init__(self, repo=None):
        p = os.path.join(repo or REPO, "spec", "Candid.md")
        if not os.path.exists(p):
            raise AnchorMissing("spec/Candid.md not found")
        self.text = open(p, encoding="utf-8").read()
        self.opcodes = {}
        for m in re.finditer(r"^T\((\w+)(?:[^)]*)\)\s*=\s*sleb128\((-\d+)\)", self.text, re.M):
            self.opcodes.setdefault(m.group(1), int(m.group(2)))
        # reference types are written over two lines: `T(func ...) =\n  sleb128(-22)`
        for m in re.finditer(r"^T\((func|service)\b[^=]*=\s*\n\s*sleb128\((-\d+)\)", self.text, re.M):
            self.opcodes.setdefault(m.group(1), int(m.group(2)))
        self.funcann = {m.group(1): int(m.group(2))
                        for m in re.finditer(r"^T\((\w+)\)\s*=\s*i8\((\d+)\)", self.text, re.M)}
        m = re.search(r"hash\(id\)\s*=\s*\(\s*Sum_\(i=0\.\.k\)\s*utf8\(id\)\[i\]\s*\*\s*(\d+)\^\(k-i\)\s*\)\s*mod\s*2\^(\d+)", self.text)
        if not m:
            raise AnchorMissing("hash formula not found in spec/Candid.md")
        self.hash_mult = int(m.group(1))
        self.hash_bits = int(m.group(2))
        need = {"null", "bool", "nat", "int", "nat8", "nat16", "nat32", "nat64", "int8", "int16", "int32", "int64",
                "float32", "float64", "text", "reserved", "empty", "principal", "opt", "vec", "record", "variant",
                "func", "service"}
        if not need <= set(self.opcodes):
            raise AnchorMissing(f"opcode table in spec incomplete: missing {sorted(need - set(self.opcodes))}")
        if set(self.funcann) != {"query", "oneway", "composite_query"}:
            raise AnchorMissing(f"function annotation table in spec unexpected: {self.funcann}")

    def hash(self, s):
        h = 0
        for b in s.encode("utf-8"):
            h = (h * self.hash_mult + b) % (1 << self.hash_bits)
        return h

    @staticmethod
    def variant_name(spec_name):
        """spec name -> Rust variant name used by TypeInner / Opcode (nat8 -> Nat8, composite_query -> CompositeQuery)"""
        return "".join(p.capitalize() for p in spec_name.split("_"))


PRIM_FIXED = {  # Candid constructor -> (rust type, width in bytes); the names state the widths
    "Bool": ("bool", 1),
    "Nat8": ("u8", 1), "Nat16": ("u16", 2), "Nat32": ("u32", 4), "Nat64": ("u64", 8),
    "Int8": ("i8", 1), "Int16": ("i16", 2), "Int32": ("i32", 4), "Int64": ("i64", 8),
    "Float32": ("f32", 4), "Float64": ("f64", 8),
}


# --------------------------------------------------------------------------- match-table helpers
def heads_of(pat):
    """list of head tuples, one per alternative. (A, B) | (C, _) -> [(A,B),(C,'_')] ; X -> [(X,)]"""
    out = []
    for alt in pat_alternatives(pat):
        if isinstance(alt, dict) and alt.get("k") == "tuple":
            subs = alt["subs"]
            # cartesian product over alternatives of each component
            combos = [()]
            for s in subs:
                hs = [pat_head(a) for a in pat_alternatives(s)]
                combos = [c + (h,) for c in combos for h in hs]
            out.extend(combos)
        else:
            out.append((pat_head(alt),))
    return out


def arm_rows(match):
    rows = []
    for a in match["arms"]:
        rows.append({"heads": heads_of(a["pat"]), "guard": a.get("guard"), "body": a["body"], "pat": a["pat"],
                     "ln": a.get("ln")})
    return rows


def matches_on(fn_hir, sty_re, min_arms=1, src="Normal"):
    rx = re.compile(sty_re)
    return [m for m in nodes(fn_hir["body"], "match")
            if rx.search(m.get("sty", "")) and len(m["arms"]) >= min_arms and (src is None or m.get("src") == src)]


def the_match(fn_hir, sty_re, min_arms=2, first=False):
    ms = matches_on(fn_hir, sty_re, min_arms)
    if not ms:
        raise AnchorMissing(f"no match on /{sty_re}/ with >= {min_arms} arms in {fn_hir['key']}")
    if first:
        return ms[0]   # pre-order: the outermost / earliest match
    return max(ms, key=lambda m: len(m["arms"]))


def variant_paths(node, prefix):
    """resolved paths under `node` that start with prefix (expression paths, ctor calls, struct literals)"""
    out = []
    for n in walk(node):
        r = None
        if n.get("k") == "path":
            r = n.get("res")
        elif n.get("k") == "call":
            r = n.get("callee")
        elif n.get("k") == "struct":
            r = n.get("res")
        if isinstance(r, dict) and isinstance(r.get("path"), str) and r["path"].startswith(prefix):
            out.append(r["path"][len(prefix):])
    return out


def method_calls(node, name_re=None):
    rx = re.compile(name_re) if name_re else None
    return [n for n in walk(node) if n.get("k") == "mcall" and (rx is None or rx.search(n["m"]))]


def is_err_body(body):
    """arm body that only produces an error: `return Err(..)`, `Err(..)`, or the local assert!/check! macros"""
    b = peel(body)
    if not isinstance(b, dict):
        return False
    if b.get("k") == "ret":
        b = peel(b.get("e"))
    if isinstance(b, dict) and b.get("k") == "block":
        # blocks like `{ return Err(..); }`
        st = b.get("stmts") or []
        if len(st) == 1 and not b.get("e"):
            inner = st[0]
            if inner.get("k") == "semi":
                inner = inner["e"]
            return is_err_body(inner)
        if not st and b.get("e"):
            return is_err_body(b["e"])
        return False
    if isinstance(b, dict) and b.get("k") == "call":
        c = callee(b) or ""
        if c.endswith("Result::Err"):
            return True
        if c.endswith("from_residual"):
            return True
    return False


def width_fn_key(c):
    """key of the decoder's width function: the one function of candid::de that takes a PrimitiveType by value and returns usize
    (found by signature, so renaming it is not an event)"""
    keys = [k for k, h in c.hir.items() if k.startswith("candid::de::") and h.get("kind") == "Fn" and len(h.get("params") or []) == 1
            and str((h["params"][0] or {}).get("ty") or "").endswith("de::PrimitiveType")
            and k in c.bodies and c.bodies[k].locals[0]["ty"] == "usize"]
    if len(keys) != 1:
        raise AnchorMissing(f"expected one fn(PrimitiveType) -> usize in candid::de, found {keys}")
    return keys[0]


def with_local_callees(c, h, depth=1, same_file=True):
    """h and the crate-local functions it calls directly (depth levels), each with the call node that reaches it:
    [(fn item, call node or None)].  Lets a rule about `f` survive the extraction of part of f into a private helper."""
    out = [(h, None)]
    seen = {h["key"]}
    frontier = [h]
    for _ in range(depth):
        nxt = []
        for g in frontier:
            for n in walk(g["body"]):
                if n.get("k") in ("call", "mcall"):
                    k = callee(n)
                    if k and k in c.hir and k not in seen and c.hir[k].get("body") is not None \
                            and (not same_file or c.hir[k]["span"]["file"] == h["span"]["file"]):
                        seen.add(k)
                        out.append((c.hir[k], n))
                        nxt.append(c.hir[k])
        frontier = nxt
    return out


def helper_bodies(c, node, max_nodes=150, ret=r"^(bool|core::result::Result<bool, .*>)$"):
    """bodies of the small crate-local *predicates* (return type bool / Result<bool, _>) called under `node`: a test factored out of a
    function into a private helper keeps being seen by the rule about that function"""
    import re as _re
    out, seen = [], set()
    for n in walk(node):
        if n.get("k") in ("call", "mcall"):
            k = callee(n)
            if k and k in c.hir and k not in seen and c.hir[k].get("body") is not None and k in c.bodies:
                seen.add(k)
                if ret and not _re.search(ret, c.bodies[k].locals[0]["ty"]):
                    continue
                body = c.hir[k]["body"]
                if sum(1 for _ in walk(body)) <= max_nodes:
                    out.append(body)
    return out


def scanner_of_infer_rec(cp):
    """the recursive scanner that bindings::analysis::infer_rec runs over each definition body (a nested `fn go` today): found as the
    one crate-local function infer_rec calls that takes a TypeInner-matching walk, so moving or renaming it is not an event"""
    h = cp.fn(r"^candid_parser::bindings::analysis::infer_rec$")
    cands = []
    for n in walk(h["body"]):
        if n.get("k") == "call":
            k = callee(n)
            if k and k in cp.hir and k != h["key"] and k.startswith("candid_parser::bindings::analysis::") and k not in cands:
                cands.append(k)
    if len(cands) != 1:
        raise AnchorMissing(f"infer_rec: expected one local scanner function, found {cands}")
    return cp.hir[cands[0]]


def panics_in(node):
    """macro-level panic family sites under node: list of (macro name, line)"""
    out = []
    seen = set()
    for n in walk(node):
        mac = n.get("mac") or []
        for m in mac:
            if m in ("unreachable", "panic", "unimplemented", "todo", "assert", "assert_eq", "assert_ne",
                     "debug_assert", "debug_assert_eq"):
                key = (m, n.get("ln"))
                if key not in seen:
                    seen.add(key)
                    out.append(key)
    return out


# --------------------------------------------------------------------------- primitive matrix
class Matrix:
    """One extraction of the per-primitive facts; every column is a dict keyed by the Candid constructor
    (or the Rust type) so the rules of C01/C03/C08/C10 compare columns, never text."""

    def __init__(self, facts):
        c = facts.crate("candid")
        self.c = c
        self.problems = []   # anchor-level problems found while extracting
        # (a) Rust type -> (constructor, serializer method, arg cast)
        self.rust_impl = {}
        for h in c.methods(r"^_ty$", r"CandidType$"):
            st = h["impl"]["self_ty"]
            b = unblock(h["body"])
            vs = variant_paths(h["body"], TI)
            if b.get("k") == "mcall" and b["m"] == "into" and unblock(b["recv"]).get("k") == "path" and len(vs) == 1:
                self.rust_impl.setdefault(st, {})["ty"] = vs[0]
        for h in c.methods(r"^idl_serialize$", r"CandidType$"):
            st = h["impl"]["self_ty"]
            if st not in self.rust_impl:
                continue
            ms = [n for n in method_calls(h["body"], r"^serialize_")]
            if len(ms) == 1:
                arg = ms[0]["args"][0] if ms[0]["args"] else None
                cast = arg.get("ty") if isinstance(arg, dict) and arg.get("k") == "cast" else None
                self.rust_impl[st]["ser"] = ms[0]["m"]
                self.rust_impl[st]["cast"] = cast
        # (b) encoder: serialize_<x> of &mut ValueSerializer
        self.encoder = {}
        for h in c.methods(r"^serialize_", r"types::Serializer$", r"ValueSerializer"):
            pty = None
            if len(h["params"]) >= 2:
                pty = h["params"][1].get("ty")
            ws = [n for n in method_calls(h["body"], r"^write_(u|i|f)\d+$")]
            row = {"param": pty, "writes": [(n["m"], "LittleEndian" if any("LittleEndian" in g for g in n.get("ga", [])) else
                                              ("BigEndian" if any("BigEndian" in g for g in n.get("ga", [])) else None))
                                             for n in ws],
                   "calls": [callee(n) or n.get("m") for n in walk(h["body"]) if n.get("k") in ("call", "mcall")]}
            self.encoder[h["name"]] = row
        # (c) bulk width table
        self.bulk = {}
        try:
            h = c.fn(r"types::impls::fixed_primitive_byte_size$")
            for n in nodes(h["body"], "if"):
                tys = []
                # only the condition of this `if`, not nested else-ifs
                for cn in walk(n["c"]):
                    if cn.get("k") == "call" and (callee(cn) or "").endswith("TypeId::of") and cn.get("ga"):
                        tys.append(cn["ga"][0])
                val = None
                t = peel(n["t"])
                if t.get("k") == "call" and (callee(t) or "").endswith("Option::Some"):
                    val = lit_value(t["args"][0])
                for ty in tys:
                    if ty != "T":
                        self.bulk[ty] = val
        except AnchorMissing as e:
            self.problems.append(str(e))
        # (d) decoder methods
        self.decoder = {}
        DE = r"^&mut candid::de::Deserializer"
        for h in c.methods(r"^deserialize_(bool|[iuf]\d+)$", r"de::Deserializer$", DE):
            row = {"fast": None, "expect": set(), "wire": set(), "cost": [], "reads": [], "visit": set()}
            for n in walk(h["body"]):
                if n.get("k") == "bin" and n.get("op") == "Eq":
                    a, b = expr_path(n["a"]), expr_path(n["b"])
                    for side, other in ((a, n["b"]), (b, n["a"])):
                        if side and side.endswith(".primitive_vec_fast_path"):
                            vs = variant_paths(other, "candid::de::PrimitiveType::")
                            row["fast"] = vs[0] if len(vs) == 1 else vs
                        if side and side.endswith(".expect_type"):
                            row["expect"].update(variant_paths(other, TI))
                        if side and side.endswith(".wire_type"):
                            row["wire"].update(variant_paths(other, TI))
                if n.get("k") == "mcall":
                    if n["m"] == "add_cost":
                        row["cost"].append(lit_value(n["args"][0]))
                    elif re.match(r"^read_(u|i|f)\d+$", n["m"]):
                        end = "LittleEndian" if any("LittleEndian" in g for g in n.get("ga", [])) else (
                            "BigEndian" if any("BigEndian" in g for g in n.get("ga", [])) else None)
                        row["reads"].append((n["m"], end))
                    elif n["m"] == "read_bool_val":
                        row["reads"].append(("read_bool_val", None))
                    elif n["m"].startswith("visit_"):
                        row["visit"].add(n["m"])
            self.decoder[h["name"]] = row
        # (e) deserialize_any dispatch
        self.any = {}
        try:
            h = c.method(DE, "deserialize_any", r"de::Deserializer$")
            m = the_match(h, r"TypeInner$", 10)
            self.any_rows = arm_rows(m)
            for r in self.any_rows:
                ms = [n["m"] for n in method_calls(r["body"], r"^deserialize_")]
                for hd in r["heads"]:
                    if isinstance(hd[0], str) and hd[0].startswith(TI):
                        self.any.setdefault(hd[0][len(TI):], []).append({"calls": ms, "guard": r["guard"] is not None})
        except AnchorMissing as e:
            self.problems.append(str(e))
        # (f) exact_primitive_type
        self.exact = {}
        try:
            h = c.fn(r"candid::de::exact_primitive_type$")
            m = the_match(h, r"TypeInner", 3)
            for r in arm_rows(m):
                vs = variant_paths(r["body"], "candid::de::PrimitiveType::")
                for hd in r["heads"]:
                    if len(hd) == 2 and all(isinstance(x, str) and x.startswith(TI) for x in hd):
                        self.exact[(hd[0][len(TI):], hd[1][len(TI):])] = vs[0] if len(vs) == 1 else vs
                    elif vs:
                        self.exact[hd] = vs
        except AnchorMissing as e:
            self.problems.append(str(e))
        # (g) primitive_byte_cost
        self.pcost = {}
        try:
            h = c.hir[width_fn_key(c)]
            m = the_match(h, r"PrimitiveType$", 2)
            for r in arm_rows(m):
                v = lit_value(r["body"])
                for hd in r["heads"]:
                    if isinstance(hd[0], str):
                        self.pcost[short(hd[0])] = v
        except AnchorMissing as e:
            self.problems.append(str(e))
        # (h) PrimitiveVecAccess reconstruction
        self.pva = {}
        try:
            h = c.method(r"PrimitiveVecAccess", "next_element_seed", r"SeqAccess$")
            m = the_match(h, r"PrimitiveType$", 5)
            for r in arm_rows(m):
                fl = [callee(n) for n in calls(r["body"], r"from_(le|be|ne)_bytes$")]
                casts = [n.get("ty") for n in nodes(r["body"], "cast")]
                for hd in r["heads"]:
                    if isinstance(hd[0], str):
                        self.pva[short(hd[0])] = {"from_bytes": fl, "casts": casts,
                                                  "lits": [lit_value(a["pat"]) if False else None for a in []]}
        except AnchorMissing as e:
            self.problems.append(str(e))
        # (i) untyped value columns
        self.value_ty = {}
        self.value_ser = {}
        self.value_visit = {}
        IV = "candid::types::value::IDLValue::"
        try:
            h = c.fn(r"value::IDLValue::value_ty$")
            m = the_match(h, r"IDLValue$", 10)
            for r in arm_rows(m):
                vs = variant_paths(r["body"], TI)
                for hd in r["heads"]:
                    if isinstance(hd[0], str) and hd[0].startswith(IV):
                        self.value_ty[hd[0][len(IV):]] = vs
            h = c.method(r"value::IDLValue$", "idl_serialize", r"CandidType$")
            m = the_match(h, r"IDLValue$", 10)
            for r in arm_rows(m):
                ms = [n["m"] for n in method_calls(r["body"], r"^serialize_")]
                for hd in r["heads"]:
                    if isinstance(hd[0], str) and hd[0].startswith(IV):
                        self.value_ser[hd[0][len(IV):]] = ms
            for h in c.methods(r"^visit_", r"de::Visitor$", r"value::IDLValueVisitor$"):
                self.value_visit[h["name"]] = {"ctor": variant_paths(h["body"], IV),
                                               "param": h["params"][1].get("ty") if len(h["params"]) > 1 else None}
        except AnchorMissing as e:
            self.problems.append(str(e))

    # ------------------------------------------------------------------ column checks
    def check_rust_impls(self, chk):
        """(a): Rust primitive type <-> Candid constructor <-> serializer method"""
        n = 0
        for X, (rt, w) in PRIM_FIXED.items():
            row = self.rust_impl.get(rt)
            n += 1
            want_ser = "serialize_" + X.lower()
            chk.expect(row is not None and row.get("ty") == X and row.get("ser") == want_ser and not row.get("cast"),
                       f"impl:{rt}", f"CandidType for {rt}: expected _ty=TypeInner::{X} and idl_serialize={want_ser}, found {row}",
                       ok_detail=f"{rt} <-> {X} via {want_ser}")
        for rt, X, ser, cast in (("isize", "Int64", "serialize_int64", "i64"), ("usize", "Nat64", "serialize_nat64", "u64"),
                                 ("i128", "Int", "serialize_i128", None), ("u128", "Nat", "serialize_u128", None),
                                 ("alloc::string::String", "Text", "serialize_text", None), ("str", "Text", "serialize_text", None),
                                 ("()", "Null", "serialize_null", None)):
            row = self.rust_impl.get(rt)
            chk.expect(row is not None and row.get("ty") == X and row.get("ser") == ser and row.get("cast") == cast,
                       f"impl:{rt}", f"CandidType for {rt}: expected {X}/{ser}/cast {cast}, found {row}",
                       ok_detail=f"{rt} <-> {X} via {ser}")
        chk.floor("primitive CandidType impls", len([r for r in self.rust_impl.values() if "ser" in r]), 18)

    def check_encoder(self, chk):
        """(b): per-element writer is the little-endian writer of the matching width"""
        for X, (rt, w) in PRIM_FIXED.items():
            if X == "Bool":
                continue
            name = "serialize_" + X.lower()
            row = self.encoder.get(name)
            want = ("write_" + rt, "LittleEndian" if w > 1 else None)
            chk.expect(row is not None and row["param"] == rt and row["writes"] == [want], f"encoder:{name}",
                       f"{name}: expected one call {want} on a parameter of type {rt}, found {row and (row['param'], row['writes'])}",
                       ok_detail=f"{name}({rt}) -> {want[0]}::<{want[1]}>")
        chk.floor("ValueSerializer::serialize_* methods", len(self.encoder), 20)

    def check_bulk(self, chk):
        """(c): raw bulk write width per Rust type equals the per-element width; no other type is bulk-written"""
        want = {rt: w for (rt, w) in PRIM_FIXED.values()}
        for rt, w in sorted(want.items()):
            chk.expect(self.bulk.get(rt) == w, f"bulk:{rt}",
                       f"fixed_primitive_byte_size::<{rt}>: expected {w}, found {self.bulk.get(rt)}",
                       ok_detail=f"{rt} -> {w} bytes")
        for rt in sorted(set(self.bulk) - set(want)):
            chk.bad(f"bulk:{rt}", f"fixed_primitive_byte_size has a row for {rt} (= {self.bulk[rt]}), which is not a fixed-width "
                                  f"Candid primitive written byte-for-byte by its per-element serializer")

    def check_decoder(self, chk):
        """(d),(e),(f),(g),(h): decoder rows"""
        for X, (rt, w) in PRIM_FIXED.items():
            name = "deserialize_" + rt
            row = self.decoder.get(name)
            if row is None:
                chk.bad(f"decoder:{name}", f"{name} not found in the serde::Deserializer impl of &mut Deserializer")
                continue
            want_read = ("read_bool_val", None) if X == "Bool" else ("read_" + rt, "LittleEndian" if w > 1 else None)
            cond = (row["fast"] == X and row["expect"] == {X} and row["wire"] == {X} and row["cost"] == [w]
                    and row["reads"] and all(r == want_read for r in row["reads"]) and row["visit"] == {"visit_" + rt})
            chk.expect(cond, f"decoder:{name}",
                       f"{name}: expected fast-path marker {X}, tests expect_type=={X} and wire_type=={X}, add_cost({w}), "
                       f"reader {want_read}, visit_{rt}; found fast={row['fast']} expect={sorted(row['expect'])} "
                       f"wire={sorted(row['wire'])} cost={row['cost']} reads={row['reads']} visit={sorted(row['visit'])}",
                       ok_detail=f"{X}: both types tested, cost {w}, {want_read[0]}")
            a = self.any.get(X)
            chk.expect(bool(a) and all(r["calls"] == [name] for r in a), f"dispatch:{X}",
                       f"deserialize_any: TypeInner::{X} should dispatch to {name}, found {a}",
                       ok_detail=f"TypeInner::{X} -> {name}")
            chk.expect(self.exact.get((X, X)) == X, f"exact:{X}",
                       f"exact_primitive_type: ({X},{X}) should give PrimitiveType::{X}, found {self.exact.get((X, X))}")
            chk.expect(self.pcost.get(X) == w, f"pcost:{X}", f"primitive_byte_cost({X}) should be {w}, found {self.pcost.get(X)}")
            p = self.pva.get(X)
            if w > 1:
                okp = bool(p) and len(p["from_bytes"]) == 1 and p["from_bytes"][0].endswith("from_le_bytes") and \
                    re.search(r"impl %s>::from_le_bytes$" % rt, p["from_bytes"][0]) is not None
            elif X == "Int8":
                okp = bool(p) and p["casts"] == ["i8"] and not p["from_bytes"]
            else:
                okp = bool(p) and not p["casts"] and not p["from_bytes"]
            chk.expect(okp, f"pva:{X}", f"PrimitiveVecAccess: PrimitiveType::{X} must be rebuilt as {rt} from little-endian "
                                         f"bytes, found {p}", ok_detail=f"{X} -> {rt}")
        # off-diagonal acceptance in the fast-path selector
        for k, v in sorted(self.exact.items(), key=str):
            if isinstance(k, tuple) and len(k) == 2 and k[0] != k[1] and v:
                chk.bad(f"exact:{k[0]},{k[1]}", f"exact_primitive_type accepts the off-diagonal pair {k} -> {v}: "
                                                 f"elements of wire type {k[1]} would be read as {k[0]}")
            elif not (isinstance(k, tuple) and len(k) == 2) and v:
                chk.bad(f"exact:{k}", f"exact_primitive_type has a non-pair arm {k} producing {v}")
        chk.floor("exact_primitive_type diagonal arms", len([k for k in self.exact if isinstance(k, tuple) and len(k) == 2]), 11)

    def check_value(self, chk):
        """(i): IDLValue constructor <-> type <-> serializer <-> visitor"""
        for X, (rt, w) in PRIM_FIXED.items():
            chk.expect(self.value_ty.get(X) == [X], f"value_ty:{X}", f"value_ty: IDLValue::{X} should have type {X}, found {self.value_ty.get(X)}")
            chk.expect(self.value_ser.get(X) == ["serialize_" + X.lower()], f"value_ser:{X}",
                       f"idl_serialize: IDLValue::{X} should call serialize_{X.lower()}, found {self.value_ser.get(X)}")
            v = self.value_visit.get("visit_" + rt)
            chk.expect(bool(v) and v["ctor"] == [X] and v["param"] == rt, f"value_visit:{rt}",
                       f"IDLValueVisitor::visit_{rt} should build IDLValue::{X}, found {v}")
        for X, ty, ser in (("Null", ["Null"], ["serialize_null"]), ("Text", ["Text"], ["serialize_text"]),
                           ("Int", ["Int"], ["serialize_int"]), ("Nat", ["Nat"], ["serialize_nat"]),
                           ("Number", ["Int"], ["serialize_int"]), ("Reserved", ["Reserved"], ["serialize_null"]),
                           ("Principal", ["Principal"], ["serialize_principal"]), ("Blob", ["Vec", "Nat8"], ["serialize_blob"]),
                           ("Func", ["Func"], ["serialize_function"]), ("None", ["Opt", "Empty"], ["serialize_option"]),
                           ("Opt", ["Opt"], ["serialize_option"])):
            chk.expect(self.value_ty.get(X) == ty, f"value_ty:{X}", f"value_ty: IDLValue::{X} should have type {ty}, found {self.value_ty.get(X)}")
            chk.expect(self.value_ser.get(X) == ser, f"value_ser:{X}", f"idl_serialize: IDLValue::{X} should call {ser}, found {self.value_ser.get(X)}")
        chk.expect(set(self.value_ser.get("Service", [])) == {"serialize_principal"}, "value_ser:Service",
                   f"IDLValue::Service must be written as a principal reference, found {self.value_ser.get('Service')}")


# --------------------------------------------------------------------------- format!() templates
def fmt_template(fmt_call):
    """decode a `format!` expansion (`alloc::fmt::format(core::fmt::Arguments::new(<template bytes>, &args))`) into
    [('lit', s) | ('arg', expr)]; None when the encoding is not understood (caller fails closed)"""
    tmpl = None
    for n in walk(fmt_call):
        if n.get("k") == "call" and (callee(n) or "").startswith("core::fmt::Arguments::") and n.get("args"):
            v = lit_value(n["args"][0])
            if isinstance(v, (bytes, str)):
                tmpl = v
                break
    if tmpl is None:
        return None
    # the argument expressions: first `let args = (&a, &b, ..)` tuple
    argv = []
    for s in nodes(fmt_call, "slet"):
        ini = s.get("init")
        if isinstance(ini, dict) and ini.get("k") == "tup":
            argv = [peel(x) for x in ini["es"]]
            break
    out = []
    if isinstance(tmpl, str):        # older encoding: literal pieces with {} inline
        parts = tmpl.split("{}")
        for i, p in enumerate(parts):
            if p:
                out.append(("lit", p))
            if i + 1 < len(parts):
                if i >= len(argv):
                    return None
                out.append(("arg", argv[i]))
        return out
    i = 0
    ai = 0
    b = bytes(tmpl)
    while i < len(b):
        x = b[i]
        if x == 0:
            break
        if x < 0x80:
            out.append(("lit", b[i + 1:i + 1 + x].decode("utf-8", "replace")))
            i += 1 + x
        elif x == 0xC0:
            if ai >= len(argv):
                return None
            out.append(("arg", argv[ai]))
            ai += 1
            i += 1
        else:
            return None
    return out


