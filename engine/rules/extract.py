"""Run the factgen driver over /repo's current working tree (cached by content hash)."""
import fcntl
import hashlib
import json
import os
import shutil
import subprocess
import sys
import time

VERIF = os.path.dirname(os.path.dirname(os.path.dirname(os.path.abspath(__file__))))
REPO = os.environ.get("VERIF_REPO", "/repo")
CACHE = os.environ.get("VERIF_CACHE", os.path.join(VERIF, ".cache"))
DRIVER_DIR = os.path.join(VERIF, "engine", "factgen")
DRIVER = os.path.join(DRIVER_DIR, "target", "debug", "factgen")
MEMBERS = ["candid", "candid_parser", "candid_derive", "ic_principal", "didc", "didc-js"]

# configuration name -> (cargo args, fact files that must be (re)written)
CONFIGS = {
    "all": (["--workspace", "--all-features"],
            ["candid.rlib.json", "candid_parser.rlib.json", "candid_derive.procmacro.json",
             "ic_principal.rlib.json", "didc.executable.json"]),
    "candid-nodefault": (["-p", "candid", "--no-default-features"], ["candid.rlib.json"]),
    "candid-value": (["-p", "candid", "--no-default-features", "--features", "value"],
                     ["candid.rlib.json"]),
    "principal-default": (["-p", "ic_principal"], ["ic_principal.rlib.json"]),
    # the witness crate (/verif/witness, its own workspace, path-depends on the analysed tree): expands candid's
    # macro_rules! type constructors; optional third element = options (run there, its own member list)
    "witness": ([], ["witness.rlib.json"], {"witness": True, "members": ["witness"]}),
}
WITNESS_SRC = os.path.join(VERIF, "witness")


def witness_dir(repo=None, cache=None):
    """Directory to run cargo in for the witness crate: /verif/witness itself when the analysed tree is /repo;
    for any other tree (VERIF_REPO scratch copies) a mirror under <cache>/witness-src whose path dependencies
    point into that tree and whose Cargo.lock is that tree's."""
    repo = os.path.abspath(repo or REPO)
    cache = cache or CACHE
    if repo == "/repo":
        return WITNESS_SRC
    dst = os.path.join(cache, "witness-src")
    os.makedirs(os.path.join(dst, "src"), exist_ok=True)
    toml = open(os.path.join(WITNESS_SRC, "Cargo.toml")).read().replace('"/repo/', '"' + repo + '/')

    def put(path, text):
        if not os.path.exists(path) or open(path).read() != text:
            with open(path, "w") as fh:
                fh.write(text)
    put(os.path.join(dst, "Cargo.toml"), toml)
    for f in os.listdir(os.path.join(WITNESS_SRC, "src")):
        put(os.path.join(dst, "src", f), open(os.path.join(WITNESS_SRC, "src", f)).read())
    if not os.path.exists(os.path.join(dst, "Cargo.lock")):
        shutil.copy(os.path.join(repo, "Cargo.lock"), os.path.join(dst, "Cargo.lock"))
    return dst


def witness_hash():
    h = hashlib.sha256()
    for f in ["Cargo.toml"] + sorted(os.path.join("src", x) for x in os.listdir(os.path.join(WITNESS_SRC, "src"))):
        h.update(f.encode() + b"\0")
        with open(os.path.join(WITNESS_SRC, f), "rb") as fh:
            h.update(fh.read())
    return h.hexdigest()


def env_base():
    e = dict(os.environ)
    e["CARGO_NET_OFFLINE"] = "true"
    e["RUSTUP_TOOLCHAIN"] = "nightly-x86_64-unknown-linux-gnu"
    return e


def sysroot():
    return subprocess.check_output(["rustc", "+nightly", "--print", "sysroot"], text=True).strip()


def ensure_driver(verbose=True):
    srcs = [os.path.join(DRIVER_DIR, "src", f) for f in os.listdir(os.path.join(DRIVER_DIR, "src"))]
    if os.path.exists(DRIVER) and all(os.path.getmtime(DRIVER) >= os.path.getmtime(s) for s in srcs):
        return
    if verbose:
        print("[extract] building factgen driver", file=sys.stderr)
    r = subprocess.run(["cargo", "+nightly", "build", "--offline"], cwd=DRIVER_DIR, env=env_base(),
                       stdout=subprocess.PIPE, stderr=subprocess.STDOUT, text=True)
    if r.returncode != 0:
        print(r.stdout, file=sys.stderr)
        raise SystemExit("factgen driver failed to build")


def tree_hash(repo=None):
    repo = repo or REPO
    h = hashlib.sha256()
    roots = ["rust", "tools", "spec", "Cargo.toml", "Cargo.lock"]
    files = []
    for r in roots:
        p = os.path.join(repo, r)
        if os.path.isfile(p):
            files.append(p)
            continue
        for dp, dns, fns in os.walk(p):
            dns[:] = sorted(d for d in dns if d not in ("target", "node_modules", ".git"))
            for fn in sorted(fns):
                files.append(os.path.join(dp, fn))
    for f in sorted(files):
        h.update(os.path.relpath(f, repo).encode())
        h.update(b"\0")
        try:
            with open(f, "rb") as fh:
                h.update(fh.read())
        except OSError:
            pass
        h.update(b"\0")
    # the driver itself is part of the key
    for f in sorted(os.listdir(os.path.join(DRIVER_DIR, "src"))):
        with open(os.path.join(DRIVER_DIR, "src", f), "rb") as fh:
            h.update(fh.read())
    return h.hexdigest()


def facts_dir(cfg, repo=None, cache=None):
    return os.path.join(cache or CACHE, "facts", cfg)


def extract(cfg="all", repo=None, cache=None, verbose=True):
    """Make sure fact files for `cfg` describe the current tree; returns the facts directory."""
    repo = repo or REPO
    cache = cache or CACHE
    os.makedirs(cache, exist_ok=True)
    ensure_driver(verbose)
    out = facts_dir(cfg, repo, cache)
    os.makedirs(out, exist_ok=True)
    opts = CONFIGS[cfg][2] if len(CONFIGS[cfg]) > 2 else {}
    want = tree_hash(repo) + (witness_hash() if opts.get("witness") else "")
    stamp = os.path.join(out, "HASH")
    lock = open(os.path.join(cache, "extract.lock"), "w")
    fcntl.flock(lock, fcntl.LOCK_EX)
    try:
        if os.path.exists(stamp) and open(stamp).read().strip() == want:
            return out
        args, expected = CONFIGS[cfg][:2]
        members = opts.get("members", MEMBERS)
        cwd = witness_dir(repo, cache) if opts.get("witness") else repo
        target = os.path.join(cache, "target")
        # cargo's freshness cache would skip the wrapper: drop the members' fingerprints
        fp = os.path.join(target, "debug", ".fingerprint")
        if os.path.isdir(fp):
            for d in os.listdir(fp):
                if any(d.startswith(m + "-") or d.startswith(m.replace("-", "_") + "-") for m in members):
                    shutil.rmtree(os.path.join(fp, d), ignore_errors=True)
        for f in expected:
            try:
                os.unlink(os.path.join(out, f))
            except FileNotFoundError:
                pass
        if os.path.exists(stamp):
            os.unlink(stamp)
        e = env_base()
        e["LD_LIBRARY_PATH"] = sysroot() + "/lib" + (":" + e["LD_LIBRARY_PATH"] if e.get("LD_LIBRARY_PATH") else "")
        e["RUSTFLAGS"] = "-Zmir-opt-level=0 -Awarnings"
        e["RUSTC_WORKSPACE_WRAPPER"] = DRIVER
        e["FACTGEN_OUT"] = out
        e["CARGO_TARGET_DIR"] = target
        t0 = time.time()
        if verbose:
            print(f"[extract] cargo +nightly check {' '.join(args)} (cfg={cfg})", file=sys.stderr)
        r = subprocess.run(["cargo", "+nightly", "check", "--offline"] + args, cwd=cwd, env=e,
                           stdout=subprocess.PIPE, stderr=subprocess.STDOUT, text=True)
        if r.returncode != 0:
            print(r.stdout[-6000:], file=sys.stderr)
            raise SystemExit(f"[extract] cargo check failed for cfg={cfg}: the tree does not build")
        missing = [f for f in expected if not os.path.exists(os.path.join(out, f))]
        if missing:
            print(r.stdout[-3000:], file=sys.stderr)
            raise SystemExit(f"[extract] fact files not rewritten (wrapper skipped?): {missing}")
        with open(stamp, "w") as fh:
            fh.write(want)
        if verbose:
            print(f"[extract] done in {time.time() - t0:.1f}s", file=sys.stderr)
        return out
    finally:
        fcntl.flock(lock, fcntl.LOCK_UN)
        lock.close()


if __name__ == "__main__":
    cfgs = sys.argv[1:] or ["all"]
    for c in cfgs:
        print(extract(c))
