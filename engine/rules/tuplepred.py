"""The six `is_tuple` predicates of the repository (type printer, value printer, syntax printer, JavaScript / Motoko / Rust generators)
decide whether a record is written in the positional shorthand.  They are small pure functions, so they are *evaluated* (HIR interpreter of
c11_util) on sample field lists and compared with the meaning the reader of the shorthand gives it: field i has id i.  What the predicate
answers for the empty record and for a one-field record is the writer's choice (each target language differs) and is frozen per predicate."""
from c11_util import Interp, NotEvaluable

LB = "candid::types::internal::Label::"
SAMPLES = ([], [0], [0, 1], [0, 1, 2], [1], [0, 2], [1, 0], [0, 1, 3], [2, 1, 0], [0, 0])


def _fields(kind, ids):
    if kind == "Field":
        return [("struct", {"id": ("enum", LB + "Id", [i]), "ty": None}) for i in ids]
    if kind == "IDLField":
        return [("struct", {"id": ("enum", LB + "Id", [i]), "val": None}) for i in ids]
    if kind == "TypeField":
        return [("struct", {"label": ("enum", LB + "Id", [i]), "typ": None, "docs": []}) for i in ids]
    raise ValueError(kind)


WRAP = {
    "slice:Field": lambda ids: _fields("Field", ids),
    "TypeInner::Record": lambda ids: ("enum", "candid::types::internal::TypeInner::Record", [_fields("Field", ids)]),
    "IDLValue::Record": lambda ids: ("enum", "candid::types::value::IDLValue::Record", [_fields("IDLField", ids)]),
    "IDLType::RecordT": lambda ids: ("enum", "candid_parser::syntax::IDLType::RecordT", [_fields("TypeField", ids)]),
}


def table(crate, fn_hir, arg_kind):
    """{tuple(ids): bool} for the samples, or (None, reason) when the predicate leaves the evaluable fragment"""
    it = Interp(crate)
    out = {}
    try:
        for ids in SAMPLES:
            out[tuple(ids)] = bool(it.call_fn(fn_hir, [WRAP[arg_kind](ids)]))
    except NotEvaluable as e:
        return None, str(e)
    return out, None


def expected(empty, single):
    """meaning of the shorthand: ids are exactly 0..n-1; `empty` / `single` = the frozen answers for n = 0 and n = 1"""
    exp = {}
    for ids in SAMPLES:
        pos = all(v == i for i, v in enumerate(ids))
        exp[tuple(ids)] = empty if not ids else (single if ids == [0] else pos)
    return exp


def check(chk, crate, fn_hir, arg_kind, key, empty, single, what):
    """-> True if decided by evaluation (obligation recorded), False if the caller should fall back to its structural rule"""
    got, why = table(crate, fn_hir, arg_kind)
    if got is None:
        return False
    exp = expected(empty, single)
    diff = {k: v for k, v in got.items() if exp[k] != v}
    chk.expect(not diff, key,
               f"{fn_hir['key']} evaluated on sample field lists answers {dict((list(k), v) for k, v in diff.items())} where the positional "
               f"shorthand means `field i has id i` (empty -> {empty}, one field -> {single}): {what}",
               where=f"{fn_hir['span']['file']}:{fn_hir['span']['lo']}",
               ok_detail=f"evaluated on {len(SAMPLES)} field lists: true exactly for ids 0..n-1 (empty: {empty}, single: {single})")
    return True
