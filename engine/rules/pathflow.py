"""Path-sensitive forward exploration of one MIR body with boolean-constant pruning.

State = (bits, consts):  bits   frozenset of rule-defined facts that hold on the path so far
                         consts frozenset of (local, value) known on this path (bool / small-int locals only)
Exploring (block, state) pairs instead of merging keeps correlated tests apart
(`let fast = a || b; if !fast { charge }`), which a merged must-analysis would report as a false alarm.
The state space is finite (bits and consts range over finite sets), so loops terminate.
"""
from collections import deque

from facts import op_const, op_int, op_place, place_fields, term_callee

MAX_STATES = 20000


def simple_local(p):
    """local index if the place is a bare local"""
    if p and "l" in p and not p.get("p"):
        return p["l"]
    return None


class Flow:
    def __init__(self, body):
        self.b = body
        # temporaries that are plain copies of a named local (single definition): learning about one tells the other
        defs = {}
        for bi, blk in enumerate(body.blocks):
            for st in blk["s"]:
                if st["k"] == "assign":
                    l = simple_local(st["p"])
                    if l is not None:
                        defs.setdefault(l, []).append(st)
            t = blk["t"]
            if t["k"] == "call":
                l = simple_local(t["dest"])
                if l is not None:
                    defs.setdefault(l, []).append(t)
        self.defs = defs
        self.alias = {}
        for l, ds in defs.items():
            if len(ds) == 1 and ds[0].get("k") == "assign" and ds[0]["r"]["k"] == "use":
                src = simple_local(op_place(ds[0]["r"]["o"]) or {})
                if src is not None and src != l:
                    self.alias[l] = src

    def root_alias(self, l):
        seen = set()
        while l in self.alias and l not in seen:
            seen.add(l)
            l = self.alias[l]
        return l

    # ------------------------------------------------------------------ exploration
    def explore(self, entry_bits, on_stmt=None, on_term=None, on_edge=None, start=0):
        """on_stmt(block, stmt, bits) -> bits ; on_term(block, term, bits, consts) -> bits (applied before successors);
        on_edge(block, term, succ, kind, value, bits) -> bits for that successor (kind 'switch'/'call'/'goto'...).
        Returns dict block -> set of states at block entry."""
        b = self.b
        init = (frozenset(entry_bits), frozenset())
        seen = {(start, init)}
        q = deque([(start, init)])
        entry_states = {}
        n = 0
        while q:
            bi, (bits, consts) = q.popleft()
            n += 1
            if n > MAX_STATES:
                raise RuntimeError(f"path exploration exceeded {MAX_STATES} states in {b.key}")
            entry_states.setdefault(bi, set()).add((bits, consts))
            blk = b.blocks[bi]
            cd = dict(consts)
            for st in blk["s"]:
                if st["k"] == "assign":
                    l = simple_local(st["p"])
                    if l is not None:
                        # kill knowledge about l and about anything aliased to it
                        cd.pop(l, None)
                        r = st["r"]
                        if r["k"] == "use":
                            v = op_int(r["o"])
                            if v is not None:
                                cd[l] = v
                            else:
                                src = simple_local(op_place(r["o"]) or {})
                                if src is not None and src in cd:
                                    cd[l] = cd[src]
                        elif r["k"] == "un" and r["op"] == "Not":
                            src = simple_local(op_place(r["a"]) or {})
                            if src is not None and src in cd and cd[src] in (0, 1):
                                cd[l] = 1 - cd[src]
                if on_stmt:
                    bits = on_stmt(bi, st, bits, cd)
            t = blk["t"]
            if on_term:
                bits = on_term(bi, t, bits, cd)
            k = t["k"]
            succs = []
            if k == "goto":
                succs = [(t["t"], "goto", None)]
            elif k == "switch":
                dl = simple_local(op_place(t["d"]) or {})
                known = None
                if dl is not None:
                    known = cd.get(dl)
                    if known is None:
                        known = cd.get(self.root_alias(dl))
                dc = op_int(t["d"])
                if dc is not None:
                    known = dc
                vals = list(t["vals"])
                if known is not None:
                    # outcome already determined on this path: nothing is learned (and nothing vouched) here
                    if known in vals:
                        succs = [(t["ts"][vals.index(known)], "pruned", known)]
                    else:
                        succs = [(t["o"], "pruned", ("else", tuple(vals)))]
                else:
                    for v, tb in zip(vals, t["ts"]):
                        succs.append((tb, "switch", v))
                    succs.append((t["o"], "switch", ("else", tuple(vals))))
            elif k in ("call", "drop", "assert"):
                if k == "call":
                    l = simple_local(t["dest"])
                    if l is not None:
                        cd.pop(l, None)
                if t.get("t") is not None:
                    succs = [(t["t"], k, None)]
            for sb, kind, val in succs:
                nb = bits
                ncd = dict(cd)
                if kind == "switch":
                    dl = simple_local(op_place(t["d"]) or {})
                    if dl is not None:
                        is_bool = t.get("dty") == "bool"
                        learn = None
                        if isinstance(val, int):
                            learn = val
                        elif is_bool and isinstance(val, tuple) and val[0] == "else" and len(val[1]) == 1 and val[1][0] in (0, 1):
                            learn = 1 - val[1][0]
                        if learn is not None:
                            ncd[dl] = learn
                            ra = self.root_alias(dl)
                            if ra != dl:
                                ncd[ra] = learn
                if on_edge:
                    nb = on_edge(bi, t, sb, kind, val, nb, ncd)
                    if nb is None:
                        continue
                stt = (sb, (frozenset(nb), frozenset(ncd.items())))
                if stt not in seen:
                    seen.add(stt)
                    q.append(stt)
        return entry_states


# ---------------------------------------------------------------------------- flow-insensitive derivation (taint)
def derive(body, seed_place, passthrough_call, max_iter=50):
    """tags[local] = set of tags. seed_place(place) -> iterable of tags for reading that place;
    passthrough_call(callee_name) -> True when the call's result is derived from its arguments."""
    tags = {}

    def place_tags(p):
        out = set(seed_place(p) or ())
        out |= tags.get(p["l"], set())
        return out

    def op_tags(o):
        p = op_place(o)
        return place_tags(p) if p is not None else set()

    changed = True
    it = 0
    while changed and it < max_iter:
        changed = False
        it += 1
        for blk in body.blocks:
            for st in blk["s"]:
                if st["k"] != "assign":
                    continue
                r = st["r"]
                src = set()
                k = r["k"]
                if k == "use":
                    src = op_tags(r["o"])
                elif k in ("ref", "rawptr", "discr"):
                    src = place_tags(r["p"])
                elif k == "cast":
                    src = op_tags(r["o"])
                elif k == "un":
                    src = op_tags(r["a"])
                elif k == "bin":
                    src = op_tags(r["a"]) | op_tags(r["b"])
                elif k == "agg":
                    for o in r["ops"]:
                        src |= op_tags(o)
                l = st["p"]["l"]
                if src and not src <= tags.get(l, set()):
                    tags.setdefault(l, set()).update(src)
                    changed = True
            t = blk["t"]
            if t["k"] == "call":
                d, rr = term_callee(t)
                name = rr or d or ""
                if passthrough_call(name):
                    src = set()
                    for a in t["args"]:
                        src |= op_tags(a)
                    l = t["dest"]["l"]
                    if src and not src <= tags.get(l, set()):
                        tags.setdefault(l, set()).update(src)
                        changed = True
    return tags
