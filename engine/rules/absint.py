"""Abstract interpreter over MIR integer code (DESIGN §2.3), path-sensitive with bounded disjunction.

Abstract values: finite value sets (up to 256 elements — a whole byte) or intervals with a congruence.
Stores map locals and simple memory cells to *value ids* (global value numbering: equal pure expressions over
unchanged operands get the same id), so that `pos + len` computed twice is known to be one value, and relational
facts `a < b`, `a <= b` recorded at branches can be looked up when an assertion or an index needs them.
Exploration keeps separate stores per path (trace partitioning); when one block accumulates too many distinct
stores the engine joins and widens them. Nothing is executed and no solver is involved.

Obligations reported per function:
  panic      an Assert terminator (overflow, shift, bounds, division) or an index / split_at precondition that is
             not provably satisfied on some path
  lossless   `x << s` OR-ed into an accumulator may shift significant bits out of the accumulator's width
  deadguard  a branch that returns an error is never reached (a guard that can never fire)
"""
import re
from collections import deque

from facts import op_const, op_int, op_place, place_fields, term_callee

SETMAX = 256
MAX_STORES_PER_BLOCK = 120
MAX_STEPS = 60000

INT_TYPES = {
    "u8": (0, 2**8 - 1, 8), "u16": (0, 2**16 - 1, 16), "u32": (0, 2**32 - 1, 32), "u64": (0, 2**64 - 1, 64),
    "u128": (0, 2**128 - 1, 128), "usize": (0, 2**64 - 1, 64),
    "i8": (-2**7, 2**7 - 1, 8), "i16": (-2**15, 2**15 - 1, 16), "i32": (-2**31, 2**31 - 1, 32),
    "i64": (-2**63, 2**63 - 1, 64), "i128": (-2**127, 2**127 - 1, 128), "isize": (-2**63, 2**63 - 1, 64),
    "bool": (0, 1, 1), "char": (0, 0x10FFFF, 32),
}


def ty_range(ty):
    return INT_TYPES.get(ty)


class AV:
    """abstract integer: explicit set (if small) or interval [lo, hi]"""
    __slots__ = ("lo", "hi", "vals")

    def __init__(self, lo, hi, vals=None):
        if vals is not None:
            vals = frozenset(vals)
            if not vals:
                self.lo, self.hi, self.vals = 1, 0, frozenset()
                return
            lo, hi = min(vals), max(vals)
            if len(vals) > SETMAX:
                vals = None
        elif hi - lo + 1 <= SETMAX and hi >= lo:
            vals = frozenset(range(lo, hi + 1))
        self.lo, self.hi, self.vals = lo, hi, vals

    @staticmethod
    def const(c):
        return AV(c, c, [c])

    def is_bottom(self):
        return self.lo > self.hi

    def is_const(self):
        return self.lo == self.hi

    def key(self):
        return (self.lo, self.hi, self.vals)

    def __eq__(self, o):
        return isinstance(o, AV) and self.key() == o.key()

    def __hash__(self):
        return hash(self.key())

    def __repr__(self):
        if self.is_bottom():
            return "⊥"
        if self.vals is not None and len(self.vals) <= 8:
            return "{" + ",".join(str(v) for v in sorted(self.vals)) + "}"
        return f"[{self.lo},{self.hi}]" + ("" if self.vals is None else f"#{len(self.vals)}")

    def contains(self, c):
        if self.vals is not None:
            return c in self.vals
        return self.lo <= c <= self.hi

    def join(self, o):
        if self.is_bottom():
            return o
        if o.is_bottom():
            return self
        if self.vals is not None and o.vals is not None:
            return AV(0, 0, self.vals | o.vals)
        return AV(min(self.lo, o.lo), max(self.hi, o.hi))

    def meet(self, o):
        if self.vals is not None and o.vals is not None:
            return AV(0, 0, self.vals & o.vals)
        if self.vals is not None:
            return AV(0, 0, [v for v in self.vals if o.lo <= v <= o.hi])
        if o.vals is not None:
            return AV(0, 0, [v for v in o.vals if self.lo <= v <= self.hi])
        return AV(max(self.lo, o.lo), min(self.hi, o.hi))

    def filter(self, pred):
        if self.vals is not None:
            return AV(0, 0, [v for v in self.vals if pred(v)])
        return self

    def widen(self, o, thresholds):
        """self = old, o = new"""
        j = self.join(o)
        lo, hi = j.lo, j.hi
        if o.lo < self.lo:
            cands = [t for t in thresholds if t <= o.lo]
            lo = max(cands) if cands else min(thresholds)
        if o.hi > self.hi:
            cands = [t for t in thresholds if t >= o.hi]
            hi = min(cands) if cands else max(thresholds)
        return AV(lo, hi)


def binop(op, a, b, rng):
    """exact-ish result of a (mathematical, unbounded) binary op on abstract values; rng = (lo, hi, bits) of the type"""
    if a.is_bottom() or b.is_bottom():
        return AV(1, 0)
    f = {
        "Add": lambda x, y: x + y, "Sub": lambda x, y: x - y, "Mul": lambda x, y: x * y,
        "BitAnd": lambda x, y: x & y, "BitOr": lambda x, y: x | y, "BitXor": lambda x, y: x ^ y,
    }.get(op)
    if a.vals is not None and b.vals is not None and len(a.vals) * len(b.vals) <= 70000:
        if f:
            return AV(0, 0, {f(x, y) for x in a.vals for y in b.vals})
        if op == "Shl":
            return AV(0, 0, {x << y for x in a.vals for y in b.vals if 0 <= y < 4096})
        if op == "Shr":
            return AV(0, 0, {x >> y for x in a.vals for y in b.vals if 0 <= y < 4096})
        if op in ("Div", "Rem"):
            vs = set()
            for x in a.vals:
                for y in b.vals:
                    if y != 0:
                        q = abs(x) // abs(y) * (1 if (x >= 0) == (y >= 0) else -1)
                        vs.add(q if op == "Div" else x - q * y)
            return AV(0, 0, vs)
    if op == "Add":
        return AV(a.lo + b.lo, a.hi + b.hi)
    if op == "Sub":
        return AV(a.lo - b.hi, a.hi - b.lo)
    if op == "Mul":
        c = [a.lo * b.lo, a.lo * b.hi, a.hi * b.lo, a.hi * b.hi]
        return AV(min(c), max(c))
    if op == "BitAnd":
        if a.lo >= 0 and b.lo >= 0:
            return AV(0, min(a.hi, b.hi))
        if b.lo >= 0:
            return AV(0, b.hi)
        if a.lo >= 0:
            return AV(0, a.hi)
        return AV(rng[0], rng[1])
    if op in ("BitOr", "BitXor"):
        if a.lo >= 0 and b.lo >= 0:
            m = max(a.hi, b.hi)
            return AV(0 if op == "BitXor" else max(a.lo, b.lo), (1 << m.bit_length()) - 1)
        return AV(rng[0], rng[1])
    if op == "Shl":
        if b.lo >= 0 and b.hi < 4096:
            c = [a.lo << b.lo, a.lo << b.hi, a.hi << b.lo, a.hi << b.hi]
            return AV(min(c), max(c))
        return AV(rng[0], rng[1])
    if op == "Shr":
        if b.lo >= 0:
            c = [a.lo >> b.lo, a.lo >> min(b.hi, 4096), a.hi >> b.lo, a.hi >> min(b.hi, 4096)]
            return AV(min(c), max(c))
        return AV(rng[0], rng[1])
    if op in ("Div", "Rem"):
        if b.lo > 0 and a.lo >= 0:
            return AV(0, a.hi // b.lo) if op == "Div" else AV(0, min(a.hi, b.hi - 1))
        return AV(rng[0], rng[1])
    return AV(rng[0], rng[1])


def wrap(v, rng):
    """value after wrapping into the type range (only when it may not fit)"""
    lo, hi, bits = rng
    if v.is_bottom():
        return v
    if v.lo >= lo and v.hi <= hi:
        return v
    if v.vals is not None:
        m = 1 << bits
        out = set()
        for x in v.vals:
            y = x % m
            if lo < 0 and y > hi:
                y -= m
            out.add(y)
        return AV(0, 0, out)
    return AV(lo, hi)


CMP = {"Eq": lambda x, y: x == y, "Ne": lambda x, y: x != y, "Lt": lambda x, y: x < y, "Le": lambda x, y: x <= y,
       "Gt": lambda x, y: x > y, "Ge": lambda x, y: x >= y}
NEG = {"Eq": "Ne", "Ne": "Eq", "Lt": "Ge", "Ge": "Lt", "Gt": "Le", "Le": "Gt"}
SWAP = {"Eq": "Eq", "Ne": "Ne", "Lt": "Gt", "Gt": "Lt", "Le": "Ge", "Ge": "Le"}


def cmp_eval(op, a, b):
    """AV of the boolean result"""
    if a.is_bottom() or b.is_bottom():
        return AV(1, 0)
    if op == "Lt":
        if a.hi < b.lo:
            return AV.const(1)
        if a.lo >= b.hi:
            return AV.const(0)
    elif op == "Le":
        if a.hi <= b.lo:
            return AV.const(1)
        if a.lo > b.hi:
            return AV.const(0)
    elif op == "Gt":
        return cmp_eval("Lt", b, a)
    elif op == "Ge":
        return cmp_eval("Le", b, a)
    elif op == "Eq":
        if a.is_const() and b.is_const():
            return AV.const(1 if a.lo == b.lo else 0)
        if a.meet(b).is_bottom():
            return AV.const(0)
    elif op == "Ne":
        r = cmp_eval("Eq", a, b)
        if r.is_const():
            return AV.const(1 - r.lo)
    return AV(0, 1)


def refine_cmp(op, a, b):
    """(a', b') assuming `a op b` holds"""
    if op == "Eq":
        m = a.meet(b)
        return m, m
    if op == "Ne":
        if b.is_const():
            a = a.filter(lambda v: v != b.lo) if a.vals is not None else (
                AV(a.lo + 1, a.hi) if a.lo == b.lo else (AV(a.lo, a.hi - 1) if a.hi == b.lo else a))
        if a.is_const():
            b = b.filter(lambda v: v != a.lo) if b.vals is not None else (
                AV(b.lo + 1, b.hi) if b.lo == a.lo else (AV(b.lo, b.hi - 1) if b.hi == a.lo else b))
        return a, b
    if op == "Lt":
        return a.meet(AV(a.lo, min(a.hi, b.hi - 1))) if True else a, b.meet(AV(max(b.lo, a.lo + 1), b.hi))
    if op == "Le":
        return a.meet(AV(a.lo, min(a.hi, b.hi))), b.meet(AV(max(b.lo, a.lo), b.hi))
    if op == "Gt":
        b2, a2 = refine_cmp("Lt", b, a)
        return a2, b2
    if op == "Ge":
        b2, a2 = refine_cmp("Le", b, a)
        return a2, b2
    return a, b


class Store:
    """locals / cells -> value id ; value id -> AV ; relational facts over value ids"""
    __slots__ = ("loc", "cell", "val", "lt", "le", "nload")

    def __init__(self):
        self.loc = {}
        self.cell = {}
        self.val = {}
        self.lt = set()
        self.le = set()
        self.nload = 0

    def copy(self):
        s = Store()
        s.loc = dict(self.loc)
        s.cell = dict(self.cell)
        s.val = dict(self.val)
        s.lt = set(self.lt)
        s.le = set(self.le)
        s.nload = self.nload
        return s

    def live_vids(self):
        seen = set()
        stack = list(self.loc.values()) + list(self.cell.values())
        while stack:
            v = stack.pop()
            if v in seen:
                continue
            seen.add(v)
            if isinstance(v, tuple):
                for x in v[1:]:
                    if isinstance(x, tuple):
                        stack.append(x)
        return seen

    def canon(self):
        """hashable key, with load ids renamed by first occurrence"""
        ren = {}
        memo = {}

        def r(v):
            if not isinstance(v, tuple):
                return v
            if v[0] == "load":
                if v not in ren:
                    ren[v] = ("load", len(ren))
                return ren[v]
            got = memo.get(v)
            if got is None:
                got = (v[0],) + tuple(r(x) for x in v[1:])
                memo[v] = got
            return got

        items = []
        for k in sorted(self.loc, key=str):
            items.append(("L", k, r(self.loc[k])))
        for k in sorted(self.cell, key=str):
            items.append(("C", k, r(self.cell[k])))
        live = self.live_vids()
        vals = tuple(sorted(((repr(r(v)), a.key()) for v, a in self.val.items() if v in live), key=str))
        lts = tuple(sorted(repr((r(a), r(b))) for a, b in self.lt))
        les = tuple(sorted(repr((r(a), r(b))) for a, b in self.le))
        return (tuple(items), vals, lts, les)


CLOSURE_PARAM_FACTS = {}     # closure key -> {2: AV} (item parameter bounded by the range it is mapped over) | None (unbounded at some site)
WIDTH_FN_KEY = None     # key of candid::de's fn(PrimitiveType) -> usize, set by the caller (found by signature: shared.width_fn_key)
CALL_ASSUMPTIONS = {
    "@width_fn": (1, 8, "the decoder's fn(PrimitiveType) -> usize returns the width of a fixed-width primitive, 1/2/4/8 "
                        "(its table is checked against the type names by the primitive matrix rule)"),
    r"std::io::cursor::Cursor::<T>::position$": (0, 2**63 - 1,
        "the cursor over the input is only ever positioned inside the input (every set_position argument is bounded by the "
        "slice length), and a slice is at most isize::MAX bytes long"),
}


class Result:
    def __init__(self, key):
        self.assumptions = set()
        self.fn = key
        self.obligations = []      # (kind, key, ok, detail, ln)
        self.blocks_reached = set()
        self.widened = False
        self.steps = 0
        self.aborted = None


class Interp:
    def __init__(self, body, assume_len_nonneg=True, param_facts=None):
        self.b = body
        self.res = Result(body.key)
        self.thresholds = self._thresholds()
        self.borrowed = set()
        for blk in body.blocks:
            for st in blk["s"]:
                if st["k"] == "assign" and st["r"]["k"] in ("ref", "rawptr"):
                    self.borrowed.add(st["r"]["p"]["l"])
        self.param_facts = param_facts or {}
        self.oblig = {}     # key -> [ok so far, detail, ln, kind]
        self.err_blocks = self._error_blocks()

    # -------------------------------------------------------------- helpers
    def _thresholds(self):
        ts = {0, 1, -1}
        for rng in INT_TYPES.values():
            ts.add(rng[0])
            ts.add(rng[1])
            ts.add(rng[2])
            ts.add(rng[2] - 1)
        for blk in self.b.blocks:
            for st in blk["s"]:
                if st["k"] == "assign":
                    for o in self._operands(st["r"]):
                        v = op_int(o)
                        if v is not None:
                            ts.update((v, v - 1, v + 1))
        return sorted(ts)

    @staticmethod
    def _operands(r):
        k = r["k"]
        if k in ("use", "cast"):
            return [r["o"]]
        if k == "bin":
            return [r["a"], r["b"]]
        if k == "un":
            return [r["a"]]
        if k == "agg":
            return r["ops"]
        return []

    def lty(self, l):
        return self.b.local_ty(l)

    def place_key(self, p):
        """None for a bare local; otherwise a hashable cell key"""
        proj = p.get("p") or []
        if not proj:
            return None
        parts = []
        for e in proj:
            if e == "*":
                parts.append("*")
            elif isinstance(e, dict) and "f" in e:
                parts.append(("f", e["f"]))
            elif isinstance(e, dict) and "ci" in e:
                parts.append(("ci", e["ci"], e.get("end")))
            elif isinstance(e, dict) and "d" in e:
                parts.append(("d", e.get("vi")))
            elif isinstance(e, dict) and "i" in e:
                parts.append(("i", e["i"]))
            else:
                parts.append(("?", str(e)))
        return (p["l"], tuple(parts))

    def place_ty(self, p):
        proj = p.get("p") or []
        if not proj:
            return self.lty(p["l"])
        for e in reversed(proj):
            if isinstance(e, dict) and "ty" in e:
                return e["ty"] if e is proj[-1] else None
            break
        # deref of a reference local: strip the reference
        t = self.lty(p["l"])
        if proj == ["*"]:
            m = re.match(r"^&(?:'\w+ )?(?:mut )?(.*)$", t)
            return m.group(1) if m else None
        if isinstance(proj[-1], dict) and ("ci" in proj[-1] or "i" in proj[-1]):
            m = re.search(r"\[(\w+)(?:; \d+)?\]$", t.replace("&", "").replace("mut ", "").strip())
            return m.group(1) if m else None
        return None

    def _error_blocks(self):
        """blocks that build an `Err(..)` / `None` result or call an error constructor: rejection branches"""
        out = set()
        for bi, blk in enumerate(self.b.blocks):
            for st in blk["s"]:
                if st["k"] == "assign" and st["r"]["k"] == "agg" and st["r"].get("variant") in ("Err",):
                    out.add(bi)
            t = blk["t"]
            if t["k"] == "call":
                d, r = term_callee(t)
                n = r or d or ""
                if re.search(r"error::Error::(msg|subtype)$|anyhow::.*(msg|format_err)", n):
                    out.add(bi)
        return out

    # -------------------------------------------------------------- evaluation
    def top_of(self, ty):
        rng = ty_range(ty or "")
        return AV(rng[0], rng[1]) if rng else None

    def val(self, st, vid):
        if isinstance(vid, tuple) and vid[0] == "c":
            return AV.const(vid[1])
        return st.val.get(vid)

    def setval(self, st, vid, av):
        if isinstance(vid, tuple) and vid[0] == "c":
            return
        if av is not None:
            st.val[vid] = av

    def fresh(self, st, ty, tag):
        st.nload += 1
        vid = ("load", tag, st.nload)
        t = self.top_of(ty)
        if t is not None:
            st.val[vid] = t
        return vid

    def forget(self, st, vid):
        def mentions(v, d=0):
            if v == vid:
                return True
            if isinstance(v, tuple) and d < 10:
                return any(mentions(x, d + 1) for x in v[1:] if isinstance(x, tuple))
            return False
        for v in [v for v in st.val if mentions(v)]:
            del st.val[v]
        st.lt = {(a, b) for a, b in st.lt if not mentions(a) and not mentions(b)}
        st.le = {(a, b) for a, b in st.le if not mentions(a) and not mentions(b)}
        for k in [k for k, v in st.cell.items() if mentions(v)]:
            del st.cell[k]
        for k in [k for k, v in st.loc.items() if mentions(v)]:
            del st.loc[k]

    def read_place(self, st, p, where):
        key = self.place_key(p)
        if key is None:
            l = p["l"]
            if l not in st.loc:
                st.loc[l] = self.fresh(st, self.lty(l), ("local", l))
            return st.loc[l]
        if key in st.cell:
            return st.cell[key]
        vid = self.fresh(st, self.place_ty(p), ("cell", where))
        st.cell[key] = vid
        return vid

    def operand(self, st, o, where):
        c = op_const(o)
        if c is not None:
            v = c.get("int")
            if isinstance(v, str):
                v = int(v)
            if "big" in c:
                v = int(c["big"])
            if v is not None:
                return ("c", v)
            return ("k", c.get("dbg", "?")[:40])
        p = op_place(o)
        if p is None:
            return ("k", "?")
        return self.read_place(st, p, where)

    def write_place(self, st, p, vid):
        key = self.place_key(p)
        if key is None:
            st.loc[p["l"]] = vid
            # cells rooted at this local are gone
            for k in [k for k in st.cell if k[0] == p["l"]]:
                del st.cell[k]
        else:
            st.cell[key] = vid
            # a write through a pointer may alias other pointer cells of the same shape
            if key[1] and key[1][0] == "*":
                for k in [k for k in st.cell if k != key and k[1] and k[1][0] == "*" and k[0] != key[0]]:
                    del st.cell[k]

    def invalidate_for_call(self, st, args):
        for k in list(st.cell):
            l, proj = k
            if proj and proj[0] == "*":
                # memory behind a shared reference to plain data cannot change during the call
                lt = self.lty(l)
                if lt.startswith("&") and not lt.startswith("&mut") and not re.match(r"^&('\w+ )?mut ", lt) \
                        and "Cell" not in lt and "Rc<" not in lt:
                    continue
                del st.cell[k]
            elif l in self.borrowed:
                del st.cell[k]

    def expr_val(self, st, vid, ty):
        """compute (and cache) the abstract value of an expression id"""
        if not isinstance(vid, tuple):
            return None
        if vid[0] == "c":
            return AV.const(vid[1])
        if vid in st.val:
            return st.val[vid]
        return self.top_of(ty)

    # -------------------------------------------------------------- refinement through expression structure
    def refine(self, st, vid, newv, depth=0):
        if not isinstance(vid, tuple) or vid[0] == "c" or newv is None:
            return
        old = st.val.get(vid)
        cur = newv if old is None else old.meet(newv)
        st.val[vid] = cur
        if depth > 6 or cur.is_bottom():
            return
        tag = vid[0]
        if tag in ("bitand", "shr", "shl", "add", "sub", "bitor") and len(vid) == 3:
            a, b = vid[1], vid[2]
            av, bv = self.val(st, a), self.val(st, b)
            op = {"bitand": "BitAnd", "shr": "Shr", "shl": "Shl", "add": "Add", "sub": "Sub", "bitor": "BitOr"}[tag]
            f = {"BitAnd": lambda x, y: x & y, "Shr": lambda x, y: x >> y if 0 <= y < 4096 else None,
                 "Shl": lambda x, y: x << y if 0 <= y < 4096 else None, "Add": lambda x, y: x + y,
                 "Sub": lambda x, y: x - y, "BitOr": lambda x, y: x | y}[op]
            if av is not None and bv is not None and av.vals is not None and bv.is_const():
                self.refine(st, a, AV(0, 0, [x for x in av.vals if f(x, bv.lo) is not None and cur.contains(f(x, bv.lo))]), depth + 1)
            elif av is not None and bv is not None and bv.vals is not None and av.is_const():
                self.refine(st, b, AV(0, 0, [y for y in bv.vals if f(av.lo, y) is not None and cur.contains(f(av.lo, y))]), depth + 1)
            elif av is not None and bv is not None and bv.is_const() and op == "Shr" and 0 <= bv.lo < 4096:
                # x >> k in [lo, hi]  =>  x in [lo << k, ((hi+1) << k) - 1]
                k = bv.lo
                self.refine(st, a, AV(cur.lo << k, ((cur.hi + 1) << k) - 1), depth + 1)
            elif av is not None and bv is not None and bv.is_const() and op in ("Add", "Sub"):
                k = bv.lo if op == "Add" else -bv.lo
                self.refine(st, a, AV(cur.lo - k, cur.hi - k), depth + 1)
        elif tag == "cast" and len(vid) == 3:
            a = vid[1]
            av = self.val(st, a)
            if av is not None:
                rng = ty_range(vid[2])
                if rng and av.lo >= rng[0] and av.hi <= rng[1]:
                    self.refine(st, a, cur, depth + 1)
                elif rng and av.vals is not None:
                    self.refine(st, a, AV(0, 0, [x for x in av.vals if wrap(AV.const(x), rng).lo in (cur.vals if cur.vals is not None else range(cur.lo, cur.hi + 1))]) if (cur.vals is not None or cur.hi - cur.lo < 4096) else av, depth + 1)
        elif tag == "not" and len(vid) == 2:
            av = self.val(st, vid[1])
            if av is not None and av.lo >= 0 and av.hi <= 1 and cur.is_const():
                self.refine(st, vid[1], AV.const(1 - cur.lo), depth + 1)
        elif tag in ("eq", "ne", "lt", "le", "gt", "ge") and cur.is_const():
            op = tag.capitalize()
            if cur.lo == 0:
                op = NEG[op]
            self.assume_cmp(st, op, vid[1], vid[2], depth + 1)

    def assume_cmp(self, st, op, a, b, depth=0):
        av, bv = self.val(st, a), self.val(st, b)
        if av is not None and bv is not None:
            a2, b2 = refine_cmp(op, av, bv)
            self.refine(st, a, a2, depth + 1)
            self.refine(st, b, b2, depth + 1)
        if op == "Lt":
            st.lt.add((a, b))
        elif op == "Le":
            st.le.add((a, b))
        elif op == "Gt":
            st.lt.add((b, a))
        elif op == "Ge":
            st.le.add((b, a))
        elif op == "Eq":
            st.le.add((a, b))
            st.le.add((b, a))

    def known_lt(self, st, a, b, strict=True, depth=0):
        """is a < b (strict) / a <= b provable from intervals, facts and the shape of the expressions"""
        av, bv = self.val(st, a), self.val(st, b)
        if av is not None and bv is not None and not av.is_bottom() and not bv.is_bottom():
            if (av.hi < bv.lo) if strict else (av.hi <= bv.lo):
                return True
        if a == b:
            return not strict
        if (a, b) in st.lt:
            return True
        if not strict and (a, b) in st.le:
            return True
        if depth > 4:
            return False
        # a <= a + x for unsigned x (adds are only used after their overflow check passed)
        if isinstance(b, tuple) and b[0] == "add":
            for x, y in ((b[1], b[2]), (b[2], b[1])):
                yv = self.val(st, y)
                if yv is not None and yv.lo >= (1 if strict else 0) and self.known_lt(st, a, x, False, depth + 1):
                    return True
                if yv is not None and yv.lo >= 0 and self.known_lt(st, a, x, strict, depth + 1):
                    return True
        # a - x <= a
        if isinstance(a, tuple) and a[0] == "sub":
            yv = self.val(st, a[2])
            if yv is not None and yv.lo >= (1 if strict else 0) and self.known_lt(st, a[1], b, False, depth + 1):
                return True
        # transitivity, one step
        for (x, y) in list(st.lt):
            if x == a and self.known_lt(st, y, b, False, depth + 2):
                return True
        for (x, y) in list(st.le):
            if x == a and y != a and self.known_lt(st, y, b, strict, depth + 2):
                return True
        return False

    # -------------------------------------------------------------- obligations
    def oblige(self, kind, key, ok, detail, ln):
        cur = self.oblig.get((kind, key))
        if cur is None:
            self.oblig[(kind, key)] = [ok, detail if not ok else "", ln, kind]
        elif not ok and cur[0]:
            cur[0] = False
            cur[1] = detail
            cur[2] = ln

    # -------------------------------------------------------------- transfer
    def step_stmt(self, st, bi, si, s):
        if s["k"] == "dead":
            l = s["l"]
            st.loc.pop(l, None)
            for k in [k for k in st.cell if k[0] == l]:
                del st.cell[k]
            return
        if s["k"] != "assign":
            return
        p, r = s["p"], s["r"]
        where = (bi, si)
        pty = self.place_ty(p)
        rng = ty_range(pty or "")
        k = r["k"]
        vid = None
        if k == "use":
            vid = self.operand(st, r["o"], where)
        elif k == "cast":
            a = self.operand(st, r["o"], where)
            av = self.val(st, a)
            trng = ty_range(r["ty"])
            if av is not None and trng:
                vid = ("cast", a, r["ty"])
                self.setval(st, vid, wrap(av, trng))
            else:
                vid = self.fresh(st, r["ty"], ("cast", where))
        elif k == "bin":
            a = self.operand(st, r["a"], where)
            b = self.operand(st, r["b"], where)
            av, bv = self.val(st, a), self.val(st, b)
            op = r["op"]
            aty = self._operand_ty(r["a"]) or pty
            arng = ty_range(aty or "") or rng
            if op in CMP:
                vid = (op.lower(), a, b)
                if av is not None and bv is not None:
                    res = cmp_eval(op, av, bv)
                    if not res.is_const():
                        # relational knowledge
                        if op in ("Lt", "Le", "Gt", "Ge"):
                            x, y, strict = (a, b, op == "Lt") if op in ("Lt", "Le") else (b, a, op == "Gt")
                            if self.known_lt(st, x, y, strict):
                                res = AV.const(1)
                            elif self.known_lt(st, y, x, not strict):
                                res = AV.const(0)
                    self.setval(st, vid, res if vid not in st.val else st.val[vid].meet(res))
                else:
                    self.setval(st, vid, AV(0, 1))
            elif op.endswith("WithOverflow"):
                base = op[:-len("WithOverflow")]
                if av is not None and bv is not None and arng:
                    exact = binop(base, av, bv, arng)
                    tag = base.lower()
                    rv = (tag, a, b)
                    ov = ("ovf_" + tag, a, b)
                    self.setval(st, rv, wrap(exact, arng))
                    fits = exact.lo >= arng[0] and exact.hi <= arng[1]
                    if not fits and base == "Sub" and arng[0] == 0 and exact.hi <= arng[1] and self.known_lt(st, b, a, False):
                        fits = True
                        exact = AV(0, exact.hi)
                        self.setval(st, rv, wrap(exact, arng))
                    never = exact.hi < arng[0] or exact.lo > arng[1]
                    self.setval(st, ov, AV.const(0) if fits else (AV.const(1) if never else AV(0, 1)))
                    st.val[("exact", rv)] = exact
                else:
                    rv = self.fresh(st, aty, ("ovfres", where))
                    ov = self.fresh(st, "bool", ("ovfflag", where))
                l = p["l"]
                rva = st.val.get(rv)
                if rva is not None and rva.is_const() and st.val.get(ov) == AV.const(0):
                    rv = ("c", rva.lo)
                    ov = ("c", 0)
                elif self.depth(rv) > 6:
                    ex = st.val.get(("exact", rv))
                    nrv = self.shallow(st, rv, aty, where)
                    if ex is not None:
                        st.val[("exact", nrv)] = ex
                    # the flag keeps referring to the original expression only through its value
                    nov = self.fresh(st, "bool", ("ovfflag", where))
                    if ov in st.val:
                        st.val[nov] = st.val[ov]
                    st.val[("ovfof", nov)] = AV.const(0)
                    self._ovf_alias = getattr(self, "_ovf_alias", {})
                    self._ovf_alias[nov] = nrv
                    rv, ov = nrv, nov
                st.cell[(l, (("f", 0),))] = rv
                st.cell[(l, (("f", 1),))] = ov
                st.loc[l] = ("tuple", rv, ov)
                return
            else:
                tag = {"Add": "add", "Sub": "sub", "Mul": "mul", "BitAnd": "bitand", "BitOr": "bitor", "BitXor": "bitxor",
                       "Shl": "shl", "Shr": "shr", "Div": "div", "Rem": "rem", "AddUnchecked": "add", "SubUnchecked": "sub",
                       "MulUnchecked": "mul", "ShlUnchecked": "shl", "ShrUnchecked": "shr"}.get(op)
                if tag and av is not None and bv is not None and arng:
                    vid = (tag, a, b)
                    base = {"add": "Add", "sub": "Sub", "mul": "Mul", "bitand": "BitAnd", "bitor": "BitOr", "bitxor": "BitXor",
                            "shl": "Shl", "shr": "Shr", "div": "Div", "rem": "Rem"}[tag]
                    bb = bv
                    if base in ("Shl", "Shr") and op in ("Shl", "Shr"):
                        # MIR shifts mask the amount; an out-of-range amount is caught by the preceding assert
                        bb = bv.meet(AV(0, arng[2] - 1)) if not bv.meet(AV(0, arng[2] - 1)).is_bottom() else bv
                    exact = binop(base, av, bb, arng)
                    if base == "Shl":
                        st.val[("exact", vid)] = exact
                    self.setval(st, vid, wrap(exact, arng))
                    if base == "Shl":
                        self.last_shl = (vid, a, b, arng, s.get("ln"))
                    if base == "BitOr":
                        self._check_lossless(st, a, b, arng, s.get("ln"))
                else:
                    vid = self.fresh(st, pty, ("bin", where))
        elif k == "un":
            a = self.operand(st, r["a"], where)
            av = self.val(st, a)
            if r["op"] == "Not":
                if pty == "bool" and av is not None:
                    vid = ("not", a)
                    self.setval(st, vid, AV(0, 0, [1 - v for v in av.vals]) if av.vals is not None else AV(0, 1))
                elif av is not None and rng:
                    vid = ("bnot", a)
                    if av.vals is not None:
                        self.setval(st, vid, wrap(AV(0, 0, [~v for v in av.vals]), rng))
                    else:
                        self.setval(st, vid, AV(rng[0], rng[1]))
                else:
                    vid = self.fresh(st, pty, ("un", where))
            elif r["op"] == "Neg" and av is not None and rng:
                vid = ("neg", a)
                self.setval(st, vid, wrap(binop("Sub", AV.const(0), av, rng), rng))
            elif r["op"] == "PtrMetadata":
                vid = ("len", a)
                if vid not in st.val:
                    st.val[vid] = AV(0, 2**63 - 1)
            else:
                vid = self.fresh(st, pty, ("un", where))
        elif k == "discr":
            src = self.read_place(st, r["p"], where)
            vid = ("discr", src)
            if vid not in st.val:
                st.val[vid] = AV(0, 2**16)
        elif k in ("ref", "rawptr"):
            # a reference to a place: remember which place it refers to (for len of slices and derefs)
            src = r["p"]
            key = self.place_key(src)
            if key is None:
                vid = ("ref", self.read_place(st, src, where)) if src["l"] in st.loc else ("refl", src["l"])
            elif key[1] == ("*",):
                vid = self.read_place(st, {"l": src["l"], "p": None}, where)   # &*x == x
            else:
                vid = ("refc", str(key))
        elif k == "agg" and r.get("ak") == "adt" and r.get("adt", "").endswith("ops::range::Range") and len(r["ops"]) == 2:
            a = self.operand(st, r["ops"][0], where)
            b = self.operand(st, r["ops"][1], where)
            vid = ("range", a, b)
        elif k == "agg" and r.get("ak") == "adt" and r.get("adt", "").endswith("ops::range::RangeFrom") and len(r["ops"]) == 1:
            vid = ("rangefrom", self.operand(st, r["ops"][0], where))
        elif k == "agg" and r.get("ak") == "adt" and r.get("adt", "").endswith("ops::range::RangeTo") and len(r["ops"]) == 1:
            vid = ("rangeto", self.operand(st, r["ops"][0], where))
        elif k == "agg" and r.get("ak") == "closure" and r.get("closure"):
            vid = ("closure", r["closure"])
        elif k == "agg" and r.get("ak") == "array":
            elems = [self.operand(st, o, where) for o in r["ops"]]
            l = p["l"] if self.place_key(p) is None else None
            vid = ("array", len(elems), where)
            if l is not None:
                st.loc[l] = vid
                for k2 in [k2 for k2 in st.cell if k2[0] == l]:
                    del st.cell[k2]
                for i, e in enumerate(elems):
                    st.cell[(l, (("ci", i, False),))] = e
                return
        else:
            vid = self.fresh(st, pty, ("other", where))
        if vid is None:
            vid = self.fresh(st, pty, ("none", where))
        vid = self.shallow(st, vid, pty, where)
        self.write_place(st, p, vid)

    _depth_cache = {}

    def depth(self, v):
        if not isinstance(v, tuple) or v[0] in ("c", "k", "load", "param", "phi"):
            return 0
        d = Interp._depth_cache.get(v)
        if d is None:
            d = 1 + max([self.depth(x) for x in v[1:] if isinstance(x, tuple)] or [0])
            if len(Interp._depth_cache) > 200000:
                Interp._depth_cache.clear()
            Interp._depth_cache[v] = d
        return d

    def shallow(self, st, vid, ty, where):
        """expressions nested deeper than a few levels are replaced by an opaque value with the same abstract value"""
        av0 = st.val.get(vid) if isinstance(vid, tuple) and vid[0] not in ("c", "k", "tuple", "range", "rangefrom", "rangeto", "array", "ref", "refl", "refc") else None
        if av0 is not None and av0.is_const() and not av0.is_bottom():
            return ("c", av0.lo)      # constant folding keeps ids small and makes equal constants one id
        if self.depth(vid) <= 6 or (isinstance(vid, tuple) and vid[0] in ("eq", "ne", "lt", "le", "gt", "ge", "not")):
            return vid
        av = st.val.get(vid)
        nv = self.fresh(st, ty, ("deep", where))
        if av is not None:
            st.val[nv] = av
        # keep what is known relationally about the old expression
        for (a, b) in list(st.lt):
            if a == vid:
                st.lt.add((nv, b))
            if b == vid:
                st.lt.add((a, nv))
        for (a, b) in list(st.le):
            if a == vid:
                st.le.add((nv, b))
            if b == vid:
                st.le.add((a, nv))
        return nv

    def _operand_ty(self, o):
        c = op_const(o)
        if c is not None:
            return c.get("ty")
        p = op_place(o)
        return self.place_ty(p) if p is not None else None

    def _check_lossless(self, st, a, b, rng, ln):
        """acc | (x << s): the shifted operand must keep all its significant bits"""
        for x in (a, b):
            if isinstance(x, tuple) and x[0] == "shl":
                exact = st.val.get(("exact", x))
                if exact is None:
                    continue
                width = rng[2]
                lo, hi = rng[0], rng[1]
                ok = True
                xv, sv = self.val(st, x[1]), self.val(st, x[2])
                if rng[0] >= 0:
                    ok = exact.hi <= hi and exact.lo >= 0
                elif xv is not None and sv is not None and xv.vals is not None and sv.vals is not None and xv.lo >= 0:
                    # signed accumulator: bits shifted beyond the width may only repeat the sign bit
                    gbits = max(xv.hi.bit_length(), 1)
                    for xx in xv.vals:
                        for ss in sv.vals:
                            over = gbits + ss - (width - 1)
                            if over <= 0:
                                continue
                            top = (xx << ss) >> (width - 1)
                            if top != 0 and top != (1 << over) - 1:
                                ok = False
                else:
                    ok = exact.hi < (1 << width) and exact.lo >= -(1 << (width - 1)) * 2
                key = f"shl-or#{self._or_ordinal(ln)}:w{width}"
                self.oblige("lossless", key, ok,
                            f"a value up to {exact.hi.bit_length()} bits wide is shifted into a {width}-bit accumulator: "
                            f"significant bits can be shifted out silently (x << s with x <= {self.val(st, x[1])}, s = {self.val(st, x[2])})", ln)

    def _or_ordinal(self, ln):
        if not hasattr(self, "_or_sites"):
            sites = []
            for i, blk in enumerate(self.b.blocks):
                for st_ in blk["s"]:
                    if st_["k"] == "assign" and st_["r"]["k"] == "bin" and st_["r"]["op"] == "BitOr":
                        sites.append((i, st_.get("ln")))
            self._or_sites = sites
        lns = sorted({l for _, l in self._or_sites if l is not None})
        return lns.index(ln) if ln in lns else 0

    def step_term(self, st, bi, t):
        """returns list of (successor, store)"""
        k = t["k"]
        if k == "goto":
            return [(t["t"], st)]
        if k == "switch":
            d = self.operand(st, t["d"], (bi, "t"))
            dv = self.val(st, d) or AV(0, 2**16)
            outs = []
            vals = list(t["vals"])
            for v, tb in zip(vals, t["ts"]):
                if not dv.contains(v):
                    continue
                s2 = st.copy()
                self.refine(s2, d, AV.const(v))
                if self._consistent(s2):
                    outs.append((tb, s2))
            rest = dv
            for v in vals:
                rest = refine_cmp("Ne", rest, AV.const(v))[0]
            if not rest.is_bottom():
                s2 = st.copy()
                self.refine(s2, d, rest)
                if self._consistent(s2):
                    outs.append((t["o"], s2))
            return outs
        if k == "assert":
            c = self.operand(st, t["c"], (bi, "t"))
            cv = self.val(st, c) or AV(0, 1)
            exp = 1 if t["exp"] else 0
            msg = t["msg"]
            if msg.startswith("other:"):
                # compiler-inserted pointer validity checks (-Zub-checks), not arithmetic of the program
                return [(t["t"], st)]
            ok = cv.is_const() and cv.lo == exp
            if not ok and msg == "bounds":
                # assert(Lt(index, len))
                if isinstance(c, tuple) and c[0] == "lt" and self.known_lt(st, c[1], c[2], True):
                    ok = True
            detail = ""
            if not ok:
                ops = [self.val(st, self.operand(st, o, (bi, "a"))) for o in t.get("ops", [])]
                detail = f"{msg} on operands {ops} is not excluded"
            n = sum(1 for (kk, key) in self.oblig if kk == "panic" and key.startswith(f"assert:{msg}#"))
            key = self._site_key("assert:" + msg, bi)
            self.oblige("panic", key, ok, detail, t.get("ln"))
            s2 = st.copy()
            self.refine(s2, c, AV.const(exp))
            # after a passed overflow check the result is the exact value
            if getattr(self, "_ovf_alias", {}).get(c) is not None:
                rv = self._ovf_alias[c]
                ex = s2.val.get(("exact", rv))
                if ex is not None and rv in s2.val and not s2.val[rv].meet(ex).is_bottom():
                    s2.val[rv] = s2.val[rv].meet(ex)
            if isinstance(c, tuple) and c[0].startswith("ovf_"):
                rv = (c[0][4:], c[1], c[2])
                ex = s2.val.get(("exact", rv))
                if ex is not None and rv in s2.val:
                    s2.val[rv] = s2.val[rv].meet(ex) if not s2.val[rv].meet(ex).is_bottom() else s2.val[rv]
            if not self._consistent(s2):
                return []
            return [(t["t"], s2)]
        if k == "drop":
            return [(t["t"], st)]
        if k == "call":
            d, r = term_callee(t)
            name = r or d or ""
            s2 = st.copy()
            self._call_obligations(s2, bi, t, name)
            # a number handed to another routine after a narrowing cast must fit the narrower type
            for ai, a in enumerate(t["args"]):
                v = self.operand(st, a, (bi, "arg"))
                if isinstance(v, tuple) and v[0] == "cast" and len(v) == 3:
                    src = self.val(st, v[1])
                    rng = ty_range(v[2])
                    if src is not None and rng and not src.is_bottom():
                        ok = src.lo >= rng[0] and src.hi <= rng[1]
                        self.oblige("lossless", self._site_key_call("cast-arg", bi, ai), ok,
                                    f"a value in {src} is cast to {v[2]} and passed to {name.rsplit('::', 2)[-2]}::{name.rsplit('::', 1)[-1]}: "
                                    f"values outside the {v[2]} range are silently truncated", t.get("ln"))
            self.invalidate_for_call(s2, t["args"])
            dest = t["dest"]
            dty = self.place_ty(dest)
            vid = None
            if re.search(r"::len$", name) and t["args"]:
                a = self.operand(st, t["args"][0], (bi, "t"))
                vid = ("len", a)
                if vid not in s2.val:
                    s2.val[vid] = AV(0, 2**63 - 1)
            elif re.search(r"(core::cmp::max|Ord::max)$", name) and len(t["args"]) == 2:
                a = self.operand(st, t["args"][0], (bi, "t"))
                b = self.operand(st, t["args"][1], (bi, "t"))
                av, bv = self.val(st, a), self.val(st, b)
                vid = ("max", a, b)
                if av is not None and bv is not None:
                    s2.val[vid] = AV(max(av.lo, bv.lo), max(av.hi, bv.hi))
            m_from = re.search(r"<(\w+) as core::convert::From<(\w+)>>::from$", name)
            m_from2 = re.search(r"<impl core::convert::From<(\w+)> for (\w+)>::from$", name)
            if m_from2:
                class _M:
                    def __init__(s, a, b): s.a, s.b = a, b
                    def group(s, i): return s.a if i == 1 else s.b
                m_from = _M(m_from2.group(2), m_from2.group(1))
            if vid is None and m_from and m_from.group(1) in INT_TYPES and m_from.group(2) in INT_TYPES and t["args"]:
                a = self.operand(st, t["args"][0], (bi, "t"))
                av = self.val(st, a)
                if av is not None:
                    vid = ("cast", a, m_from.group(1))
                    s2.val[vid] = wrap(av, ty_range(m_from.group(1)))
            if vid is None and re.search(r"IntoIterator.*::into_iter$|::into_iter$|Iterator::rev$|::rev$", name) and t["args"]:
                a = self.operand(st, t["args"][0], (bi, "t"))
                if isinstance(a, tuple) and a[0] == "range":
                    vid = a     # only the bounds of the items matter here, not their order
            if vid is None and re.search(r"Range<.*> as .*Iterator>::next$|iter::range::.*::next$|Rev<.*> as .*Iterator>::next$", name) and t["args"]:
                a = self.operand(st, t["args"][0], (bi, "t"))
                rv = None
                if isinstance(a, tuple) and a[0] == "refl" and isinstance(st.loc.get(a[1]), tuple) and st.loc[a[1]][0] == "range":
                    rv = st.loc[a[1]]
                elif isinstance(a, tuple) and a[0] == "ref" and isinstance(a[1], tuple) and a[1][0] == "range":
                    rv = a[1]
                if rv is not None:
                    lo_v, hi_v = self.val(st, rv[1]), self.val(st, rv[2])
                    vid = self.fresh(s2, dty, ("call", bi))
                    if lo_v is not None and hi_v is not None and self.place_key(dest) is None:
                        pay = ("load", ("rangeitem", bi), 0)     # one id per site: forget what was known about the last item
                        self.forget(s2, pay)
                        s2.val[pay] = AV(lo_v.lo, max(lo_v.lo, hi_v.hi - 1))
                        s2.lt.add((pay, rv[2]))
                        self._pending_payload = (dest["l"], pay)
            # a closure handed to anything but the adaptors below may be called with any argument: no fact is kept for it
            if not re.search(r"Iterator>?::(map|for_each|all|any|position|rposition|flat_map|try_for_each)$", name):
                for a_ in t["args"]:
                    v_ = self.operand(st, a_, (bi, "t"))
                    if isinstance(v_, tuple) and v_[0] == "closure":
                        CLOSURE_PARAM_FACTS[v_[1]] = None
            # (lo..hi).map(|i| ..) and friends: the closure's item parameter ranges over [lo, hi); remembered for the analysis of the closure body
            if re.search(r"Iterator>?::(map|for_each|all|any|position|rposition|flat_map|try_for_each)$", name) and len(t["args"]) >= 2:
                a0 = self.operand(st, t["args"][0], (bi, "t"))
                a1 = self.operand(st, t["args"][1], (bi, "t"))
                if isinstance(a0, tuple) and a0[0] in ("refl", "ref"):
                    a0 = st.loc.get(a0[1]) if a0[0] == "refl" else a0[1]
                if isinstance(a1, tuple) and a1[0] == "closure":
                    key_ = a1[1]
                    fact = None
                    if isinstance(a0, tuple) and a0[0] == "range":
                        lo_v, hi_v = self.val(st, a0[1]), self.val(st, a0[2])
                        if lo_v is not None and hi_v is not None and not lo_v.is_bottom() and not hi_v.is_bottom():
                            fact = AV(lo_v.lo, max(lo_v.lo, hi_v.hi - 1))
                    prev = CLOSURE_PARAM_FACTS.get(key_, "none")
                    if fact is None or prev is None:
                        CLOSURE_PARAM_FACTS[key_] = None                     # some call site gives no bound: nothing is assumed
                    elif prev == "none":
                        CLOSURE_PARAM_FACTS[key_] = {2: fact}
                    else:
                        CLOSURE_PARAM_FACTS[key_] = {2: AV(min(prev[2].lo, fact.lo), max(prev[2].hi, fact.hi))}
            # &Vec<T> -> &[T]: the same sequence (same length id)
            if vid is None and re.search(r"vec::Vec<.*> as core::ops::deref::Deref>::deref$|vec::Vec::<T, A>::as_slice$", name) and t["args"]:
                vid = self.operand(st, t["args"][0], (bi, "t"))
            # slice.iter() ... .position(p) / .rposition(p): Some(i) carries an index of that slice
            if vid is None and re.search(r"slice::<impl \[T\]>::iter$", name) and t["args"]:
                a = self.operand(st, t["args"][0], (bi, "t"))
                vid = ("sliceiter", a)
                if ("len", a) not in s2.val:
                    s2.val[("len", a)] = AV(0, 2**63 - 1)
            if vid is None and re.search(r"Iterator>?::(position|rposition)$", name) and t["args"]:
                a = self.operand(st, t["args"][0], (bi, "t"))
                it = None
                if isinstance(a, tuple) and a[0] == "refl" and isinstance(st.loc.get(a[1]), tuple) and st.loc[a[1]][0] == "sliceiter":
                    it = st.loc[a[1]]
                elif isinstance(a, tuple) and a[0] == "ref" and isinstance(a[1], tuple) and a[1][0] == "sliceiter":
                    it = a[1]
                if it is not None and self.place_key(dest) is None:
                    vid = self.fresh(s2, dty, ("call", bi))
                    pay = ("load", ("positem", bi), 0)
                    self.forget(s2, pay)
                    s2.val[pay] = AV(0, 2**63 - 2)
                    s2.lt.add((pay, ("len", it[1])))
                    self._pending_payload = (dest["l"], pay)
            if vid is None:
                vid = self.fresh(s2, dty, ("call", bi))
                for rx, (lo, hi, why) in CALL_ASSUMPTIONS.items():
                    if (name == WIDTH_FN_KEY) if rx == "@width_fn" else re.search(rx, name):
                        cur = s2.val.get(vid)
                        s2.val[vid] = AV(lo, hi) if cur is None else cur.meet(AV(lo, hi))
                        self.res.assumptions.add(f"{name.rsplit('::', 2)[-2]}::{name.rsplit('::', 1)[-1]}: {why}")
            self.write_place(s2, dest, vid)
            pp = getattr(self, "_pending_payload", None)
            if pp is not None:
                self._pending_payload = None
                s2.cell[(pp[0], (("d", 1), ("f", 0)))] = pp[1]
            if t.get("t") is None:
                return []
            return [(t["t"], s2)]
        return []

    def _site_key(self, kind, bi):
        # ordinal of this block among blocks with the same kind of site, in block order (stable across runs)
        if not hasattr(self, "_ordinals"):
            self._ordinals = {}
            counts = {}
            for i, blk in enumerate(self.b.blocks):
                t = blk["t"]
                kk = None
                if t["k"] == "assert":
                    kk = "assert:" + t["msg"]
                elif t["k"] == "call":
                    d, r = term_callee(t)
                    n = r or d or ""
                    if re.search(r"(::index$|::index_mut$|::split_at$)", n):
                        kk = "index"
                if kk:
                    self._ordinals[(kk, i)] = counts.get(kk, 0)
                    counts[kk] = counts.get(kk, 0) + 1
        return f"{kind}#{self._ordinals.get((kind, bi), 0)}"

    def _site_key_call(self, kind, bi, ai):
        blocks = sorted(i for i, blk in enumerate(self.b.blocks) if blk["t"]["k"] == "call")
        return f"{kind}#{blocks.index(bi) if bi in blocks else 0}.{ai}"

    def _call_obligations(self, st, bi, t, name):
        if not re.search(r"(::index$|::index_mut$|::split_at$)", name) or len(t["args"]) < 2:
            return
        c = self.operand(st, t["args"][0], (bi, "c"))
        idx = self.operand(st, t["args"][1], (bi, "i"))
        ln = t.get("ln")
        key = self._site_key("index", bi)
        length = ("len", c)
        if length not in st.val:
            st.val[length] = AV(0, 2**63 - 1)
        ok = False
        detail = ""
        if isinstance(idx, tuple) and idx[0] == "range":
            ok = self.known_lt(st, idx[1], idx[2], False) and self.known_lt(st, idx[2], length, False)
            detail = f"range start <= end <= len not established (start {self.val(st, idx[1])}, end {self.val(st, idx[2])})"
        elif isinstance(idx, tuple) and idx[0] == "rangefrom":
            ok = self.known_lt(st, idx[1], length, False)
            detail = f"range start <= len not established (start {self.val(st, idx[1])})"
        elif isinstance(idx, tuple) and idx[0] == "rangeto":
            ok = self.known_lt(st, idx[1], length, False)
            detail = f"range end <= len not established (end {self.val(st, idx[1])})"
        elif name.endswith("::split_at"):
            ok = self.known_lt(st, idx, length, False)
            detail = f"split point <= len not established (mid {self.val(st, idx)})"
        else:
            ity = self._operand_ty(t["args"][1]) or ""
            if "RangeFull" in ity:
                ok = True
            elif ity in INT_TYPES:
                ok = self.known_lt(st, idx, length, True)
                detail = f"index < len not established (index {self.val(st, idx)})"
            else:
                return   # indexing by a key (map lookup etc.): not a slice bound
        self.oblige("panic", key, ok, detail, ln)

    def _consistent(self, st):
        for v, a in st.val.items():
            if isinstance(a, AV) and a.is_bottom() and not (isinstance(v, tuple) and v[0] == "exact"):
                return False
        return True

    # -------------------------------------------------------------- driver
    def run(self):
        b = self.b
        init = Store()
        for l, av in self.param_facts.items():
            vid = ("param", l)
            init.loc[l] = vid
            init.val[vid] = av
        work = deque([(0, init)])
        seen = {}
        counts = {}
        while work:
            bi, st = work.popleft()
            self.res.steps += 1
            if self.res.steps > MAX_STEPS:
                self.res.aborted = f"exploration exceeded {MAX_STEPS} steps"
                break
            self.res.blocks_reached.add(bi)
            blk = b.blocks[bi]
            cur = st.copy()
            for si, s in enumerate(blk["s"]):
                self.step_stmt(cur, bi, si, s)
            for sb, s2 in self.step_term(cur, bi, blk["t"]):
                self._gc(s2)
                key = s2.canon()
                if key in seen.setdefault(sb, set()):
                    continue
                counts[sb] = counts.get(sb, 0) + 1
                if counts[sb] > MAX_STORES_PER_BLOCK:
                    s2 = self._widen_at(sb, s2)
                    self.res.widened = True
                    key = s2.canon()
                    if key in seen[sb]:
                        continue
                seen[sb].add(key)
                work.append((sb, s2))
        # dead rejection guards
        for bi in sorted(self.err_blocks):
            if b.is_cleanup(bi):
                continue
            # only blocks that are statically reachable in the CFG
            pass
        reach_static = b.reachable()
        n = 0
        for bi in sorted(self.err_blocks & reach_static):
            if b.is_cleanup(bi):
                continue
            key = f"reject#{n}"
            n += 1
            self.oblige("deadguard", key, bi in self.res.blocks_reached,
                        "a branch that rejects the input is unreachable for every input: the guard in front of it can never fire",
                        (b.blocks[bi]["t"] or {}).get("ln"))
        for (kind, key), (ok, detail, ln, _k) in sorted(self.oblig.items()):
            self.res.obligations.append((kind, key, ok, detail, ln))
        return self.res

    def _gc(self, st):
        live = st.live_vids()
        leaves = {v for v in live if isinstance(v, tuple) and v[0] in ("load", "param", "phi")}

        def alive(v, d=0):
            """an expression is meaningful as long as every leaf it is built from is still held by some local"""
            if not isinstance(v, tuple):
                return True
            if v in live or v[0] in ("c", "k"):
                return True
            if v[0] in ("load", "param", "phi"):
                return v in leaves
            if d > 8:
                return False
            return all(alive(x, d + 1) for x in v[1:] if isinstance(x, tuple))

        for v in [v for v in st.val if v not in live and not (isinstance(v, tuple) and v[0] == "exact" and v[1] in live) and not alive(v)]:
            del st.val[v]
        st.lt = {(a, b) for a, b in st.lt if alive(a) and alive(b)}
        st.le = {(a, b) for a, b in st.le if alive(a) and alive(b)}

    def _widen_at(self, bi, st):
        """too many stores at one block: merge into one accumulated store per block, widening only what differs"""
        if not hasattr(self, "_wide"):
            self._wide = {}
        acc = self._wide.get(bi)
        if acc is None:
            self._wide[bi] = st.copy()
            return st
        s2 = Store()
        for l, vid in st.loc.items():
            av = self.val(st, vid)
            if l in acc.loc and acc.loc[l] == vid and self.val(acc, vid) == av:
                s2.loc[l] = vid
                if av is not None and not (isinstance(vid, tuple) and vid[0] == "c"):
                    s2.val[vid] = av
                continue
            nv = ("phi", bi, l)
            s2.loc[l] = nv
            old = self.val(acc, acc.loc[l]) if l in acc.loc else None
            if av is None or (l in acc.loc and old is None):
                top = self.top_of(self.lty(l))
                if top is not None:
                    s2.val[nv] = top
                continue
            w = av if old is None else old.widen(av, self.thresholds)
            top = self.top_of(self.lty(l))
            if top is not None:
                m = w.meet(top)
                w = m if not m.is_bottom() else top
            s2.val[nv] = w
        for k, vid in st.cell.items():
            if acc.cell.get(k) == vid and self.val(acc, vid) == self.val(st, vid):
                s2.cell[k] = vid
                av = self.val(st, vid)
                if av is not None and not (isinstance(vid, tuple) and vid[0] == "c"):
                    s2.val[vid] = av
        # values of sub-expressions that are still referenced
        for v in s2.live_vids():
            if v not in s2.val and v in st.val and acc.val.get(v) == st.val[v]:
                s2.val[v] = st.val[v]
            elif v not in s2.val and v in st.val:
                a0 = acc.val.get(v)
                s2.val[v] = st.val[v] if a0 is None else a0.join(st.val[v])
        s2.lt = st.lt & acc.lt
        s2.le = st.le & acc.le
        self._wide[bi] = s2.copy()
        return s2


def analyse(body, param_facts=None):
    if param_facts is None and body.j.get("kind") == "Closure":
        param_facts = CLOSURE_PARAM_FACTS.get(body.key) or None      # filled while the parent function was analysed
    return Interp(body, param_facts=param_facts).run()
