"""C01 — native encode/decode round-trip is the identity, whatever ran before (structural clauses)."""
import re

from facts import AnchorMissing, callee, expr_path, lit_value, nodes, pat_alternatives, pat_head, short, unblock, walk
from shared import TI, Matrix, Spec, arm_rows, method_calls, variant_paths
import de_rules
import sorted_unique

TITLE = ("C01: type table and value stream use one field order (derive and hand-written impls); the decoding context is "
         "re-established for every component; bulk and per-element codecs of primitives agree in width and endianness with "
         "the decoder; the type memo is extended before and completed after deriving a type and cleared by every builder.")

LBL = "candid::types::internal::Label::"


def field_list(ty_fn):
    """[(label kind, literal, type-arg of `X::ty()`)] of the vec![Field{..}] in a hand-written _ty(), or None"""
    out = []
    for st in [n for n in walk(ty_fn["body"]) if n.get("k") == "struct" and (n.get("res") or {}).get("path", "").endswith("internal::Field")]:
        f = {x[0]: x[1] for x in st["fields"]}
        lab = [n for n in walk(f.get("id")) if n.get("k") == "call" and (callee(n) or "").startswith(LBL)]
        if len(lab) != 1:
            return None
        kind = callee(lab[0])[len(LBL):]
        lit = None
        for n in walk(lab[0]):
            if n.get("k") == "lit":
                lit = lit_value(n)
        tyc = unblock(f.get("ty"))
        targ = None
        if tyc.get("k") == "call" and (callee(tyc) or "").endswith("CandidType::ty"):
            targ = (tyc.get("ga") or [None])[0]
        out.append((kind, lit, targ))
    return out


def strip_ref(t):
    t = t or ""
    while t.startswith("&"):
        t = t[1:].strip()
        if t.startswith("mut "):
            t = t[4:]
    return t


def run(chk, facts, tier, only=None):
    c = facts.crate("candid")
    spec = Spec()
    mx = Matrix(facts)

    def r1():
        # (a) derive: sort by hash + uniqueness (shared rule) and nothing consumes the vector before it is sorted
        sorted_unique.run_rule(chk, facts, spec)
        d = facts.crate("candid_derive")
        for fname in ("enum_from_ast", "fields_from_ast"):
            h = d.fn(r"candid_derive::derive::%s$" % fname)
            chk.analysed(h["key"])
            body = h["body"]
            items = list(body.get("stmts") or []) + ([body["e"]] if body.get("e") else [])
            sort_at = None
            var = None
            for i, st in enumerate(items):
                s = st.get("e") if st.get("k") == "semi" else st
                if isinstance(s, dict) and s.get("k") == "mcall" and s["m"].startswith("sort"):
                    sort_at, var = i, (expr_path(s["recv"]) or "").split(".")[0]
            if sort_at is None:
                raise AnchorMissing(f"{fname}: sort statement not found")
            before = [i for i in range(sort_at) if sorted_unique.mentions(items[i], var)]
            # allowed before the sort: the definition of the vector and the uniqueness computation
            early = []
            for i in before:
                st = items[i]
                if st.get("k") == "slet" and (st["pat"].get("n") == var):
                    continue
                if st.get("k") == "slet" and "BTreeSet" in ((st["pat"] or {}).get("ty") or ""):
                    continue
                if any(m in ("assert_eq", "assert") for n in walk(st) for m in (n.get("mac") or [])):
                    continue
                early.append(i)
            after = [i for i in range(sort_at + 1, len(items)) if sorted_unique.mentions(items[i], var)]
            chk.expect(not early and len(after) >= 3, f"derive:{fname}:all-products-after-sort",
                       f"{fname}: the type description and the serializer body must both be generated from `{var}` after it was sorted by id; "
                       f"{len(early)} use(s) precede the sort, {len(after)} follow it",
                       ok_detail=f"{len(after)} uses of `{var}`, all after the sort")
        # (b) hand-written compound impls
        n = 0
        impls = {}
        for h in c.methods(r"^_ty$", r"CandidType$"):
            fl = field_list(h)
            if fl:
                impls[h["impl"]["self_ty"]] = (h, fl)
        for st, (h, fl) in sorted(impls.items()):
            if any(k not in ("Named", "Id") or lit is None for k, lit, _ in fl):
                continue
            n += 1
            chk.analysed(h["key"])
            ids = [spec.hash(lit) if k == "Named" else lit for k, lit, _ in fl]
            is_map_entry = "Map<" in st
            chk.expect(all(a < b for a, b in zip(ids, ids[1:])), f"handwritten:{st}:ascending",
                       f"CandidType for {st}: the fields of _ty() must be listed in strictly ascending id order "
                       f"(labels {[l for _, l, _ in fl]} have ids {ids}); the decoder matches wire and expected fields by merging two sorted lists",
                       ok_detail=f"ids {ids}")
            ser = c.method("^" + re.escape(st) + "$", "idl_serialize", r"CandidType$")
            kinds = variant_paths(h["body"], TI)
            if "Variant" in kinds:
                m = [m for m in nodes(ser["body"], "match") if m.get("src") == "Normal"]
                got = {}
                for a in (m[0]["arms"] if m else []):
                    hd = pat_head(pat_alternatives(a["pat"])[0])
                    idx = [lit_value(x["args"][0]) for x in method_calls(a["body"], r"^serialize_variant$")]
                    got[short(hd)] = idx
                want = {lit: [i] for i, (_, lit, _) in enumerate(fl)}
                chk.expect(got == want, f"handwritten:{st}:variant-index",
                           f"CandidType for {st}: serialize_variant(k) must be the position of that case in _ty(); cases {want}, serializer writes {got}")
            elif "Record" in kinds and not is_map_entry:
                elems = []
                for x in walk(ser["body"]):
                    if (x.get("k") == "mcall" and x["m"] == "serialize_element") or \
                            (x.get("k") == "call" and (callee(x) or "").endswith("Compound::serialize_element")):
                        arg = x["args"][-1]
                        inner = arg
                        while isinstance(inner, dict) and inner.get("k") == "ref":
                            inner = inner["e"]
                        elems.append(strip_ref(inner.get("ty")))
                want = [t for _, _, t in fl]
                chk.expect(elems == want, f"handwritten:{st}:element-order",
                           f"CandidType for {st}: values must be written in the field order of _ty(): field types {want}, serialized element types {elems}",
                           ok_detail=f"{elems}")
        chk.floor("hand-written record/variant CandidType impls with literal labels", n, 18)

    def r2():
        de_rules.rule_context(chk, facts)

    def r3():
        mx.check_rust_impls(chk)
        mx.check_encoder(chk)
        mx.check_bulk(chk)
        mx.check_decoder(chk)
        # the raw bulk write is only attempted for element types with a table entry, and falls back per element
        h = c.method(r"^\[T\]$", "idl_serialize", r"CandidType$")
        chk.analysed(h["key"])
        cs = [(callee(n) or n.get("m") or "").rsplit("::", 1)[-1] for n in walk(h["body"]) if n.get("k") in ("call", "mcall")]
        chk.expect("serialize_vec" in cs and "fixed_primitive_byte_size" in cs and "try_write_raw_elements" in cs
                   and "serialize_element" in cs and cs.index("serialize_vec") < cs.index("try_write_raw_elements"),
                   "slice:length-then-bulk-or-elements",
                   f"[T]::idl_serialize must write the length first, then either the raw bytes (when fixed_primitive_byte_size gives a width) "
                   f"or every element; calls: {cs}")
        sz = [n for n in walk(h["body"]) if n.get("k") == "bin" and n.get("op") == "Mul"]
        okmul = any(("len" in str(n["a"]) and expr_path(n["b"]) == "element_size") or ("len" in str(n["b"]) and expr_path(n["a"]) == "element_size") for n in sz)
        chk.expect(okmul, "slice:raw-length", "[T]::idl_serialize: the raw byte view must be len * element_size bytes long")

    def r4():
        # the key of the memo (and the payload of Knot) identifies the Rust type: `type_name` alone does not — two types of one name declared
        # in different blocks of a function, or in two versions of a crate, share it — so the key carries a component that is unique per
        # monomorphic type (the address of a function instantiated at T, or core::any::TypeId)
        tid = c.fn(r"^candid::types::internal::TypeId::of$")
        chk.analysed(tid["key"])
        lits = [x for x in walk(tid["body"]) if x.get("k") == "struct" and (x.get("res") or {}).get("path", "").endswith("internal::TypeId")]
        if not lits:
            raise AnchorMissing("TypeId::of: the struct literal `TypeId { .. }` was not found")
        unique = []
        for fname, fv in lits[0]["fields"]:
            for y in walk(fv):
                if (y.get("k") == "path" and (y.get("res") or {}).get("kind") in ("Fn", "AssocFn") and y.get("ga") and y.get("k") != "call" and "T" in (y.get("ga") or []))                         or (y.get("k") == "call" and (callee(y) or "").endswith("core::any::TypeId::of")):
                    unique.append(fname)
        chk.expect(bool(unique), "memo:key-identifies-the-rust-type",
                   f"TypeId::of builds the memo key from {[f for f, _ in lits[0]['fields']]} only: no component is unique per Rust type (`type_name::<T>()` is "
                   f"the same for two types of one name declared in different blocks, so both share one memo entry and one of them is encoded with "
                   f"the other's type table — the message does not decode)", where=f"{tid['span']['file']}:{lits[0].get('ln')}",
                   ok_detail=f"field(s) {unique} hold a per-type address / core TypeId")
        tr = [h for k, h in c.hir.items() if k == "candid::types::CandidType::ty"]
        if not tr:
            raise AnchorMissing("default method CandidType::ty not found")
        h = tr[0]
        chk.analysed(h["key"])
        ifs = [n for n in nodes(h["body"], "if") if any(x.get("k") == "let" for x in walk(n["c"]))
               and any((callee(x) or "").endswith("internal::find_type") for x in walk(n["c"]) if x.get("k") == "call")]
        if not ifs:
            raise AnchorMissing("CandidType::ty: `if let Some(t) = find_type(&id)` not found")
        miss = ifs[0].get("e")
        seq = []
        for n in walk(miss):
            if n.get("k") == "call":
                cal = callee(n) or ""
                if cal.endswith("internal::env_add"):
                    seq.append("env_add:" + ("Unknown" if "Unknown" in variant_paths(n, TI) else "type"))
                elif cal.endswith("CandidType::_ty"):
                    seq.append("_ty")
        chk.expect(seq[:3] == ["env_add:Unknown", "_ty", "env_add:type"], "memo:miss-protocol",
                   f"CandidType::ty (memo miss) must mark the type as in-progress (env_add(id, Unknown)), derive it (_ty()), then store the "
                   f"result (env_add(id, t)); found {seq}. Recursive types are tied through the in-progress mark.",
                   ok_detail=str(seq[:3]))
        hit = ifs[0]["t"]
        knot = "Knot" in variant_paths(hit, TI) and "Unknown" in [x for m in nodes(hit, "match") for a in m["arms"] for x in pat_ctor_names(a["pat"])]
        chk.expect(knot, "memo:in-progress-is-knot", "CandidType::ty (memo hit): an in-progress entry (Unknown) must be returned as Knot(id)")
        hb = c.fn(r"candid::ser::IDLBuilder::new$")
        cs = [(callee(n) or "") for n in walk(hb["body"]) if n.get("k") == "call"]
        chk.expect(any(x.endswith("internal::env_clear") for x in cs), "memo:cleared-per-builder",
                   "IDLBuilder::new must clear the thread-local type memo: the derived type of a Rust type depends on what the memo "
                   "already contains, so a shared memo makes the encoding depend on earlier messages")
        he = c.fn(r"types::internal::env_clear$")
        stat = sorted({(x.get("res") or {}).get("path", "").rsplit("::", 1)[-1] for x in walk(he["body"]) if x.get("k") == "path"
                       and (x.get("res") or {}).get("kind") in ("Static", "Const")})
        chk.expect("ENV" in stat, "memo:env_clear-clears-ENV", f"env_clear must clear the ENV memo; touches {stat}")
        # ... completely: a partial clear (retain / remove of some keys) leaves entries whose meaning depended on the ones removed
        how = []
        for x in walk(he["body"]):
            if x.get("k") == "mcall" and x["m"] == "with" and any((y.get("res") or {}).get("path", "").endswith("::ENV") for y in walk(x["recv"]) if y.get("k") == "path"):
                for y in walk(x["args"][0]):
                    if y.get("k") == "mcall" and "btree::map::BTreeMap" in (y.get("callee") or ""):
                        how.append(y["m"])
                    if y.get("k") == "assign":
                        how.append("assign")
        chk.expect(how in (["clear"], ["assign"]), "memo:env_clear-clears-everything",
                   f"env_clear must empty the ENV memo completely (a partial clear keeps entries such as `Knot(T)` whose target was "
                   f"removed, so what a type derives to depends on earlier messages); operations on the map: {how}",
                   ok_detail="ENV.clear()")

    def r5():
        import c03, c08, c09
        chk.include(c09, "C09.R1", "C01.R5", facts)     # big-number and 128-bit codecs used by Nat/Int/i128/u128 values
        chk.include(c03, "C03.R6", "C01.R6", facts)     # message layout
        chk.include(c08, "C08.R3", "C01.R7", facts)     # tagged buffers between the decoder and the Nat/Int/Principal/Func/Service visitors
        import c15
        chk.include(c15, "C15.R1", "C01.R8", facts)     # the derive macro orders fields by the same hash the runtime writes into the type table
        chk.include(c03, "C03.R2", "C01.R9", facts)     # type-table references are written the way the header parser reads them (tables of any size decode)

    def r10():
        """The element deserializer of the primitive-vector fast path must treat newtype structs as the main deserializer does
        (`deserialize_newtype_struct` -> `visit_newtype_struct`): serde's own value deserializers (`U32Deserializer` …) forward
        `deserialize_newtype_struct` to `deserialize_any`, i.e. call `visit_u32` on a visitor that only implements `visit_newtype_struct`,
        so `Vec<Id>` with `struct Id(u32)` — whose Candid type is `vec nat32` and which therefore takes the fast path — encodes but does
        not decode."""
        b = c.body(r"PrimitiveVecAccess<'de> as serde_core::de::SeqAccess<'de>>::next_element_seed$")
        chk.analysed(b.key)
        main_nt = c.fn(r"^<&(?:'a )?mut candid::de::Deserializer<'de> as serde_core::de::Deserializer<'de>>::deserialize_newtype_struct$")
        transparent = any(x.get("k") == "mcall" and x["m"] == "visit_newtype_struct" for x in walk(main_nt["body"]))
        if not transparent:
            chk.ok("fast-path-element:newtype-transparent", "the main deserializer does not unwrap newtype structs either", nontrivial=False)
            return
        bare = []
        n = 0
        for bi, t, cal in b.call_sites():
            if cal and cal.endswith("DeserializeSeed::deserialize"):
                n += 1
                ga = ((t.get("f") or {}).get("k") or {}).get("ga") or []
                d = ga[-1] if ga else ""
                if re.match(r"^[\w:]*::de::value::\w+Deserializer<", d):
                    bare.append((re.search(r"(\w+Deserializer)<", d) or [None, d])[1])
        chk.floor("element dispatches of the primitive-vector fast path", n, 11)
        chk.expect(not bare, "fast-path-element:newtype-transparent",
                   f"PrimitiveVecAccess::next_element_seed hands serde's plain value deserializers ({', '.join(sorted(set(bare))[:4])}, …) to the element's "
                   f"Deserialize impl; they answer `deserialize_newtype_struct` with `visit_<prim>`, which a derived newtype visitor does not implement: "
                   f"`Vec<Id>` with `#[derive(CandidType, Deserialize)] struct Id(u32)` encodes as `vec nat32` and fails to decode (the slow path, taken for "
                   f"`Vec<Option<Id>>` or a single `Id`, decodes it) — the native round trip is not the identity for that type",
                   where=f"{b.span['file']}:{b.span['lo']}", ok_detail="elements are dispatched through a newtype-transparent deserializer")

    for rid, desc, fn in (("C01.R10", "the primitive-vector fast path decodes newtype elements like the element-wise path", r10),
                          ("C01.R1", "type table and value stream use one field order (derive + hand-written impls)", r1),
                          ("C01.R2", "decoding context re-established for every component; Drop clears the flags", r2),
                          ("C01.R3", "primitive matrix: bulk writer, element writer and decoder agree", r3),
                          ("C01.R4", "type-memo protocol and per-builder reset", r4)):
        if only and only != rid:
            continue
        chk.run_rule(rid, desc, fn)
    if not only or only in ("C01.R5", "C01.R6", "C01.R7"):
        r5()


def pat_ctor_names(p):
    out = []
    for n in walk(p):
        r = n.get("res")
        if isinstance(r, dict) and isinstance(r.get("path"), str):
            out.append(r["path"].rsplit("::", 1)[-1])
    return out
