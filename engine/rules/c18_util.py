"""Private helpers of c18.py / c20.py: compact rendering of HIR, parent maps, literal-piece extraction of RcDoc chains,
local-definition lookup.  Nothing here matches text or positions; everything works on resolved HIR nodes."""
from facts import callee, lit_value, nodes, peel, short, unblock, walk


# --------------------------------------------------------------------------- rendering (messages / exploration only)
def show(e, depth=0):
    """compact one-line rendering of a HIR expression (for messages; never compared)"""
    if depth > 12:
        return ".."
    if isinstance(e, list):
        return "[" + ", ".join(show(x, depth + 1) for x in e) + "]"
    if not isinstance(e, dict):
        return repr(e)
    k = e.get("k")
    d = depth + 1
    if k == "lit":
        return repr(lit_value(e))
    if k == "path":
        r = e.get("res") or {}
        return short(r.get("path")) if r.get("kind") != "Local" else r.get("path")
    if k == "call":
        c = callee(e)
        name = short(c) if c else "(" + show(e.get("f"), d) + ")"
        return f"{name}({', '.join(show(a, d) for a in e.get('args', []))})"
    if k == "mcall":
        return f"{show(e['recv'], d)}.{e['m']}({', '.join(show(a, d) for a in e.get('args', []))})"
    if k == "field":
        return f"{show(e['e'], d)}.{e['n']}"
    if k == "index":
        return f"{show(e['a'], d)}[{show(e['b'], d)}]"
    if k == "ref":
        return "&" + show(e["e"], d)
    if k == "un":
        return {"Deref": "*", "Not": "!", "Neg": "-"}.get(e.get("op"), "?") + show(e["a"], d)
    if k == "bin":
        return f"({show(e['a'], d)} {e.get('op')} {show(e['b'], d)})"
    if k == "cast":
        return f"({show(e['e'], d)} as {e.get('ty')})"
    if k == "tup":
        return "(" + ", ".join(show(x, d) for x in e.get("es", [])) + ")"
    if k == "array":
        return "[" + ", ".join(show(x, d) for x in e.get("es", [])) + "]"
    if k == "if":
        return f"if {show(e['c'], d)} {{{show(e['t'], d)}}} else {{{show(e.get('e'), d)}}}"
    if k == "let":
        return f"let {show_pat(e['pat'])} = {show(e['init'], d)}"
    if k == "block":
        parts = [show(s, d) for s in e.get("stmts") or []]
        if e.get("e"):
            parts.append(show(e["e"], d))
        return "{" + "; ".join(parts) + "}"
    if k == "slet":
        return f"let {show_pat(e['pat'])} = {show(e.get('init'), d)}"
    if k == "semi":
        return show(e["e"], d)
    if k == "match":
        return f"match {show(e['scrut'], d)} {{{', '.join(show_pat(a['pat']) + ' => ' + show(a['body'], d) for a in e['arms'])}}}"
    if k == "closure":
        return f"|{', '.join(show_pat(p) for p in e.get('params', []))}| {show(e['body'], d)}"
    if k == "ret":
        return f"return {show(e.get('e'), d)}"
    if k == "struct":
        return f"{short((e.get('res') or {}).get('path'))}{{{', '.join(n + ': ' + show(v, d) for n, v in e.get('fields', []))}}}"
    if k == "assign":
        return f"{show(e['a'], d)} = {show(e['b'], d)}"
    if k == "assignop":
        return f"{show(e['a'], d)} {e.get('op')}= {show(e['b'], d)}"
    if k == "loop":
        return f"loop {show(e['body'], d)}"
    return f"<{k}>"


def show_pat(p):
    if not isinstance(p, dict):
        return "_"
    k = p.get("k")
    if k == "wild":
        return "_"
    if k == "bind":
        return p["n"] + ("@" + show_pat(p["sub"]) if p.get("sub") else "")
    if k in ("ts",):
        return f"{short((p.get('res') or {}).get('path'))}({', '.join(show_pat(s) for s in p.get('subs', []))})"
    if k == "struct":
        return f"{short((p.get('res') or {}).get('path'))}{{{', '.join(n + ': ' + show_pat(s) for n, s in p.get('fields', []))}}}"
    if k == "path":
        return short((p.get("res") or {}).get("path"))
    if k == "tuple":
        return "(" + ", ".join(show_pat(s) for s in p.get("subs", [])) + ")"
    if k == "or":
        return " | ".join(show_pat(s) for s in p.get("subs", []))
    if k in ("ref", "deref"):
        return "&" + show_pat(p["sub"])
    if k == "lit":
        return repr(lit_value(p))
    if k == "slice":
        return "[" + ", ".join(show_pat(s) for s in (p.get("pre") or [])) + (", .." if p.get("mid") else "") + "]"
    return f"<{k}>"


# --------------------------------------------------------------------------- structure
def parent_map(root):
    """id(node) -> parent dict node (lists are skipped)"""
    par = {}
    stack = [(root, None)]
    while stack:
        n, p = stack.pop()
        if isinstance(n, dict):
            if p is not None:
                par[id(n)] = p
            for v in n.values():
                if isinstance(v, (dict, list)):
                    stack.append((v, n))
        elif isinstance(n, list):
            for v in n:
                if isinstance(v, (dict, list)):
                    stack.append((v, p))
    return par


def ancestors(node, par):
    out = []
    n = par.get(id(node))
    while n is not None:
        out.append(n)
        n = par.get(id(n))
    return out


def contains(root, node):
    return any(n is node for n in walk(root))


def local_name(e):
    """name of the local variable an expression denotes after stripping refs/clones/to_string..., else None"""
    e = peel(e)
    if isinstance(e, dict) and e.get("k") == "path" and (e.get("res") or {}).get("kind") == "Local":
        return e["res"]["path"]
    return None


def bind_names(pat):
    return [n["n"] for n in walk(pat) if n.get("k") == "bind"]


def let_of(root, name):
    """all `let <pat binding name> = init` statements under root"""
    return [s for s in nodes(root, "slet") if name in bind_names(s["pat"])]


def tuple_position(pat, name):
    """index of the tuple component of `pat` that binds `name` (None if pat is not a tuple pattern binding it)"""
    if isinstance(pat, dict) and pat.get("k") == "tuple":
        for i, s in enumerate(pat.get("subs", [])):
            if name in bind_names(s):
                return i
    return None


def value_leaves(e):
    """the expressions an `if/else`/`match`/block expression can evaluate to (tail positions)"""
    e = unblock(e)
    if not isinstance(e, dict):
        return []
    k = e.get("k")
    if k == "if":
        return value_leaves(e["t"]) + (value_leaves(e["e"]) if e.get("e") else [])
    if k == "match" and e.get("src") == "Normal":
        out = []
        for a in e["arms"]:
            out.extend(value_leaves(a["body"]))
        return out
    if k == "block":
        return value_leaves(e["e"]) if e.get("e") else []
    return [e]


def resolve_local(fn_body, e, seen=None):
    """follow `let x = <init>` for a tail that is a plain local: returns the defining expressions (tail leaves)"""
    seen = set() if seen is None else seen
    out = []
    for leaf in value_leaves(e):
        n = None
        if leaf.get("k") == "path" and (leaf.get("res") or {}).get("kind") == "Local":
            n = leaf["res"]["path"]
        if n and n not in seen:
            lets = [s for s in let_of(fn_body, n) if s.get("init") is not None and s["pat"].get("k") == "bind"]
            if len(lets) == 1:
                seen.add(n)
                out.extend(resolve_local(fn_body, lets[0]["init"], seen))
                continue
        out.append(leaf)
    return out


# --------------------------------------------------------------------------- RcDoc append chains
def chain_pieces(e):
    """flatten `a.append(b).append(c)` / `str(x)` / `RcDoc::text(x)` / `enclose(l, d, r)` into the list of pieces in
    emission order; a piece is ('lit', str) or ('expr', node)"""
    e = unblock(e)
    if not isinstance(e, dict):
        return []
    k = e.get("k")
    if k == "mcall" and e["m"] == "append" and len(e.get("args", [])) == 1:
        return chain_pieces(e["recv"]) + chain_pieces(e["args"][0])
    if k == "call":
        c = callee(e) or ""
        a = e.get("args", [])
        if c.endswith("pretty::utils::str") or c.endswith("pretty::utils::kwd") or c.endswith("::text") or c.endswith("::as_string"):
            if len(a) == 1:
                v = lit_value(a[0])
                if isinstance(v, str):
                    return [("lit", v + (" " if c.endswith("::kwd") else ""))]
                return [("expr", e)]
        if c.endswith("pretty::utils::enclose") and len(a) == 3:
            return chain_pieces(a[0]) + chain_pieces(a[1]) + chain_pieces(a[2])
    if k == "lit" and isinstance(lit_value(e), str):
        return [("lit", lit_value(e))]
    return [("expr", e)]


def literal_text(e):
    """all string literals under e, concatenated in pre-order (source order for straight-line code)"""
    return "".join(v for v in (lit_value(n) for n in nodes(e, "lit")) if isinstance(v, str))


def str_lits(e):
    return [v for v in (lit_value(n) for n in nodes(e, "lit")) if isinstance(v, str)]


# --------------------------------------------------------------------------- format!() templates
def fmt_template(fmt_call):
    """decode a `format!` expansion (`alloc::fmt::format(core::fmt::Arguments::new(<template bytes>, &args))`) into
    [('lit', s) | ('arg', expr)]; None when the encoding is not understood (caller fails closed)"""
    tmpl = None
    for n in walk(fmt_call):
        if n.get("k") == "call" and (callee(n) or "").startswith("core::fmt::Arguments::") and n.get("args"):
            v = lit_value(n["args"][0])
            if isinstance(v, (bytes, str)):
                tmpl = v
                break
    if tmpl is None:
        return None
    # the argument expressions: first `let args = (&a, &b, ..)` tuple
    argv = []
    for s in nodes(fmt_call, "slet"):
        ini = s.get("init")
        if isinstance(ini, dict) and ini.get("k") == "tup":
            argv = [peel(x) for x in ini["es"]]
            break
    out = []
    if isinstance(tmpl, str):        # older encoding: literal pieces with {} inline
        parts = tmpl.split("{}")
        for i, p in enumerate(parts):
            if p:
                out.append(("lit", p))
            if i + 1 < len(parts):
                if i >= len(argv):
                    return None
                out.append(("arg", argv[i]))
        return out
    i = 0
    ai = 0
    b = bytes(tmpl)
    while i < len(b):
        x = b[i]
        if x == 0:
            break
        if x < 0x80:
            out.append(("lit", b[i + 1:i + 1 + x].decode("utf-8", "replace")))
            i += 1 + x
        elif x == 0xC0:
            if ai >= len(argv):
                return None
            out.append(("arg", argv[ai]))
            ai += 1
            i += 1
        else:
            return None
    return out


def scoped_let(node, par, name):
    """the `let` statement (plain or destructuring) that binds `name` and is in scope at `node`: searched outwards through the
    enclosing blocks, only statements that precede the one containing `node`"""
    child = node
    n = par.get(id(node))
    while n is not None:
        if n.get("k") == "block":
            found = None
            for st in n.get("stmts") or []:
                if st is child or contains(st, child):
                    break
                if st.get("k") == "slet" and name in bind_names(st["pat"]):
                    found = st
            if found is not None:
                return found
        child = n
        n = par.get(id(n))
    return None


def resolve_scoped(par, e, depth=0):
    """like resolve_local, but lexical scoping is respected (several `let x` in one function are told apart)"""
    out = []
    for leaf in value_leaves(e):
        if depth < 6 and leaf.get("k") == "path" and (leaf.get("res") or {}).get("kind") == "Local":
            st = scoped_let(leaf, par, leaf["res"]["path"])
            if st is not None and st.get("init") is not None and st["pat"].get("k") == "bind":
                out.extend(resolve_scoped(par, st["init"], depth + 1))
                continue
        out.append(leaf)
    return out


# --------------------------------------------------------------------------- `?`, iterator chains
def untry(e):
    """strip `?` (match TryDesugar over Try::branch(x)) and tail-only blocks: returns x"""
    while True:
        e = unblock(e)
        if isinstance(e, dict) and e.get("k") == "match" and e.get("src") == "TryDesugar":
            sc = e["scrut"]
            if sc.get("k") == "call" and sc.get("args"):
                e = sc["args"][0]
                continue
        return e


def is_try_return(ret):
    """`return FromResidual::from_residual(..)` produced by `?`"""
    e = unblock(ret.get("e")) if isinstance(ret, dict) else None
    return isinstance(e, dict) and e.get("k") == "call" and (callee(e) or "").endswith("from_residual")


def resolve_scoped_try(par, e, depth=0):
    """resolve_scoped that also looks through `?`"""
    out = []
    for leaf in value_leaves(untry(e)):
        leaf = untry(leaf)
        if depth < 8 and leaf.get("k") == "path" and (leaf.get("res") or {}).get("kind") == "Local":
            st = scoped_let(leaf, par, leaf["res"]["path"])
            if st is not None and st.get("init") is not None and st["pat"].get("k") == "bind":
                out.extend(resolve_scoped_try(par, st["init"], depth + 1))
                continue
        out.append(leaf)
    return out


NON_LENGTHENING = {"iter", "into_iter", "iter_mut", "map", "scan", "filter", "filter_map", "take", "skip", "take_while",
                   "skip_while", "cloned", "copied", "clone", "enumerate", "rev", "collect", "by_ref", "inspect", "peekable",
                   "as_slice", "as_ref", "to_vec", "to_owned"}
ORDER_PRESERVING = {"iter", "into_iter", "iter_mut", "cloned", "copied", "by_ref", "as_slice", "as_ref", "inspect", "peekable"}


def chain_root(par, e, allowed, depth=0):
    """follow an iterator/collection expression back through adaptors in `allowed` (and through lets) to the local it was
    built from; returns (root local name or None, [adaptor names used])"""
    used = []
    e = untry(e)
    while isinstance(e, dict):
        if e.get("k") == "ref":
            e = untry(e["e"])
        elif e.get("k") == "un" and e.get("op") == "Deref":
            e = untry(e["a"])
        elif e.get("k") == "mcall" and e["m"] in allowed:
            used.append(e["m"])
            e = untry(e["recv"])
        elif e.get("k") == "call" and (callee(e) or "").endswith("IntoIterator::into_iter") and e.get("args"):
            e = untry(e["args"][0])
        else:
            break
    if isinstance(e, dict) and e.get("k") == "path" and (e.get("res") or {}).get("kind") == "Local":
        name = e["res"]["path"]
        st = scoped_let(e, par, name) if depth < 6 else None
        if st is not None and st.get("init") is not None and st["pat"].get("k") == "bind":
            roots = []
            for leaf in value_leaves(untry(st["init"])):
                r, u2 = chain_root(par, leaf, allowed, depth + 1)
                roots.append(r)
                used.extend(u2)
            if roots and all(r == roots[0] for r in roots) and roots[0] is not None:
                return roots[0], used
            return None, used
        return name, used
    return None, used


PANIC_MACROS = {"unreachable", "unimplemented", "panic", "todo", "assert", "assert_eq", "assert_ne"}


def is_panic_expr(e):
    e = unblock(e)
    return isinstance(e, dict) and any(m in PANIC_MACROS for m in (e.get("mac") or []))


def diverges(e):
    """the expression never completes normally: return/break/continue/panic!, or a block ending in one"""
    e = unblock(e)
    if not isinstance(e, dict):
        return False
    if e.get("k") in ("ret", "break", "continue") or is_panic_expr(e):
        return True
    if e.get("k") == "block":
        sts = e.get("stmts") or []
        last = e.get("e") or (sts[-1] if sts else None)
        if isinstance(last, dict) and last.get("k") == "semi":
            last = last["e"]
        return diverges(last) if last is not None else False
    return False
