"""C07 — decoding quotas bound the work and never change the result (structural clauses)."""
import re

from facts import AnchorMissing, short, callee, expr_path, lit_value, nodes, unblock, walk
from shared import method_calls
import de_rules

TITLE = ("C07: every value handed to a visitor was charged for on every path; fast paths are armed only after a bulk "
         "charge of len*c; back-tracking keeps the spent budget; skipping is metered as skipping on every exit; the cost "
         "API subtracts remaining from original.")


def has_try(node):
    return any(n.get("k") == "match" and n.get("src") == "TryDesugar" for n in walk(node)) or \
        any(n.get("k") == "ret" for n in walk(node))


def _evaluated_before(root, a, b):
    """is expression `a` completely evaluated before expression `b` starts?  Decided on the HIR tree: find the lowest common ancestor and
    compare the evaluation order of the two children that contain a and b (statements in order; receiver before arguments; arguments left to
    right; `let` initialiser before later statements).  Conservative: unknown shapes answer False."""
    def path_to(node, target, acc):
        if node is target:
            return acc
        if isinstance(node, dict):
            for key, v in node.items():
                if key in ("pat", "params", "res", "v", "ty"):
                    continue
                r = path_to(v, target, acc + [(node, key, None)])
                if r is not None:
                    return r
        elif isinstance(node, list):
            for i, v in enumerate(node):
                r = path_to(v, target, acc + [(node, None, i)])
                if r is not None:
                    return r
        return None
    pa, pb = path_to(root, a, []), path_to(root, b, [])
    if pa is None or pb is None:
        return False
    i = 0
    while i < len(pa) and i < len(pb) and pa[i][0] is pb[i][0] and pa[i][1:] == pb[i][1:]:
        i += 1
    if i >= len(pa) or i >= len(pb) or pa[i][0] is not pb[i][0]:
        return False      # one contains the other
    node, ka, ia = pa[i]
    _, kb, ib = pb[i]
    if isinstance(node, list):
        return ia < ib
    ORDER = {"block": ["stmts", "e"], "mcall": ["recv", "args"], "call": ["f", "args"], "bin": ["a", "b"], "assign": ["b", "a"],
             "slet": ["init", "els"], "if": ["c", "t", "e"], "match": ["scrut", "arms"], "tup": ["es"], "struct": ["fields", "base"]}
    seq = ORDER.get(node.get("k"))
    if not seq or ka not in seq or kb not in seq:
        return False
    if node.get("k") == "if" and {ka, kb} == {"t", "e"}:
        return False
    return seq.index(ka) < seq.index(kb)


def run(chk, facts, tier, only=None):
    c = facts.crate("candid")

    def r1():
        de_rules.rule_charged(chk, facts)

    def r2():
        de_rules.rule_bulk(chk, facts)

    def r3():
        h = c.method(r"^candid::de::Deserializer", "recoverable_visit_some", "")
        chk.analysed(h["key"])
        body = h["body"]
        items = list(body.get("stmts") or []) + ([body["e"]] if body.get("e") else [])
        saved = None
        saved_at = visit_at = None
        for i, st in enumerate(items):
            if st.get("k") == "slet" and st.get("init") is not None:
                ini = unblock(st["init"])
                if ini.get("k") == "mcall" and ini["m"] == "clone" and expr_path(ini["recv"]) == "self":
                    saved, saved_at = st["pat"].get("n"), i
            if visit_at is None and any(n.get("k") == "mcall" and n["m"] == "visit_some" for n in walk(st)):
                visit_at = i
        chk.expect(saved is not None and visit_at is not None and saved_at < visit_at, "snapshot-before-attempt",
                   "recoverable_visit_some must clone the deserializer state before attempting visit_some")
        restores = []
        for a in nodes(body, "assign"):
            lhs = a["a"]
            if lhs.get("k") == "un" and lhs.get("op") == "Deref" and expr_path(lhs["a"]) == "self" and unblock(a["b"]).get("k") == "struct":
                restores.append(unblock(a["b"]))
        if len(restores) != 1:
            raise AnchorMissing(f"recoverable_visit_some: expected one `*self = Self {{ .. }}` restore, found {len(restores)}")
        st = restores[0]
        fields = {f[0]: f[1] for f in st["fields"]}
        base = expr_path(st.get("base")) if st.get("base") else None
        cfg = fields.get("config")
        cfg_src = expr_path(cfg) if cfg is not None else None
        chk.expect(base == saved and set(fields) == {"config"} and cfg_src == "self.config", "restore-keeps-spent-budget",
                   f"when a coercion below opt fails, the state is rolled back to the snapshot but the quota counters must be the "
                   f"current ones (config: self.config.clone(), ..snapshot); found fields {sorted(fields)} from {cfg_src}, base {base}. "
                   f"Restoring the snapshot's config would refund the work spent on the failed attempt.",
                   ok_detail="*self = Self { config: self.config.clone(), ..snapshot }")
        # and the skip that follows is charged
        arm = [a for m in nodes(body, "match") for a in m["arms"] if any(n is st for n in walk(a["body"]))]
        seq = [n["m"] for n in method_calls(arm[0]["body"], r"^(add_cost|deserialize_ignored_any)$")] if arm else []
        chk.expect(seq[:2] == ["add_cost", "deserialize_ignored_any"], "backtrack-is-charged",
                   f"after rolling back, the recovery must charge (add_cost) before skipping the value; found {seq}")

    def r4():
        h = c.method(r"^&mut candid::de::Deserializer", "deserialize_ignored_any", r"de::Deserializer$")
        chk.analysed(h["key"])
        body = h["body"]
        items = list(body.get("stmts") or []) + ([body["e"]] if body.get("e") else [])
        set_at = restore_at = disp_at = None
        saved = None
        for i, st in enumerate(items):
            if st.get("k") == "slet" and st.get("init") is not None:
                ini = unblock(st["init"])
                if ini.get("k") == "call" and (callee(ini) or "").endswith("mem::replace") and \
                        (expr_path(ini["args"][0]) or "").endswith("self.is_untyped") and lit_value(ini["args"][1]) is True:
                    set_at, saved = i, st["pat"].get("n")
            s = st["e"] if st.get("k") == "semi" else st
            if s.get("k") == "assign" and expr_path(s["a"]) == "self.is_untyped" and saved and expr_path(s["b"]) == saved:
                restore_at = i
            if disp_at is None and any(n.get("k") == "mcall" and n["m"] == "deserialize_any" for n in walk(st)):
                disp_at = i
        ok = None not in (set_at, restore_at, disp_at) and set_at < disp_at < restore_at
        early = ok and any(has_try(items[j]) for j in range(set_at, restore_at))
        chk.expect(ok and not early, "skip:untyped-set-and-restored",
                   f"deserialize_ignored_any must set is_untyped=true before dispatching, and restore the saved value on every exit "
                   f"(no `?`/return between); set at {set_at}, dispatch at {disp_at}, restore at {restore_at}, early exit: {early}",
                   ok_detail="is_untyped saved, set, dispatch, restored; no early exit in between")
        # nothing is charged, read or handed to the visitor before the switch: work done ahead of `is_untyped = true` is metered as ordinary
        # decoding (no skipping quota, no penalty factor) although the value is being skipped
        if set_at is not None:
            pre = []
            for st in items[:set_at]:
                for n in walk(st):
                    if n.get("k") == "mcall" and (n["m"] == "add_cost" or n["m"].startswith("visit_") or n["m"].startswith("read_") or n["m"] in ("borrow_bytes", "set_position", "deserialize_any")
                                                 or re.match(r"deserialize_\w+$", n["m"])):
                        pre.append(n["m"])
                    if n.get("k") == "ret":
                        pre.append("return")
            chk.expect(not pre, "skip:nothing-before-the-mode-switch",
                       f"deserialize_ignored_any does work before it switches the decoder to skipping mode ({sorted(set(pre))}): a value skipped on that path is "
                       f"charged to the decoding quota only — `set_skipping_quota(0)` no longer rejects it and the skipping penalty is not applied",
                       where=f"{h['span']['file']}:{h['span']['lo']}", ok_detail="the mode switch is the first effect")
        ex = [i for i, st in enumerate(items) if (st.get("e") if st.get("k") == "semi" else st).get("k") == "assign"
              and expr_path((st.get("e") if st.get("k") == "semi" else st)["a"]) == "self.expect_type"]
        chk.expect(bool(ex) and ex[0] < (disp_at or 0), "skip:expected-becomes-wire",
                   "deserialize_ignored_any must decode the skipped value at its own wire type (expect_type = wire_type.clone())")
        # add_cost
        h = c.method(r"^candid::de::Deserializer", "add_cost", "")
        chk.analysed(h["key"])
        penal = [n for n in method_calls(h["body"], r"^saturating_mul$")]
        chk.expect(len(penal) == 1 and lit_value(penal[0]["args"][0]) is not None and lit_value(penal[0]["args"][0]) >= 1,
                   "add_cost:skip-penalty-saturates", "add_cost must scale the cost of skipped data with a saturating multiplication")
        # every decrement `Some(n - cost)` is guarded by `n < cost => Err`
        subs = [n for n in walk(h["body"]) if n.get("k") == "bin" and n.get("op") == "Sub"]
        guards = [n for n in nodes(h["body"], "if") if n["c"].get("k") == "bin" and n["c"].get("op") == "Lt"
                  and any(x.get("k") == "ret" for x in walk(n["t"]))]
        chk.expect(len(subs) == 2 and len(guards) == 2, "add_cost:no-underflow",
                   f"add_cost must reject (`n < cost` ⇒ Err) before each `n - cost`; found {len(guards)} guards for {len(subs)} subtractions")
        fields = sorted({expr_path(n["a"]) for n in nodes(h["body"], "assign")})
        chk.expect(fields == ["self.config.decoding_quota", "self.config.skipping_quota"], "add_cost:both-quotas",
                   f"add_cost must decrement decoding_quota and skipping_quota; assigns {fields}")
        # every successful exit has charged every quota that is configured and applies (path rule on the MIR)
        from pathflow import Flow, simple_local
        from facts import op_place, place_fields
        b = c.method(r"^candid::de::Deserializer", "add_cost", "", kind="mir")
        flow = Flow(b)
        kind_of = {}      # local -> ("discr", quota) | ("untyped",)
        for blk in b.blocks:
            for st in blk["s"]:
                if st["k"] != "assign":
                    continue
                l = simple_local(st["p"])
                if l is None:
                    continue
                r = st["r"]
                if r["k"] == "discr":
                    fs = place_fields(r["p"])
                    if fs and fs[-1] in ("decoding_quota", "skipping_quota"):
                        kind_of[l] = ("discr", fs[-1])
                elif r["k"] == "use":
                    sp = op_place(r["o"])
                    if sp is not None and place_fields(sp)[-1:] == ["is_untyped"]:
                        kind_of[l] = ("untyped",)
        exits = []

        def on_stmt(bi, st, bits, cd):
            if st["k"] == "assign":
                fs = place_fields(st["p"])
                if fs and fs[-1] in ("decoding_quota", "skipping_quota") and not (st["p"].get("p") or [])[-1:] == ["*"]:
                    return frozenset(set(bits) | {"charged:" + fs[-1]})
                if st["r"]["k"] == "agg" and st["r"].get("variant") == "Err":
                    return frozenset(set(bits) | {"ERR"})
            return bits

        def on_term(bi, t, bits, cd):
            if t["k"] == "return":
                exits.append(bits)
            return bits

        def on_edge(bi, t, sb, kind, val, bits, cd):
            if kind == "switch":
                dl = simple_local(op_place(t["d"]) or {})
                ko = kind_of.get(dl) or kind_of.get(flow.root_alias(dl))
                if ko and ko[0] == "discr":
                    none = (val == 0) or (isinstance(val, tuple) and val[0] == "else" and val[1] == (1,))
                    return frozenset(set(bits) | {("none:" if none else "some:") + ko[1]})
                if ko and ko[0] == "untyped":
                    false = (val == 0) or (isinstance(val, tuple) and val[0] == "else" and val[1] == (1,))
                    return frozenset(set(bits) | {"untyped:" + ("no" if false else "yes")})
            return bits

        flow.explore(frozenset(), on_stmt=on_stmt, on_term=on_term, on_edge=on_edge)
        bad = []
        for bits in exits:
            if "ERR" in bits:
                continue
            if not ("charged:decoding_quota" in bits or "none:decoding_quota" in bits):
                bad.append(("decoding_quota", sorted(bits)))
            if not ("charged:skipping_quota" in bits or "none:skipping_quota" in bits or "untyped:no" in bits):
                bad.append(("skipping_quota", sorted(bits)))
        chk.expect(len(exits) >= 3 and not bad, "add_cost:every-applicable-quota-charged-on-success",
                   f"add_cost returns Ok on a path where a configured quota that applies was not charged (decoding quota whenever it is set, "
                   f"skipping quota whenever it is set and the data is being skipped): {bad[:2]}. Success must not depend on which other quota is configured.",
                   ok_detail=f"{len(exits)} exits examined")
        # get_value starts typed decoding: the untyped flag of an earlier argument must not leak
        hg = c.fn(r"de::IDLDeserialize::<'de>::get_value$")
        items = list(hg["body"].get("stmts") or []) + ([hg["body"]["e"]] if hg["body"].get("e") else [])
        reset_at = call_at = None
        for i, st in enumerate(items):
            s = st.get("e") if st.get("k") == "semi" else st
            if s.get("k") == "assign" and (expr_path(s["a"]) or "").endswith("de.is_untyped") and lit_value(s["b"]) is False:
                reset_at = i
            if call_at is None and any(x.get("k") == "mcall" and x["m"] == "deserialize_with_type" for x in walk(st)):
                call_at = i
        chk.expect(reset_at is not None and call_at is not None and reset_at < call_at, "get_value:resets-untyped",
                   "IDLDeserialize::get_value must reset is_untyped to false before decoding: get_value_with_type / IDLValue arguments set it and "
                   "nothing else clears it, so a native argument decoded afterwards would be metered (x50, and against the skipping quota) as if it were skipped")
        hw = c.fn(r"de::IDLDeserialize::<'de>::get_value_with_type$")
        sets = [x for x in nodes(hw["body"], "assign") if (expr_path(x["a"]) or "").endswith("de.is_untyped") and lit_value(x["b"]) is True]
        chk.expect(len(sets) == 1, "get_value_with_type:sets-untyped", "get_value_with_type must mark the decoding as untyped (is_untyped = true)")
        # skipping quota only under is_untyped
        ok = False
        for n in nodes(h["body"], "if"):
            if expr_path(n["c"]) == "self.is_untyped" and any(expr_path(a["a"]) == "self.config.skipping_quota" for a in nodes(n["t"], "assign")):
                ok = True
        chk.expect(ok, "add_cost:skipping-quota-when-untyped", "the skipping quota must be charged exactly when is_untyped is set")
        # header charge
        h = c.fn(r"de::IDLDeserialize::<'de>::new_with_config$")
        seq = [(callee(n) or n.get("m") or "").rsplit("::", 1)[-1] for n in walk(h["body"]) if n.get("k") in ("call", "mcall")]
        ok = "from_bytes" in seq and "add_cost" in seq and seq.index("from_bytes") < seq.index("add_cost")
        ac = [n for n in method_calls(h["body"], r"^add_cost$")]
        okarg = bool(ac) and any(x.get("k") == "mcall" and x["m"] == "position" for x in walk(ac[0]["args"][0])) and \
            any(x.get("k") == "mcall" and x["m"] in ("saturating_mul", "checked_mul") for x in walk(ac[0]["args"][0]))
        chk.expect(ok and okarg, "header-is-charged", "IDLDeserialize::new_with_config must charge for the header (add_cost(position * k)) after parsing it")

    def r5():
        h = c.fn(r"de::DecoderConfig::compute_cost$")
        chk.analysed(h["key"])
        found = {}
        for n in method_calls(h["body"], r"^and_then$"):
            recv = expr_path(n["recv"])
            subs = [x for x in walk(n["args"][0]) if x.get("k") == "bin" and x.get("op") == "Sub"]
            if len(subs) == 1:
                a = expr_path(subs[0]["a"])
                b = None
                for x in walk(subs[0]["b"]):
                    p = expr_path(x) if x.get("k") == "field" else None
                    if p and p.startswith("self."):
                        b = p
                params = [p.get("n") for p in (n["args"][0].get("params") or [])]
                found[recv] = (a in params, b)
        want = {"original.decoding_quota": (True, "self.decoding_quota"), "original.skipping_quota": (True, "self.skipping_quota")}
        chk.expect(found == want, "compute_cost:original-minus-remaining",
                   f"compute_cost must return original quota minus remaining quota for both counters; found {found}")
        cost_readers()
        quota_errors_propagate()
        # the cost of a decode is `caller's config - remaining config`: the decoder must start from exactly the caller's quotas
        fb = c.fn(r"^candid::de::Deserializer::<'de>::from_bytes$")
        chk.analysed(fb["key"])
        lits = [x for x in walk(fb["body"]) if x.get("k") == "struct" and (x.get("res") or {}).get("path", "").endswith("de::Deserializer")]
        if not lits:
            raise AnchorMissing("Deserializer::from_bytes: struct literal `Deserializer { .. }` not found")
        cfgv = dict(lits[0]["fields"]).get("config")
        if cfgv is None:
            raise AnchorMissing("Deserializer::from_bytes: the literal has no `config` field")
        e_ = unblock(cfgv)
        chain = []
        while e_.get("k") in ("mcall", "ref", "un", "cast") or (e_.get("k") == "call" and len(e_.get("args") or []) == 1):
            if e_.get("k") == "mcall":
                chain.append(e_["m"])
                e_ = unblock(e_["recv"])
            elif e_.get("k") == "call":
                chain.append(short(callee(e_) or "?"))
                e_ = unblock(e_["args"][0])
            else:
                e_ = unblock(e_.get("e") or e_.get("a"))
        params = [p_.get("n") for p_ in fb["params"] if p_.get("k") == "bind"]
        from_param = e_.get("k") == "path" and (e_.get("res") or {}).get("kind") == "Local" and e_["res"]["path"] in params
        chk.expect(from_param and all(m_ in ("clone", "to_owned", "borrow", "as_ref", "deref", "into") for m_ in chain), "cost-basis:decoder-starts-from-the-callers-config",
                   f"Deserializer::from_bytes initialises `config` through {chain or 'an expression that is not the parameter'}: `compute_cost` subtracts the remaining quotas from "
                   f"the caller's original config, so any adjustment made here (capping one quota by the other, rounding) is reported as work done — the cost "
                   f"of a successful decode then depends on the quotas supplied", where=f"{fb['span']['file']}:{cfgv.get('ln')}",
                   ok_detail="config: config.clone()")

    def quota_errors_propagate():
        """a quota error ends decoding: the Result of add_cost goes straight into `?` at every call site.  Routed through a combinator chain
        it can be relabelled (e.g. map_err(Error::subtype)) and the opt recovery would then swallow it, so metered decoding would return
        a different value instead of a quota error"""
        from facts import op_place, term_callee
        n = 0
        for k, b in sorted(c.bodies.items()):
            if not b.span["file"].endswith("candid/src/de.rs"):
                continue
            for bi, t, cal in b.call_sites():
                if b.is_cleanup(bi) or not cal or not cal.endswith("Deserializer::<'de>::add_cost"):
                    continue
                n += 1
                nxt = b.blocks[t["t"]]["t"] if t.get("t") is not None else None
                ok = False
                if nxt and nxt["k"] == "call":
                    d, r = term_callee(nxt)
                    a0 = op_place(nxt["args"][0]) if nxt.get("args") else None
                    ok = (r or d or "").endswith("Try>::branch") and a0 is not None and a0["l"] == t["dest"]["l"]
                chk.expect(ok, f"add_cost-propagated:{k.rsplit('::', 1)[-1]}@{sum(1 for x in range(bi) if (b.blocks[x]['t'].get('k') == 'call' and (term_callee(b.blocks[x]['t'])[1] or term_callee(b.blocks[x]['t'])[0] or '').endswith('add_cost')))}",
                           f"{k}: the Result of add_cost is not propagated with `?` right away: a quota error could be converted into another error "
                           f"kind (a Subtype error is recovered below opt), so decoding under a quota would return a different value instead of failing",
                           where=f"{b.span['file']}:{t.get('ln')}", ok_detail="add_cost(..)?")
        chk.floor("add_cost call sites in de.rs", n, 40)

    def cost_readers():
        # the reported cost must include the work of done(), which skips (and charges for) the surplus arguments
        n = 0
        crates = [c]
        try:
            crates.append(facts.crate("witness"))
        except Exception:
            pass
        for cr in crates:
            for k, hh in sorted(cr.hir.items()):
                order = {}
                cc_calls, dn_calls = [], []
                for i, x in enumerate(walk(hh["body"])):
                    order[id(x)] = i
                    if x.get("k") == "mcall" and x["m"] == "compute_cost" and "DecoderConfig" in (x.get("recv_ty") or x.get("callee") or ""):
                        cc_calls.append(x)
                    if x.get("k") == "mcall" and x["m"] == "done" and "IDLDeserialize" in (x.get("recv_ty") or x.get("callee") or ""):
                        dn_calls.append(x)
                if not cc_calls or "compute_cost" in k:
                    continue
                n += 1
                chk.analysed(k)
                # HIR pre-order visits a method call's receiver and arguments after the call node itself; compare the positions of the
                # innermost nodes instead: done() must be complete before compute_cost's receiver is evaluated
                bad = [x for x in cc_calls if not dn_calls or not all(_evaluated_before(hh["body"], d, x) for d in dn_calls)]
                chk.expect(not bad, f"cost-reader:{k.rsplit('::', 1)[-1]}:after-done",
                           f"{k} reads the cost (compute_cost) before IDLDeserialize::done() has run: done() skips the surplus arguments and charges "
                           f"the skipping quota for them, so the reported cost misses that work and a quota sized from it rejects the same message",
                           where=f"{hh['span']['file']}:{bad[0].get('ln')}" if bad else None, ok_detail="done() is evaluated before compute_cost")
        chk.floor("functions that report a decoding cost", n, 1)

    for rid, desc, fn in (("C07.R1", "every visitor call / element dispatch is charged on every path", r1),
                          ("C07.R2", "fast paths are armed only after a bulk charge of len * c (c >= 1)", r2),
                          ("C07.R3", "back-tracking keeps the spent budget and is itself charged", r3),
                          ("C07.R4", "skipping is metered as skipping and restored on every exit; header is charged", r4),
                          ("C07.R5", "cost API: original minus remaining, for both quotas", r5)):
        if only and only != rid:
            continue
        chk.run_rule(rid, desc, fn)
