"""Path analyses over the decoder (rust/candid/src/de.rs), shared by C01, C02, C06, C07, C08.

One exploration per (function, entry bits) computes for every site of interest the set of path states that
reach it. Bits:
  E, W            the expected / wire type of the current component has been tested on this path
                  (a SwitchInt whose discriminant is data-derived from self.expect_type / self.wire_type,
                  or a call to check_subtype)
  V:<marker>      on the set side of a fast-path marker test (the marker vouches for both types and for the
                  bulk charge; C08.R2 / C07.R2 check that it may)
  K:<root>        the marker local <root> is known cleared on this path
  charged         add_cost was called;   bulk  add_cost was called with len * (constant >= 1)
  guard           a named DepthGuard is live
  A:<field>       context field assigned in this function on this path;  AF:<field>:<local> assigned from a local
  S:<variant>     the Compound's style variant on this path
"""
import re

from facts import AnchorMissing, op_const, op_int, op_place, place_fields, term_callee
from pathflow import Flow, derive, simple_local

CTX_TYPES = ("expect_type", "wire_type")
CTX_FLAGS = ("text_fast_path", "bignum_vec_fast_path", "primitive_vec_fast_path")
DE_FLAG_FIELDS = set(CTX_FLAGS)
STYLE_MARKERS = {"exact_primitive", "key_text_fast", "value_bignum_fast", "key_fast", "value_fast"}

PASSTHROUGH = re.compile(
    r"(::as_ref$|::deref$|::eq$|::ne$|::is_blob$|::is_tuple$|::clone$|::borrow$|::is_some$|::is_none$|::as_deref$|"
    r"::is_some_and$|Option::<T>::as_ref$)")
READS = re.compile(
    r"(Deserializer::<'de>::(read_len|read_leb_u64|try_read_leb_u64|try_read_leb_i64|read_bool_val|borrow_bytes)$"
    r"|ReadBytesExt::read_[iuf]\d+$|BinRead::read$|binread::BinRead::read_args$"
    r"|types::number::(Int|Nat)::decode$|types::leb128::decode_(nat|int)$|leb128::read::(unsigned|signed)$"
    r"|std::io::Read::read_exact$|Cursor.*::set_position$)")
VISITS = re.compile(r"serde_core::de::Visitor::visit_\w+$")
SEED = re.compile(r"serde_core::de::DeserializeSeed::deserialize$")
WIDTH_FN = {}      # {"key": <key of the fn(PrimitiveType) -> usize of candid::de>}, filled by Decoder.__init__
HELPERS = re.compile(r"candid::de::Deserializer::<'de>::(deserialize_\w+|recoverable_visit_some)$")
TRAIT_DE = re.compile(r"<&mut candid::de::Deserializer<'de> as serde_core::de::Deserializer<'de>>::(deserialize_\w+)$")


def last_field(p):
    fs = place_fields(p)
    return fs[-1] if fs else None


class FnInfo:
    """flow-insensitive derivations for one body: type taint and fast-marker locals with polarity"""

    def __init__(self, body):
        self.b = body
        self.flow = Flow(body)

        def seed(p):
            out = set()
            for f in place_fields(p):
                if f == "expect_type":
                    out.add("E")
                elif f == "wire_type":
                    out.add("W")
            if last_field(p) == "ty":
                out.add("FT")      # the type of an entry of a field list, as written in the table: not resolved through the environment
            return out

        self.tags = self._derive_fieldwise(seed)
        self.roots = self._sink_roots()
        self.markers = self._markers()
        self.len_tags = self._len_tags()

    # -------------------------------------------------------------- taint with per-tuple-field precision
    def _derive_fieldwise(self, seed):
        b = self.b
        tags = {}
        ftags = {}

        def place_tags(p):
            out = set(seed(p) or ())
            proj = p.get("p") or []
            if proj and isinstance(proj[0], dict) and "f" in proj[0] and (p["l"], proj[0]["f"]) in ftags:
                out |= ftags[(p["l"], proj[0]["f"])]
            elif proj and isinstance(proj[0], dict) and "f" in proj[0] and any(k[0] == p["l"] for k in ftags):
                pass
            else:
                out |= tags.get(p["l"], set())
            return out

        def op_tags(o):
            p = op_place(o)
            return place_tags(p) if p is not None else set()

        changed = True
        n = 0
        while changed and n < 60:
            changed = False
            n += 1
            for blk in b.blocks:
                for st in blk["s"]:
                    if st["k"] != "assign":
                        continue
                    r = st["r"]
                    k = r["k"]
                    src = set()
                    if k == "use":
                        src = op_tags(r["o"])
                    elif k in ("ref", "rawptr", "discr"):
                        src = place_tags(r["p"])
                    elif k in ("cast",):
                        src = op_tags(r["o"])
                    elif k == "un":
                        src = op_tags(r["a"])
                    elif k == "bin":
                        src = op_tags(r["a"]) | op_tags(r["b"])
                    elif k == "agg":
                        l = simple_local(st["p"])
                        if l is not None and r.get("ak") == "tuple":
                            for i, o in enumerate(r["ops"]):
                                t = op_tags(o)
                                if t and not t <= ftags.get((l, i), set()):
                                    ftags.setdefault((l, i), set()).update(t)
                                    changed = True
                            continue
                        for o in r["ops"]:
                            src |= op_tags(o)
                    l = st["p"]["l"]
                    if src and not src <= tags.get(l, set()):
                        tags.setdefault(l, set()).update(src)
                        changed = True
                t = blk["t"]
                if t["k"] == "call":
                    d, rr = term_callee(t)
                    name = rr or d or ""
                    if PASSTHROUGH.search(name):
                        src = set()
                        for a in t["args"]:
                            src |= op_tags(a)
                        l = t["dest"]["l"]
                        if src and not src <= tags.get(l, set()):
                            tags.setdefault(l, set()).update(src)
                            changed = True
        self.ftags = ftags
        return tags

    # -------------------------------------------------------------- locals that flow into fast-path sinks
    def root_of(self, l, depth=0):
        """follow single-definition copy / Some(..) / downcast chains back to the local that was computed"""
        b = self.b
        seen = set()
        while depth < 30 and l not in seen:
            seen.add(l)
            depth += 1
            ds = self.flow.defs.get(l, [])
            if len(ds) != 1 or ds[0].get("k") != "assign":
                return l
            r = ds[0]["r"]
            src = None
            if r["k"] == "use":
                src = op_place(r["o"])
            elif r["k"] == "agg" and r.get("variant") == "Some" and len(r["ops"]) == 1:
                src = op_place(r["ops"][0])
            elif r["k"] == "ref":
                src = r["p"]
            if src is None:
                return l
            # a projection through a struct field that is not an Option payload leaves the value
            fields = [e for e in (src.get("p") or []) if isinstance(e, dict) and "f" in e]
            downcast = [e for e in (src.get("p") or []) if isinstance(e, dict) and "d" in e]
            if fields and not (downcast and downcast[0].get("d") == "Some"):
                return l
            l = src["l"]
        return l

    def _sink_roots(self):
        """locals whose value reaches a Deserializer fast-path flag, a Style marker field or PrimitiveVecAccess.prim"""
        b = self.b
        roots = {}
        for blk in b.blocks:
            for st in blk["s"]:
                if st["k"] != "assign":
                    continue
                r = st["r"]
                ops = []
                if last_field(st["p"]) in DE_FLAG_FIELDS and r["k"] == "use":
                    ops.append((last_field(st["p"]), r["o"]))
                if r["k"] == "agg" and r.get("ak") == "adt":
                    adt = r.get("adt", "")
                    if adt.endswith("de::Style") or adt.endswith("de::PrimitiveVecAccess"):
                        for fname, o in zip(r.get("fields", []), r["ops"]):
                            if fname in STYLE_MARKERS or (adt.endswith("PrimitiveVecAccess") and fname == "prim"):
                                ops.append((fname, o))
                for fname, o in ops:
                    p = op_place(o)
                    if p is None or p.get("p"):
                        continue
                    root = self.root_of(p["l"])
                    ds = self.flow.defs.get(root, [])
                    propagated = False
                    if len(ds) == 1 and ds[0].get("k") == "assign":
                        rr = ds[0]["r"]
                        sp = rr.get("p") if rr["k"] in ("ref", "discr") else (op_place(rr["o"]) if rr["k"] == "use" else None)
                        if sp is not None and last_field(sp) in (STYLE_MARKERS | DE_FLAG_FIELDS):
                            propagated = True   # a copy of an existing marker, not a newly computed one
                    if not propagated:
                        roots[root] = fname
        return roots

    # -------------------------------------------------------------- fast markers
    def _markers(self):
        """local -> (marker name, root local or None, polarity) ; polarity +1: true/1 = set, -1: true = cleared,
        'discr': discriminant of an Option (1 = set)"""
        b = self.b
        m = {}

        def place_marker(p):
            lf = last_field(p)
            if lf in DE_FLAG_FIELDS or lf in STYLE_MARKERS:
                return (lf, None)
            l = p["l"]
            if l in self.roots and not [e for e in (p.get("p") or []) if isinstance(e, dict) and "f" in e]:
                return ("sink:" + self.roots[l], l)
            if l in m and not [e for e in (p.get("p") or []) if isinstance(e, dict) and "f" in e]:
                return (m[l][0], m[l][1])
            return None

        def set_m(l, val):
            if m.get(l) != val:
                # a local defined from two different markers is not a marker
                if l in m and m[l][0] != val[0]:
                    m[l] = ("<mixed>", None, 0)
                    return True
                m[l] = val
                return True
            return False

        for rl, fname in self.roots.items():
            m[rl] = ("sink:" + fname, rl, +1)
        changed = True
        n = 0
        while changed and n < 40:
            changed = False
            n += 1
            for blk in b.blocks:
                for st in blk["s"]:
                    if st["k"] != "assign":
                        continue
                    l = simple_local(st["p"])
                    if l is None or l in self.roots:
                        continue
                    r = st["r"]
                    k = r["k"]
                    if k == "use":
                        p = op_place(r["o"])
                        if p is not None:
                            pm = place_marker(p)
                            if pm:
                                src_l = p["l"] if not p.get("p") else None
                                pol = m[src_l][2] if src_l in m else +1
                                root = pm[1] if pm[1] is not None else (l if b.local_name(l) else None)
                                changed |= set_m(l, (pm[0], root, pol))
                    elif k == "ref":
                        pm = place_marker(r["p"])
                        if pm:
                            src_l = r["p"]["l"] if not r["p"].get("p") else None
                            pol = m[src_l][2] if src_l in m else +1
                            root = pm[1] if pm[1] is not None else (src_l if src_l is not None and b.local_name(src_l) else None)
                            changed |= set_m(l, (pm[0], root, pol))
                    elif k == "discr":
                        pm = place_marker(r["p"])
                        if pm:
                            src_l = r["p"]["l"] if not r["p"].get("p") else None
                            root = pm[1] if pm[1] is not None else (src_l if src_l is not None and b.local_name(src_l) else None)
                            changed |= set_m(l, (pm[0], root, "discr"))
                    elif k == "un" and r["op"] == "Not":
                        p = op_place(r["a"])
                        sl = simple_local(p or {})
                        if sl in m and m[sl][2] in (+1, -1):
                            changed |= set_m(l, (m[sl][0], m[sl][1], -m[sl][2]))
                t = blk["t"]
                if t["k"] == "call":
                    d, rr = term_callee(t)
                    name = rr or d or ""
                    l = simple_local(t["dest"])
                    if l is None or not t["args"] or l in self.roots:
                        continue
                    p = op_place(t["args"][0])
                    sl = simple_local(p or {})
                    if sl in m and m[sl][2] in (+1, -1):
                        base = m[sl]
                        if name.endswith("::is_some"):
                            changed |= set_m(l, (base[0], base[1], +1))
                        elif name.endswith("::is_none"):
                            changed |= set_m(l, (base[0], base[1], -1))
                        elif name.endswith("::eq"):
                            changed |= set_m(l, (base[0], base[1], +1))
                        elif name.endswith("::ne"):
                            changed |= set_m(l, (base[0], base[1], -1))
        return {l: v for l, v in m.items() if v[0] != "<mixed>"}

    # -------------------------------------------------------------- bulk charge provenance
    def _len_tags(self):
        b = self.b
        tags = {}

        def add(l, t):
            if t not in tags.get(l, set()):
                tags.setdefault(l, set()).add(t)
                return True
            return False

        def op_t(o):
            p = op_place(o)
            if p is None:
                return set()
            return tags.get(p["l"], set())

        changed = True
        n = 0
        while changed and n < 40:
            changed = False
            n += 1
            for blk in b.blocks:
                for st in blk["s"]:
                    if st["k"] != "assign":
                        continue
                    l = st["p"]["l"]
                    r = st["r"]
                    k = r["k"]
                    if k in ("use", "cast"):
                        for t in op_t(r["o"]):
                            changed |= add(l, t)
                    elif k == "bin":
                        a, c = r["a"], r["b"]
                        if r["op"] in ("Add", "AddWithOverflow"):
                            for x, y in ((a, c), (c, a)):
                                v = op_int(x)
                                if v is not None and v >= 1:
                                    changed |= add(l, "pos")
                        for t in op_t(a) | op_t(c):
                            if t in ("len",):
                                changed |= add(l, t)
                    elif k == "ref":
                        for t in tags.get(r["p"]["l"], set()):
                            if t == "traced":
                                changed |= add(l, t)
                t = blk["t"]
                if t["k"] == "call":
                    d, rr = term_callee(t)
                    name = rr or d or ""
                    l = t["dest"]["l"]
                    if name.endswith("Deserializer::<'de>::read_len"):
                        changed |= add(l, "len")
                    elif name.endswith("TypeEnv::trace_type_with_depth") or name.endswith("TypeEnv::trace_type"):
                        changed |= add(l, "traced")
                    elif name.endswith("::checked_mul") and len(t["args"]) == 2:
                        x, y = t["args"]
                        for p, q in ((x, y), (y, x)):
                            if "len" in op_t(p):
                                v = op_int(q)
                                if (v is not None and v >= 1) or "pos" in op_t(q) or "poscost" in op_t(q):
                                    changed |= add(l, "mul")
                    elif name == WIDTH_FN.get("key"):
                        changed |= add(l, "poscost")
                    elif re.search(r"(Try>::branch$|::ok_or_else$|::ok_or$|::unwrap_or\w*$|::expect$|::unwrap$)", name) and t["args"]:
                        for tg in op_t(t["args"][0]):
                            changed |= add(l, tg)
        return tags


class Site:
    def __init__(self, kind, fn, block, name, term=None, stmt=None, extra=None):
        self.kind, self.fn, self.block, self.name, self.term, self.stmt = kind, fn, block, name, term, stmt
        self.states = set()
        self.extra = extra or {}

    @property
    def ln(self):
        x = self.term or self.stmt or {}
        return x.get("ln")


def analyse(body, entry_bits, info=None):
    """explore one body; returns list of Site with the path states (bit sets) that reach each"""
    info = info or FnInfo(body)
    b = body
    sites = {}
    style_enum = None

    def site(kind, block, name, term=None, stmt=None, extra=None, idx=None):
        key = (kind, block, idx if idx is not None else -1)
        if key not in sites:
            sites[key] = Site(kind, b.key, block, name, term, stmt, extra)
        return sites[key]

    # references to the progress counters of the accessor (len / expect_idx / wire_idx of Style)
    counter_refs = {}
    for blk in b.blocks:
        for st0 in blk["s"]:
            if st0["k"] == "assign" and st0["r"]["k"] == "ref" and last_field(st0["r"]["p"]) in ("len", "expect_idx", "wire_idx"):
                l0 = simple_local(st0["p"])
                if l0 is not None:
                    counter_refs[l0] = last_field(st0["r"]["p"])

    def on_stmt(bi, st, bits, cd):
        if st["k"] != "assign":
            return bits
        p = st["p"]
        lf = last_field(p)
        nb = set(bits)
        r = st["r"]
        if lf in ("len", "expect_idx", "wire_idx") and "style" in place_fields(p):
            nb.add(f"P:{lf}")
        elif (p.get("p") or []) == ["*"] and p["l"] in counter_refs:
            nb.add(f"P:{counter_refs[p['l']]}")
        if lf in CTX_TYPES or lf in CTX_FLAGS:
            nb.add(f"A:{lf}")
            # what was known about the old value of the flag no longer holds
            nb = {x for x in nb if x not in (f"V:{lf}", f"K:{lf}")}
            if lf in CTX_TYPES:
                # a freshly assigned type is resolved only if it is the result of trace_type
                sp0 = op_place(r["o"]) if r["k"] == "use" else None
                if sp0 is not None and "traced" in info.len_tags.get(sp0["l"], set()):
                    nb.add(f"TR:{lf}")
                else:
                    nb.discard(f"TR:{lf}")
                    nb.add(f"RAW:{lf}")
            src = None
            val = None
            if r["k"] == "use":
                sp = op_place(r["o"])
                if sp is not None:
                    sl = simple_local(sp)
                    if sl is not None:
                        src = info.flow.root_alias(sl)
                        nb = {x for x in nb if not x.startswith(f"AF:{lf}:")}
                        nb.add(f"AF:{lf}:{src}")
                    elif last_field(sp) in STYLE_MARKERS:
                        nb = {x for x in nb if not x.startswith(f"AF:{lf}:")}
                        nb.add(f"AF:{lf}:style.{last_field(sp)}")
                else:
                    val = op_int(r["o"])
            elif r["k"] == "agg":
                val = r.get("variant")
            if lf in CTX_FLAGS:
                s = site("flag-assign", bi, lf, stmt=st, extra={"rvalue": r, "const": val}, idx=id(st))
                s.states.add(frozenset(nb) | frozenset(f"${k}={v}" for k, v in cd.items() if v in (0, 1) and b.local_name(k)))
        l = simple_local(p)
        if l is not None and b.local_ty(l).endswith("utils::DepthGuard") and b.local_name(l):
            nb.add("guard")
        if r["k"] == "agg" and r.get("ak") == "adt" and (r.get("adt", "").endswith("de::Style") or r.get("adt", "").endswith("de::PrimitiveVecAccess")):
            s = site("agg", bi, r["adt"].rsplit("::", 1)[-1] + "::" + r.get("variant", ""), stmt=st, extra={"rvalue": r}, idx=id(st))
            s.states.add(frozenset(nb) | frozenset(f"${k}={v}" for k, v in cd.items() if v in (0, 1)))
        return frozenset(nb)

    def on_term(bi, t, bits, cd):
        k = t["k"]
        if k == "drop":
            l = t["p"]["l"]
            if not t["p"].get("p") and b.local_ty(l).endswith("utils::DepthGuard"):
                return frozenset(x for x in bits if x != "guard")
            return bits
        if k != "call":
            return bits
        d, rr = term_callee(t)
        name = rr or d or ""
        kind = None
        if READS.search(name):
            kind = "read"
        elif VISITS.search(name):
            kind = "visit"
        elif SEED.search(name):
            kind = "seed"
        elif HELPERS.search(name) or TRAIT_DE.search(name):
            kind = "helper"
        elif name.endswith("Deserializer::<'de>::check_subtype"):
            kind = "check_subtype"
        elif name.endswith("de::Compound::<'a, 'de>::new"):
            kind = "compound-new"
        if kind:
            s = site(kind, bi, name, term=t)
            s.states.add(frozenset(bits) | frozenset(f"${k}={v}" for k, v in cd.items() if v in (0, 1)))
        return bits

    def on_edge(bi, t, sb, kind, val, bits, cd, pruned=False):
        nb = set(bits)
        if kind == "call":
            d, rr = term_callee(t)
            name = rr or d or ""
            if name.endswith("Deserializer::<'de>::add_cost"):
                nb.add("charged")
                if t["args"] and len(t["args"]) > 1:
                    ap = op_place(t["args"][1])
                    if ap is not None and "mul" in info.len_tags.get(ap["l"], set()):
                        nb.add("bulk")
            elif name.endswith("Deserializer::<'de>::check_subtype"):
                # wire <: expected does not vouch for a read: the relation also holds for the bottom type `empty`, which has no values, so
                # a message declaring `empty` would have "values" read from arbitrary bytes.  Every read needs a test of the wire type's
                # constructor (the subtype check then decides the rest for references).
                nb.add("SUB")
            elif name.endswith("Deserializer::<'de>::unroll_type"):
                nb.add("unrolled")
            return frozenset(nb)
        if kind == "switch":
            dp = op_place(t["d"])
            dl = simple_local(dp or {})
            if dl is None:
                return frozenset(nb)
            tg = info.tags.get(dl, set())
            if ("E" in tg or "W" in tg):
                s = site("typetest", bi, "+".join(sorted(x for x in tg if x in ("E", "W"))), term=t)
                s.states.add(frozenset(bits))
            elif "FT" in tg:
                s = site("typetest-raw", bi, "FT", term=t)
                s.states.add(frozenset(bits))
            for x in ("E", "W"):
                if x in tg:
                    nb.add(x)
            # style variant
            mk = info.markers.get(dl)
            if mk:
                name, root, pol = mk
                side = None
                if pol == "discr":
                    if val == 1:
                        side = "set"
                    elif val == 0:
                        side = "clear"
                    elif isinstance(val, tuple) and val[0] == "else":
                        side = "set" if val[1] == (0,) else ("clear" if val[1] == (1,) else None)
                else:
                    truth = None
                    if val == 0:
                        truth = False
                    elif val == 1:
                        truth = True
                    elif isinstance(val, tuple) and val[0] == "else" and val[1] == (0,):
                        truth = True
                    elif isinstance(val, tuple) and val[0] == "else" and val[1] == (1,):
                        truth = False
                    if truth is not None:
                        side = "set" if (truth == (pol == +1)) else "clear"
                if side == "set":
                    if f"K:{name}" in nb and (root is None or f"K#{root}" in nb):
                        return None      # contradicts an earlier test of the same marker: infeasible path
                    nb.add(f"V:{name}")
                    if root is not None:
                        nb.add(f"V#{root}")
                elif side == "clear":
                    if f"V:{name}" in nb and (root is None or f"V#{root}" in nb):
                        return None
                    nb.add(f"K:{name}")
                    if root is not None:
                        nb.add(f"K#{root}")
            return frozenset(nb)
        return frozenset(nb)

    # style variant learning needs the discriminant's source place: pre-compute locals holding discr(style)
    style_discr = {}
    style_refs = set()
    for blk in b.blocks:
        for st in blk["s"]:
            if st["k"] == "assign" and st["r"]["k"] == "ref" and last_field(st["r"]["p"]) == "style":
                l = simple_local(st["p"])
                if l is not None:
                    style_refs.add(l)
    for blk in b.blocks:
        for st in blk["s"]:
            if st["k"] == "assign" and st["r"]["k"] == "use":
                sp = op_place(st["r"]["o"])
                if sp is not None and not sp.get("p") and sp["l"] in style_refs and simple_local(st["p"]) is not None:
                    style_refs.add(simple_local(st["p"]))
    for blk in b.blocks:
        for st in blk["s"]:
            if st["k"] == "assign" and st["r"]["k"] == "discr":
                dp = st["r"]["p"]
                if last_field(dp) == "style" or (dp["l"] in style_refs and not place_fields(dp)):
                    l = simple_local(st["p"])
                    if l is not None:
                        style_discr[l] = True

    base_on_edge = on_edge

    def on_edge2(bi, t, sb, kind, val, bits, cd):
        nb = base_on_edge(bi, t, sb, kind, val, bits, cd)
        if nb is None:
            return None
        if kind == "switch":
            dl = simple_local(op_place(t["d"]) or {})
            if dl in style_discr and isinstance(val, int):
                nb = frozenset(set(nb) | {f"S:{val}"})
        return nb

    info.flow.explore(entry_bits, on_stmt=on_stmt, on_term=on_term, on_edge=on_edge2)
    return list(sites.values())


class Decoder:
    """whole-decoder driver: analyses trait methods with empty entry, then helpers with the states of their call sites"""

    def __init__(self, facts):
        self.c = facts.crate("candid")
        from shared import width_fn_key
        WIDTH_FN["key"] = width_fn_key(self.c)
        self.bodies = {}
        for k, b in self.c.bodies.items():
            if b.span["file"].endswith("candid/src/de.rs") and b.j["kind"] != "Closure":
                self.bodies[k] = b
        if len(self.bodies) < 60:
            raise AnchorMissing(f"only {len(self.bodies)} function bodies found in rust/candid/src/de.rs")
        self.infos = {}
        self.results = {}      # (fn key, entry bits) -> [Site]
        self.entries = {}      # fn key -> set of entry bit-sets
        self._run()

    def info(self, key):
        if key not in self.infos:
            self.infos[key] = FnInfo(self.bodies[key])
        return self.infos[key]

    def is_helper(self, key):
        return bool(HELPERS.search(key))

    def _run(self):
        work = []
        for k in self.bodies:
            if not self.is_helper(k):
                self.entries[k] = {frozenset()}
                work.append((k, frozenset()))
        done = set()
        while work:
            k, eb = work.pop()
            if (k, eb) in done:
                continue
            done.add((k, eb))
            sites = analyse(self.bodies[k], eb, self.info(k))
            self.results[(k, eb)] = sites
            for s in sites:
                if s.kind == "helper" and HELPERS.search(s.name):
                    tgt = [kk for kk in self.bodies if kk == s.name]
                    if not tgt:
                        continue
                    for st in s.states:
                        # what carries into the callee: type tests, vouching markers, charge, guard
                        carry = frozenset(x for x in st if x in ("E", "W", "charged", "bulk", "guard", "unrolled") or x.startswith("V:"))
                        if carry not in self.entries.setdefault(tgt[0], set()):
                            self.entries[tgt[0]].add(carry)
                            work.append((tgt[0], carry))

    def sites(self, kind=None, fn_re=None):
        rx = re.compile(fn_re) if fn_re else None
        for (k, eb), ss in self.results.items():
            if rx and not rx.search(k):
                continue
            for s in ss:
                if kind is None or s.kind == kind:
                    yield k, eb, s


def fn_short(key):
    m = re.search(r"<(?:&mut )?candid::de::(\w+)[^>]*> as [\w:]+::(\w+)<[^>]*>>::(\w+)$", key)
    if m:
        return f"{m.group(1)}/{m.group(2)}::{m.group(3)}"
    m = re.search(r"candid::de::(\w+)(?:::<[^>]*>)?::(\w+)$", key)
    if m:
        return f"{m.group(1)}::{m.group(2)}"
    return key.rsplit("::", 1)[-1]
