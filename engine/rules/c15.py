"""C15 — names and numeric ids are identified by the spec's hash everywhere (structural clauses)."""
import re

from facts import (AnchorMissing, Facts, callee, expr_path, lit_value, nodes, op_int, pat_alternatives, peel, short,
                   term_callee, unblock, walk)
from shared import Spec, arm_rows, the_match
from c15_util import DefUse, canonical_mir, local_name, scoped_calls, strip_refs
import sorted_unique

TITLE = ("C15: both copies of idl_hash are the Horner form of the spec's hash (multiplier and width parsed from "
         "spec/Candid.md) and every other label hashing calls one of them; Label's Eq/Ord/Hash are functions of get_id "
         "only; every constructor of a field/method list sorts by id and rejects duplicates (grammar, derive, "
         "record!/variant!/service! expansions, hand-sorted literal lists, binary header); lookups compare labels or "
         "ids, never label strings.")

LABEL = "candid::types::internal::Label"
LBL = LABEL + "::"
GET_ID = LABEL + "::get_id"
INT_BITS = {"u8": 8, "u16": 16, "u32": 32, "u64": 64, "u128": 128}


# --------------------------------------------------------------------------- R1: the hash function
FROM_U8 = r"^core::convert::num::<impl core::convert::From<u8> for (u\d+)>::from$"   # lossless zero-extension


def hash_shape(body):
    """Extract (init, multiplier, accumulator type, byte source, element cast) of a Horner-style hash loop from MIR
    by def-use tracing; raises AnchorMissing with the reason if the function is not of that shape."""
    du = DefUse(body)
    key = body.key
    sites = {}
    for bi, t, cal in body.call_sites():
        if body.is_cleanup(bi):
            continue
        sites.setdefault(cal or "?", []).append(t)
    allowed = (r"^core::str::<impl str>::(as_bytes|bytes)$",
               r"IntoIterator.*::into_iter$", r"Iterator>::next$|Iterator::next$",
               r"^core::num::<impl u\d+>::wrapping_(mul|add)$", FROM_U8)
    extra = sorted(c for c in sites if not any(re.search(a, c) for a in allowed))
    if extra:
        raise AnchorMissing(f"{key}: calls other than byte iteration and wrapping arithmetic: {extra}")
    muls = [(c, t) for c, ts in sites.items() if c.endswith("::wrapping_mul") for t in ts]
    adds = [(c, t) for c, ts in sites.items() if c.endswith("::wrapping_add") for t in ts]
    nexts = [(c, t) for c, ts in sites.items() if re.search(r"Iterator(>)?::next$", c) for t in ts]
    if len(muls) != 1 or len(adds) != 1 or len(nexts) != 1:
        raise AnchorMissing(f"{key}: expected exactly one wrapping_mul, one wrapping_add and one Iterator::next call, "
                            f"found {len(muls)}/{len(adds)}/{len(nexts)}")
    (mulc, mult), (addc, addt), (nextc, nextt) = muls[0], adds[0], nexts[0]
    mty = re.search(r"<impl (u\d+)>", mulc).group(1)
    aty = re.search(r"<impl (u\d+)>", addc).group(1)
    # multiplier: the constant operand of wrapping_mul; the other operand is the accumulator
    consts = [(i, op_int(a)) for i, a in enumerate(mult["args"]) if op_int(a) is not None]
    if len(consts) != 1:
        raise AnchorMissing(f"{key}: wrapping_mul does not have exactly one constant operand")
    acc = du.trace(mult["args"][1 - consts[0][0]])["root"]
    if acc[0] != "local":
        raise AnchorMissing(f"{key}: the non-constant operand of wrapping_mul is not a loop-carried local ({acc[0]})")
    acc_l = acc[1]
    # accumulator definitions: one constant (the initial value), one from wrapping_add
    init, from_add = [], 0
    for d in du.defs.get(acc_l, []):
        if d[0] == "assign" and d[2].get("k") == "use":
            r = du.trace(d[2]["o"])["root"]
            if r[0] == "const":
                init.append(r[1])
            elif r[0] == "call" and r[2] is addt:
                from_add += 1
            else:
                raise AnchorMissing(f"{key}: accumulator is also assigned from {r[0]}")
        else:
            raise AnchorMissing(f"{key}: accumulator has a definition that is neither the initial constant nor the wrapping_add result")
    if len(init) != 1 or from_add != 1:
        raise AnchorMissing(f"{key}: accumulator must be assigned exactly once from a constant and once from wrapping_add "
                            f"(found {len(init)} / {from_add})")
    # wrapping_add(operands): the product and the zero-extended byte
    roles = {}
    for a in addt["args"]:
        tr = du.trace(a, through=FROM_U8)
        tr["casts"] = tr["casts"] + [("u8", re.search(FROM_U8, v).group(1)) for v in tr["via"]]
        r = tr["root"]
        if r[0] == "call" and r[2] is mult:
            roles["product"] = tr
        elif r[0] == "call" and r[2] is nextt:
            roles["byte"] = tr
        else:
            raise AnchorMissing(f"{key}: wrapping_add operand comes from {r[0]} {r[1] if len(r) > 1 else ''}, "
                                f"expected the wrapping_mul result and the iterator element")
    if set(roles) != {"product", "byte"}:
        raise AnchorMissing(f"{key}: wrapping_add must add the product and the current byte, found {sorted(roles)}")
    # iterator provenance: next(&mut iter) where iter comes from as_bytes(param).into_iter() / param.bytes()
    it = du.trace(nextt["args"][0], through=r"(IntoIterator.*::into_iter|^core::str::<impl str>::(as_bytes|bytes))$")
    if it["root"][0] != "param":
        raise AnchorMissing(f"{key}: the iterator does not come from the string parameter ({it['root'][0]})")
    ga = ((nextt["f"].get("k") or {}).get("ga") or [""])[0]
    if not re.search(r"(slice::Iter<'_, u8>|str::Bytes<'_>)$", ga):
        raise AnchorMissing(f"{key}: Iterator::next is called on {ga}, expected the forward byte iterator of the string")
    # result
    rets = du.defs.get(0, [])
    if not rets or any(not (d[0] == "assign" and d[2].get("k") == "use" and du.trace(d[2]["o"])["root"] == ("local", acc_l))
                       for d in rets):
        raise AnchorMissing(f"{key}: the returned value is not the accumulator")
    return {"init": init[0], "mult": consts[0][1], "mul_ty": mty, "add_ty": aty, "ret_ty": body.local_ty(0),
            "param_ty": body.local_ty(1), "byte_casts": roles["byte"]["casts"], "bytes_via": [short(v) for v in it["via"]],
            "iter": ga}


def r1(chk, facts, spec):
    copies = (("candid", r"^candid::idl_hash$"), ("candid_derive", r"^candid_derive::idl_hash$"))
    shapes = {}
    canon = {}
    want_ty = "u%d" % spec.hash_bits
    SAMPLES = ("", "a", "abc", "name", "é", "日本語", "r#type", "x" * 40, "\U0010ffff")
    evaluated = {}
    for cn, kre in copies:
        # the function is small and pure: evaluate it and compare with the specification's hash on every sample (any spelling of the
        # loop — for, fold, iterator chain — is then fine); only if it leaves the evaluable fragment fall back to the shape rules
        from c11_util import Interp, NotEvaluable
        cr_ = facts.crate(cn)
        hh = cr_.hir.get(cr_.body(kre).key)
        if hh is None:
            continue
        try:
            it = Interp(cr_)
            bad = None
            for smp in SAMPLES:
                want = 0
                for byte in smp.encode("utf-8"):
                    want = (want * spec.hash_mult + byte) % (1 << spec.hash_bits)
                got = it.call_fn(hh, [smp])
                if got != want and bad is None:
                    bad = (smp, got, want)
            evaluated[cn] = bad
        except NotEvaluable:
            pass
    for cn, kre in copies:
        b = facts.crate(cn).body(kre)
        chk.analysed(b.key)
        if cn in evaluated:
            bad = evaluated[cn]
            chk.expect(bad is None, f"copy:{cn}:value",
                       f"{b.key} evaluated on {bad[0]!r} gives {bad[1]}, the specification's hash of its UTF-8 bytes is {bad[2]}" if bad else "",
                       where=b.span["file"], ok_detail=f"evaluated on {len(SAMPLES)} names (ASCII, non-ASCII, long): equals sum(b_i * {spec.hash_mult}^(k-i)) mod 2^{spec.hash_bits}")
            continue
        try:
            sh = hash_shape(b)
        except AnchorMissing as e:
            chk.bad(f"copy:{cn}:shape", f"not the recognised Horner loop `s = s.wrapping_mul(M).wrapping_add(byte as uN)` over the "
                                        f"UTF-8 bytes (formula changed, or anchor moved): {e}", where=b.span["file"])
            continue
        shapes[cn] = sh
        canon[cn] = canonical_mir(b)
        chk.expect(sh["mult"] == spec.hash_mult, f"copy:{cn}:multiplier",
                   f"{b.key} multiplies by {sh['mult']}, spec/Candid.md says {spec.hash_mult}",
                   ok_detail=f"multiplier {sh['mult']} = spec")
        chk.expect(sh["mul_ty"] == sh["add_ty"] == sh["ret_ty"] == want_ty, f"copy:{cn}:width",
                   f"{b.key} computes in {sh['mul_ty']}/{sh['add_ty']} and returns {sh['ret_ty']}; the spec reduces mod "
                   f"2^{spec.hash_bits}, i.e. wrapping {want_ty} arithmetic", ok_detail=f"wrapping {want_ty} arithmetic")
        chk.expect(sh["init"] == 0, f"copy:{cn}:init", f"{b.key} starts from {sh['init']}, the empty sum is 0")
        chk.expect(sh["byte_casts"] == [("u8", want_ty)] and sh["param_ty"] == "&str", f"copy:{cn}:bytes",
                   f"{b.key} must add each UTF-8 byte of its &str parameter zero-extended to {want_ty}; found casts "
                   f"{sh['byte_casts']} on parameter {sh['param_ty']}", ok_detail=f"bytes via {sh['bytes_via']}, u8 -> {want_ty}")
    if len(evaluated) == 2:
        chk.expect(all(v is None for v in evaluated.values()), "copies:same-function", "the two copies differ on a sample (see copy:*:value)",
                   ok_detail="both copies equal the specification's hash on every sample")
    elif len(shapes) == 2:
        a, b = shapes["candid"], shapes["candid_derive"]
        same = canon["candid"] == canon["candid_derive"]
        sem = ("init", "mult", "mul_ty", "add_ty", "ret_ty", "param_ty", "byte_casts")
        chk.expect(all(a[k] == b[k] for k in sem), "copies:same-function",
                   f"the two copies differ: candid {a} vs candid_derive {b}",
                   ok_detail=f"same shape; MIR identical up to local renaming: {same}")
    # every other label hashing calls one of the two; no third implementation
    expected = (("candid", r"types::internal::Label::get_id$", "Label::get_id"),
                ("candid_parser", r"bindings::motoko::escape$", "motoko::escape"),
                ("candid_parser", r"bindings::rust::identifier::to_identifier_case$", "rust::to_identifier_case"),
                ("candid_parser", r"syntax::IDLMergedProg::resolve_actor$", "IDLMergedProg::resolve_actor"),
                ("candid_derive", r"derive::enum_from_ast(::\{closure#\d+\})*$", "derive::enum_from_ast"),
                ("candid_derive", r"derive::fields_from_ast(::\{closure#\d+\})*$", "derive::fields_from_ast"))
    hashfn = {"candid": "candid::idl_hash", "candid_parser": "candid::idl_hash", "candid_derive": "candid_derive::idl_hash"}
    n_callers = 0
    for cn, kre, name in expected:
        cr = facts.crate(cn)
        bs = [b for k, b in cr.bodies.items() if re.search(kre, k)]
        # ... or a crate-local helper these functions call (part of the work may have been factored out)
        for _ in range(2):
            seenk = {b.key for b in bs}
            for b in list(bs):
                for _bi, t_, _cal in b.call_sites():
                    d_, r_ = term_callee(t_)
                    for kk in (d_, r_):
                        if kk and kk in cr.bodies and kk not in seenk and cr.bodies[kk].span["file"] == b.span["file"]:
                            seenk.add(kk)
                            bs.extend(cr.bodies[kk].with_closures())
        hit = [b for b in bs if any(cal == hashfn[cn] for _, _, cal in b.call_sites())]
        n_callers += len(hit)
        chk.expect(bool(hit), f"caller:{cn}:{name}",
                   f"{cn}: no function matching /{kre}/ calls {hashfn[cn]} any more (anchor moved, or the id of a name is now "
                   f"computed some other way)", ok_detail=f"{[b.key for b in hit]} -> {hashfn[cn]}")
        for b in hit:
            chk.analysed(b.key)
    chk.floor("functions that hash a name through idl_hash", n_callers, 6)
    scanned = 0
    for cn in ("candid", "candid_parser", "candid_derive", "ic_principal", "didc"):
        cr = facts.crate(cn)
        for k, b in cr.bodies.items():
            scanned += 1
            if re.match(r"^(candid|candid_derive)::idl_hash(::\{closure#\d+\})*$", k):
                continue
            for bi, blk in enumerate(b.blocks):
                ops = []
                t = blk["t"]
                if t["k"] == "call":
                    d, r = term_callee(t)
                    if d and re.search(r"::(wrapping_|checked_|overflowing_|saturating_|unchecked_)?mul$", d):
                        ops = t["args"]
                for st in blk["s"]:
                    if st["k"] == "assign" and st["r"].get("k") == "bin" and st["r"]["op"].startswith("Mul"):
                        ops = ops + [st["r"]["a"], st["r"]["b"]]
                if any(op_int(o) == spec.hash_mult for o in ops):
                    chk.bad(f"third-copy:{k}", f"{k} multiplies by the hash constant {spec.hash_mult}: a further implementation of "
                                               f"the label hash outside the two compared copies", where=b.span["file"])
    chk.floor("bodies scanned for further hash implementations", scanned, 2000)


# --------------------------------------------------------------------------- R2: Label impls
def r2(chk, facts, spec):
    c = facts.crate("candid")
    variants = c.enum_variants(r"types::internal::Label$")
    # get_id table
    h = c.method(r"internal::Label$", "get_id", "")
    chk.analysed(h["key"])
    m = the_match(h, r"internal::Label$", 2)
    seen = {}
    for a in m["arms"]:
        for alt in pat_alternatives(a["pat"]):
            vp = (alt.get("res") or {}).get("path", "")
            if not vp.startswith(LBL) or alt.get("k") != "ts" or len(alt.get("subs", [])) != 1 or alt["subs"][0].get("k") != "bind":
                raise AnchorMissing(f"get_id: unexpected arm pattern {alt.get('k')} {vp}")
            binder = alt["subs"][0]["n"]
            body = unblock(a["body"])
            if local_name(body) == binder:
                seen[vp[len(LBL):]] = "payload"
            elif body.get("k") == "call" and callee(body) == "candid::idl_hash" and len(body["args"]) == 1 \
                    and local_name(peel(body["args"][0])) == binder:
                seen[vp[len(LBL):]] = "idl_hash(payload)"
            else:
                seen[vp[len(LBL):]] = "other"
    want = {"Id": "payload", "Unnamed": "payload", "Named": "idl_hash(payload)"}
    for v in sorted(set(variants) | set(want)):
        chk.expect(seen.get(v) == want.get(v), f"get_id:{v}",
                   f"Label::get_id maps {v} to {seen.get(v)}, expected {want.get(v)}"
                   + ("" if v in want else " (new Label variant: extend the rule after deciding what its id is)"),
                   ok_detail=f"{v} -> {seen.get(v)}")
    # identity impls: every use of an operand is the receiver of get_id (or is handed to another checked impl)
    impls = [i for i in c.items if i["kind"] == "impl" and i["self_ty"] == LABEL and
             i.get("trait") in ("core::cmp::PartialEq", "core::cmp::PartialOrd", "core::cmp::Ord", "core::hash::Hash")]
    traits = {i["trait"] for i in impls}
    need = {"core::cmp::PartialEq", "core::cmp::PartialOrd", "core::cmp::Ord", "core::hash::Hash"}
    if traits != need:
        raise AnchorMissing(f"hand-written impls of {sorted(need - traits)} for Label not found (derived impls would compare "
                            f"variants and strings)")
    for i in impls:
        if (i.get("span") or {}).get("mac"):
            chk.bad(f"impl:{short(i['trait'])}", f"{i['trait']} for Label is derived ({i['span']['mac']}): derived impls compare "
                                                 f"the variant and the string, not the id")
    grounded = {}
    pending = {}
    examined = 0
    for i in impls:
        for it in i["items"]:
            h = c.hir.get(it["key"])
            if h is None:
                raise AnchorMissing(f"no HIR for {it['key']}")
            chk.analysed(h["key"])
            label_params = [p["n"] for p in h["params"] if p.get("k") == "bind" and (p.get("ty") or "").endswith(LABEL)]
            uses = {p: [] for p in label_params}
            parent = {}
            for n in walk(h["body"]):
                for v in n.values():
                    for ch in (v if isinstance(v, list) else [v]):
                        if isinstance(ch, dict):
                            parent[id(ch)] = n
                        elif isinstance(ch, list):
                            for x in ch:
                                if isinstance(x, dict):
                                    parent[id(x)] = n
            verdict = []
            delegates = set()
            for n in walk(h["body"]):
                if n.get("k") == "path" and (n.get("res") or {}).get("kind") == "Local" and n["res"]["path"] in uses:
                    # climb through refs / derefs
                    cur = n
                    par = parent.get(id(cur))
                    while par is not None and (par.get("k") == "ref" or (par.get("k") == "un" and par.get("op") == "Deref")):
                        cur, par = par, parent.get(id(par))
                    how = "other"
                    if par is not None and par.get("k") == "mcall" and par.get("recv") is cur and par.get("callee") == GET_ID:
                        how = "get_id"
                    elif par is not None and par.get("k") == "call" and callee(par) == GET_ID:
                        how = "get_id"
                    elif par is not None and par.get("k") in ("mcall", "call") and \
                            re.match(r"^core::(cmp::(PartialEq|PartialOrd|Ord)|hash::Hash)::\w+$", callee(par) or "") and \
                            (par.get("ga") or [None])[0] == LABEL:
                        how = "delegate"
                        delegates.add(callee(par))
                    uses[n["res"]["path"]].append(how)
            name = f"{short(i['trait'])}::{h['name']}"
            bad = {p: u for p, u in uses.items() if not u or any(x == "other" for x in u)}
            pats = [x for x in walk(h["body"]) if x.get("k") in ("ts", "struct", "path") and
                    ((x.get("res") or {}).get("path") or "").startswith(LBL) and x.get("res", {}).get("kind") == "Variant"]
            fine = not bad and not pats and len(label_params) >= 1
            chk.expect(fine, f"impl:{name}:operands",
                       f"{h['key']}: every Label operand must be used only as the receiver of get_id (or passed to another "
                       f"checked Label impl) and no variant may be inspected; found uses {uses}, variant mentions {len(pats)}",
                       ok_detail=f"operands {label_params} used only via {sorted({x for u in uses.values() for x in u})}")
            examined += 1
            if not fine:
                grounded[f"{i['trait']}::{h['name']}"] = False    # already reported; do not report its delegators again
            elif all(x == "get_id" for u in uses.values() for x in u):
                grounded[f"{i['trait']}::{h['name']}"] = True
            else:
                pending[f"{i['trait']}::{h['name']}"] = delegates
            # the ordering must be that of the ids, in the same direction
            if i["trait"] == "core::cmp::Ord" and h["name"] == "cmp":
                b = unblock(h["body"])
                okd = (b.get("k") == "mcall" and b.get("callee") == "core::cmp::Ord::cmp" and (b.get("ga") or [None])[0] == "u32"
                       and local_name(peel_getid(b["recv"])) == label_params[0]
                       and local_name(peel_getid(b["args"][0])) == label_params[1])
                chk.expect(okd, "impl:Ord::cmp:direction",
                           f"{h['key']} must be `self.get_id().cmp(&other.get_id())` (u32 order of the ids, self first)",
                           ok_detail="u32::cmp(self.get_id(), other.get_id())")
            if i["trait"] == "core::cmp::PartialEq" and h["name"] == "eq":
                b = unblock(h["body"])
                okd = b.get("k") == "bin" and b.get("op") == "Eq" and b.get("aty") == "u32"
                chk.expect(okd, "impl:PartialEq::eq:op", f"{h['key']} must be `==` on the two u32 ids", ok_detail="u32 == u32")
    # delegation must end in a grounded impl
    changed = True
    while changed:
        changed = False
        for k, ds in list(pending.items()):
            if ds and all(any(g.endswith("::" + short(d)) and g.startswith(d.rsplit("::", 1)[0]) for g in grounded) for d in ds):
                grounded[k] = True
                del pending[k]
                changed = True
    for k in sorted(pending):
        chk.bad(f"impl:{short(k.rsplit('::', 1)[0])}::{k.rsplit('::', 1)[1]}:grounded",
                f"{k} for Label neither calls get_id on its operands nor delegates to an impl that does")
    chk.floor("hand-written identity methods of Label checked", examined, 4)


def peel_getid(e):
    """self.get_id() / &other.get_id() -> the receiver expression, else None"""
    e = strip_refs(e)
    if isinstance(e, dict) and e.get("k") == "mcall" and e.get("callee") == GET_ID:
        return e["recv"]
    return None


# --------------------------------------------------------------------------- R3: constructors
def macro_site(chk, h, name, ctor, want_key):
    """expansion of record!/variant!/service!: vec literal; sort; check_unique on the same vector whose failure panics;
    then the constructor consumes the vector"""
    sites = list(sorted_unique.block_sites(h))
    if len(sites) != 1:
        raise AnchorMissing(f"{name}: expected one sort call in the expansion, found {len(sites)}")
    blk, items, i, s = sites[0]
    var = sorted_unique.root_local(s["recv"])
    kd = sorted_unique.sort_key_desc(s)
    chk.expect(kd == want_key, f"macro:{name}:sort-key",
               f"{name}! sorts `{var}` by {kd}, expected {want_key}", ok_detail=f"{s['m']} by {kd}")
    u_at, how = sorted_unique.uniqueness_after(items, i, var)
    if u_at is None:
        chk.bad(f"macro:{name}:unique", f"{name}! sorts `{var}` but does not run check_unique on it afterwards: duplicate ids would "
                                        f"be accepted")
        return
    st = items[u_at]
    rejects = any("panic" in (n.get("mac") or []) for n in walk(st)) or \
        any(n.get("k") == "match" and n.get("src") == "TryDesugar" for n in walk(st))
    chk.expect(rejects, f"macro:{name}:unique",
               f"{name}!: the result of check_unique on `{var}` is not turned into a panic / error", ok_detail="check_unique failure panics")
    use = [j for j in range(len(items)) if j not in (i, u_at) and sorted_unique.mentions(items[j], var)
           and any((callee(n) or "") == ctor for n in walk(items[j]) if n.get("k") == "call")]
    chk.expect(bool(use) and min(use) > max(i, u_at), f"macro:{name}:before-use",
               f"{name}!: `{var}` must reach {short(ctor)} only after the sort and the uniqueness check (positions sort={i}, "
               f"check={u_at}, use={use})", ok_detail=f"{short(ctor)}({var}) after sort and check")


def field_macro(chk, h, name):
    """field!: the token is parsed as u32; Ok(n) -> Label::Id(n), Err -> Label::Named(token text)"""
    ms = [m for m in nodes(h["body"], "match") if "Result<u32" in (m.get("sty") or "")]
    if len(ms) != 1:
        raise AnchorMissing(f"{name}: expected one match on the result of parsing the token as u32, found {len(ms)}")
    m = ms[0]
    sc = unblock(m["scrut"])
    tok = lit_value(sc.get("recv")) if sc.get("k") == "mcall" else None
    okparse = sc.get("k") == "mcall" and sc.get("callee") == "core::str::<impl str>::parse" and sc.get("ga") == ["u32"] \
        and isinstance(tok, str) and "stringify" in ((sc.get("recv") or {}).get("mac") or [])
    chk.expect(okparse, f"field:{name}:parse", f"{name}: the label token must be parsed with str::parse::<u32> on stringify!(token)",
               ok_detail=f"stringify!(token) = {tok!r} parsed as u32")
    rows = {}
    for a in m["arms"]:
        hd = (a["pat"].get("res") or {}).get("path", "")
        body = unblock(a["body"])
        cal = callee(body) if body.get("k") == "call" else None
        arg = body["args"][0] if cal and body.get("args") else None
        if hd.endswith("Result::Ok"):
            b = [s["n"] for s in a["pat"].get("subs", []) if s.get("k") == "bind"]
            rows["Ok"] = (cal, bool(b) and local_name(arg) == b[0])
        elif hd.endswith("Result::Err"):
            inner = strip_refs(arg) if arg else None
            same = isinstance(inner, dict) and inner.get("k") == "mcall" and inner.get("m") in ("to_string", "to_owned", "into") \
                and lit_value(inner.get("recv")) == tok
            rows["Err"] = (cal, same)
    chk.expect(rows.get("Ok") == (LBL + "Id", True), f"field:{name}:numeric",
               f"{name}: a numeric token must become Label::Id(parsed number), found {rows.get('Ok')}",
               ok_detail="Ok(n) -> Label::Id(n)")
    chk.expect(rows.get("Err") == (LBL + "Named", True), f"field:{name}:named",
               f"{name}: a non-numeric token must become Label::Named(token text), found {rows.get('Err')}",
               ok_detail="Err(_) -> Label::Named(token)")


def derive_provenance(chk, facts):
    """every idl_hash call of the derive hashes the `rename` attribute if there is one, else the un-rawed identifier"""
    d = facts.crate("candid_derive")
    n_ren = n_unraw = n_sites = 0
    # every function of the derive module that hashes a name (today enum_from_ast and fields_from_ast; found by what they call, so
    # moving the per-variant code into a helper is not an event)
    hashing = sorted(k for k, hh in d.hir.items() if k.startswith("candid_derive::derive::") and hh.get("body") is not None
                     and hh.get("kind") in ("Fn", "AssocFn") and scoped_calls(hh, r"^candid_derive::idl_hash$"))
    if len(hashing) < 2:
        raise AnchorMissing(f"candid_derive::derive: expected at least two functions that call idl_hash (variants, fields), found {hashing}")
    for hk in hashing:
        h = d.hir[hk]
        fn = h["name"]
        chk.analysed(h["key"])
        sites = scoped_calls(h, r"^candid_derive::idl_hash$")
        counts = {}
        for call, env, arms in sites:
            # innermost enclosing match on `<x>.rename`
            ctx = None
            for mnode, arm in reversed(arms):
                if (expr_path(mnode["scrut"]) or "").endswith(".rename"):
                    ctx = (mnode, arm)
                    break
            if ctx is None:
                chk.bad(f"derive:{fn}:site", f"{h['key']}: idl_hash is called outside a `match attrs.rename`: cannot tell whether the "
                                             f"renamed or the original identifier is hashed")
                continue
            head = ((ctx[1]["pat"].get("res") or {}).get("path") or "")
            arg = call["args"][0]
            n_sites += 1
            if head.endswith("Option::Some"):
                binders = [s["n"] for s in ctx[1]["pat"].get("subs", []) if s.get("k") == "bind"]
                nm = local_name(arg)
                ok = bool(binders) and nm == binders[0] and env.get(nm, (None,))[0] == "arm" and env[nm][2] is ctx[1]
                kind = "rename"
                n_ren += ok
                msg = (f"{h['key']}: with #[serde(rename)]/#[candid(rename)] present the hashed string must be the rename "
                       f"attribute itself (the binder of `Some(..)`), found `{nm}`")
            else:
                e = strip_refs(arg)
                nm = local_name(e)
                if nm is not None and isinstance(env.get(nm), dict):
                    e = strip_refs(env[nm])
                ok = isinstance(e, dict) and e.get("k") == "mcall" and e.get("callee") == "alloc::string::ToString::to_string" and \
                    isinstance(strip_refs(e["recv"]), dict) and strip_refs(e["recv"]).get("k") == "mcall" and \
                    strip_refs(e["recv"]).get("callee") == "syn::ext::IdentExt::unraw"
                kind = "unraw"
                n_unraw += ok
                msg = (f"{h['key']}: without a rename the hashed string must be `ident.unraw().to_string()` (a raw identifier "
                       f"`r#type` is the Candid field `type`); found {describe(e)}")
            idx = counts.get(kind, 0)
            counts[kind] = idx + 1
            chk.expect(ok, f"derive:{fn}:{kind}" + (f":{idx}" if idx else ""), msg,
                       ok_detail=f"idl_hash({'rename' if kind == 'rename' else 'ident.unraw().to_string()'})")
        chk.expect(set(counts) == {"rename", "unraw"}, f"derive:{fn}:both-cases",
                   f"{h['key']}: expected one hashing site for renamed and one for plain identifiers, found {counts}")
    chk.floor("derive hashing sites classified (rename / unraw)", n_sites, 4)


def describe(e):
    if not isinstance(e, dict):
        return repr(e)
    if e.get("k") == "mcall":
        return f"{describe(strip_refs(e['recv']))}.{e['m']}()"
    if e.get("k") == "path":
        return (e.get("res") or {}).get("path")
    return e.get("k")


def literal_lists(chk, facts, spec):
    """hand-written field lists (`vec![Field { id: Label::Named("..") .. }, ..]`) are strictly ascending by id"""
    n = 0
    seen_keys = {}
    for cn in ("candid", "candid_parser"):
        c = facts.crate(cn)
        for k, h in c.hir.items():
            for arr in nodes(h["body"], "array"):
                es = [unblock(e) for e in arr["es"]]
                if not es or not all(e.get("k") == "struct" and ((e.get("res") or {}).get("path") or "") == "candid::types::internal::Field"
                                     for e in es):
                    continue
                ids = []
                for e in es:
                    idv = dict((a, b) for a, b in e["fields"]).get("id")
                    cs = [x for x in walk(idv) if x.get("k") == "call" and (callee(x) or "").startswith(LBL)]
                    v = lit_value(cs[0]["args"][0]) if len(cs) == 1 and cs[0].get("args") else None
                    if len(cs) == 1 and isinstance(v, str) and callee(cs[0]) == LBL + "Named":
                        ids.append((v, spec.hash(v)))
                    elif len(cs) == 1 and isinstance(v, int) and callee(cs[0]) in (LBL + "Id", LBL + "Unnamed"):
                        ids.append((v, v))
                    else:
                        ids = None
                        break
                if ids is None:
                    continue   # labels computed at run time: such lists must go through a sorting constructor (other parts of R3)
                n += 1
                chk.analysed(k)
                idx = seen_keys.get(k, 0)
                seen_keys[k] = idx + 1
                asc = all(ids[j][1] < ids[j + 1][1] for j in range(len(ids) - 1))
                chk.expect(asc, f"literal-list:{k}" + (f":{idx}" if idx else ""),
                           f"{k}: hand-written field list {ids} is not strictly ascending by id: the type would be encoded with "
                           f"unsorted / duplicate fields", where=h["span"]["file"],
                           ok_detail=f"{[i[0] for i in ids]} ascending by spec hash")
    chk.floor("hand-sorted literal field lists", n, 20)


def r3(chk, facts, spec):
    sorted_unique.run_rule(chk, facts, spec)
    w = Facts("witness").crate("witness")
    if "witness" not in " ".join(chk.configs):
        chk.configs.append("witness: cargo +nightly check in /verif/witness (macro_rules! expansions)")
    TI = "candid::types::internal::TypeInner::"
    for fn, name, ctor, key in (("w_record", "record", TI + "Record", "id"), ("w_variant", "variant", TI + "Variant", "id"),
                                ("w_service", "service", TI + "Service", "name")):
        h = w.fn(r"expand::%s$" % fn)
        chk.analysed(h["key"])
        macs = {m for n in walk(h["body"]) for m in (n.get("mac") or [])}
        if f"candid::{name}" not in macs:
            raise AnchorMissing(f"witness {fn}: no expansion of candid::{name}! found")
        macro_site(chk, h, name, ctor, key)
    for fn in ("w_field_named", "w_field_numeric"):
        h = w.fn(r"expand::%s$" % fn)
        chk.analysed(h["key"])
        field_macro(chk, h, fn[2:].replace("_", "!:", 1))
    # record!/variant! build their fields with field!
    for fn, name in (("w_record", "record"), ("w_variant", "variant")):
        h = w.fn(r"expand::%s$" % fn)
        inner = [n for n in walk(h["body"]) if n.get("k") == "struct" and (n.get("res") or {}).get("path") == "candid::types::internal::Field"]
        viaf = [n for n in inner if any(m.endswith("field") for m in (n.get("mac") or []))]
        chk.expect(bool(inner) and len(viaf) == len(inner), f"macro:{name}:uses-field",
                   f"{name}! must build every Field through field! (numeric tokens -> Label::Id); {len(viaf)}/{len(inner)} do",
                   ok_detail=f"{len(inner)} fields built by field!")
    derive_provenance(chk, facts)
    literal_lists(chk, facts, spec)


# --------------------------------------------------------------------------- R4: lookups
CMP_CALL = re.compile(r"(^core::cmp::(PartialEq|Ord|PartialOrd)::\w+$|(HashMap|BTreeMap|HashSet|BTreeSet)::<.*>::"
                      r"(get|contains_key|contains|insert|entry|remove|get_mut|get_key_value)$)")
CMP_OPS = ("Eq", "Ne", "Lt", "Le", "Gt", "Ge")


def label_typed(t):
    return bool(t) and LABEL in t and "error::Label" not in t


def comparison_sites(h):
    """(node, description, operand list, operand type) of every comparison / keyed-container operation"""
    for n in walk(h["body"]):
        if n.get("k") == "bin" and n.get("op") in CMP_OPS:
            yield n, f"`{n['op']}`", [n["a"], n["b"]], n.get("aty") or ""
        elif n.get("k") in ("mcall", "call") and CMP_CALL.search(callee(n) or ""):
            ops = ([n["recv"]] if n.get("k") == "mcall" else []) + list(n.get("args") or [])
            ty = n.get("recv_ty") or ""
            if "Map" in (callee(n) or "") or "Set" in (callee(n) or ""):
                ty = (n.get("ga") or [ty])[0]       # key type
                ops = list(n.get("args") or [])[:1]
            elif n.get("ga"):
                ty = n["ga"][0]
            yield n, short(callee(n)), ops, ty


def r4(chk, facts, spec):
    c = facts.crate("candid")
    # positive table: the named lookups compare Label / Rc<Label> values or the ids
    def sites_in(h, pred):
        return [(n, d, ops, ty) for n, d, ops, ty in comparison_sites(h) if pred(n, d, ops, ty)]

    h = c.fn(r"value::IDLValue::annotate_type_with_depth$")
    chk.analysed(h["key"])
    rec = sites_in(h, lambda n, d, ops, ty: d == "get" and label_typed(ty))
    chk.expect(len(rec) >= 1, "lookup:annotate_type:record",
               f"{h['key']}: record fields must be looked up in a map keyed by Label (hash/eq = id); no such HashMap::get found",
               ok_detail=f"HashMap<{rec[0][3] if rec else ''}, _>::get")
    var = sites_in(h, lambda n, d, ops, ty: d == "`Eq`" and label_typed(ty))
    chk.expect(len(var) >= 1, "lookup:annotate_type:variant",
               f"{h['key']}: the variant tag must be compared with `==` on Label values; no such comparison found",
               ok_detail=f"`==` on {var[0][3] if var else ''}")
    h = c.method(r"de::Compound<", "next_key_seed", r"MapAccess")
    chk.analysed(h["key"])
    ks = []
    for n, d, ops, ty in comparison_sites(h):
        if d == "cmp" and ty == "u32" and len(ops) == 2:
            a, b = peel_getid(ops[0]), peel_getid(ops[1])
            if a is not None and b is not None:
                ks.append((expr_path(a), expr_path(b)))
    chk.expect(len(ks) == 1 and ks[0][0] != ks[0][1] and all((p or "").endswith(".id") for p in ks[0]), "lookup:next_key_seed",
               f"{h['key']}: expected and wire record fields must be merged by `e.id.get_id().cmp(&w.id.get_id())`; found {ks}",
               ok_detail=f"u32::cmp({ks[0][0]}.get_id(), {ks[0][1]}.get_id())" if ks else None)
    h = c.method(r"^&mut candid::de::Deserializer", "deserialize_enum", r"de::Deserializer$")
    chk.analysed(h["key"])
    en = [(expr_path(ops[0]), expr_path(ops[1])) for n, d, ops, ty in comparison_sites(h) if d == "`Eq`" and label_typed(ty)]
    chk.expect(len(en) == 1 and all((p or "").endswith(".id") for p in en[0]) and en[0][0] != en[0][1], "lookup:deserialize_enum",
               f"{h['key']}: the expected variant must be found with `f.id == wire.id` on labels; found {en}",
               ok_detail=f"{en[0][0]} == {en[0][1]} on Rc<Label>" if en else None)
    nmaps = 0
    for fn in ("subtype_", "subtype_collect_"):
        h = c.fn(r"types::subtype::%s$" % fn)
        chk.analysed(h["key"])
        gets = sites_in(h, lambda n, d, ops, ty: d == "get" and "HashMap" in (callee(n) or ""))
        lab = [g for g in gets if label_typed(g[3])]
        nmaps += len(lab)
        chk.expect(len(lab) >= 2, f"lookup:{fn}:fields",
                   f"{h['key']}: record and variant fields must be looked up in maps keyed by labels; found keys {[g[3] for g in gets]}",
                   ok_detail=f"{len(lab)} lookups keyed by {lab[0][3] if lab else ''}")
    chk.floor("label-keyed map lookups in subtype checks", nmaps, 4)
    h = c.fn(r"types::subtype::equal_impl$")
    chk.analysed(h["key"])
    eq = sites_in(h, lambda n, d, ops, ty: d in ("`Ne`", "`Eq`") and label_typed(ty))
    chk.expect(len(eq) >= 1, "lookup:equal_impl", f"{h['key']}: field labels must be compared as labels; no such comparison found",
               ok_detail=f"`!=` on {eq[0][3] if eq else ''}")
    # negative, crate-wide: nothing computed from a label is ever compared / used as a key as a string
    total = 0
    viaid = 0
    for cn in ("candid", "candid_parser"):
        cr = facts.crate(cn)
        for k, h in cr.hir.items():
            if k.startswith("<" + LABEL + " as ") or k == GET_ID:
                continue   # the impls themselves are R2
            named = set()
            for n in walk(h):
                if n.get("k") == "ts" and ((n.get("res") or {}).get("path") or "") == LBL + "Named":
                    for s in walk(n.get("subs")):
                        if s.get("k") == "bind":
                            named.add(s["n"])
            for n, d, ops, ty in comparison_sites(h):
                from_label = False
                binder = None
                idcall = False
                for o in ops:
                    for x in walk(o):
                        if label_typed(x.get("ty")) or label_typed(x.get("recv_ty")) or label_typed(x.get("bty")):
                            from_label = True
                        if x.get("k") == "mcall" and x.get("callee") == GET_ID:
                            idcall = True
                        if named and x.get("k") == "path" and (x.get("res") or {}).get("kind") == "Local" and x["res"]["path"] in named:
                            binder = x["res"]["path"]
                if not from_label and binder is None:
                    continue
                total += 1
                chk.analysed(k)
                if binder is not None:
                    chk.bad(f"string-compare:{k}", f"{k}: the string bound by a `Label::Named(..)` pattern (`{binder}`) is an operand of "
                                                   f"{d}: labels are identified by id, `Named(\"a\")` and `Id(97)` are the same label",
                            where=h["span"]["file"])
                elif label_typed(ty) or "internal::Field" in ty or "value::IDLField" in ty or "syntax::TypeField" in ty:
                    pass
                elif ty in ("u32", "&u32") and idcall:
                    viaid += 1
                else:
                    chk.bad(f"string-compare:{k}", f"{k}: {d} on operands of type `{ty}` computed from a label without get_id: labels "
                                                   f"must be compared as labels or by id", where=h["span"]["file"])
    chk.ok("no-string-comparison", f"{total} comparisons / map operations on label-derived operands: all on Label, Rc<Label>, "
                                   f"Field or on get_id() ({viaid})")
    chk.floor("comparisons on label-derived operands inspected", total, 15)


def run(chk, facts, tier, only=None):
    spec = Spec()
    for rid, desc, fn in (("C15.R1", "both idl_hash copies are the spec's hash in Horner form; all other name hashing calls them", r1),
                          ("C15.R2", "Label's PartialEq/Ord/PartialOrd/Hash are functions of get_id only; get_id table", r2),
                          ("C15.R3", "every field/method list constructor sorts by id and rejects duplicates; field!/derive label provenance", r3),
                          ("C15.R4", "lookups compare labels or ids, never label strings", r4)):
        if only and only != rid:
            continue
        chk.run_rule(rid, desc, lambda fn=fn: fn(chk, facts, spec))
    if only is None:
        import c12
        # a named field advances the positional counter of a record exactly like the equal numeric id (grammar actions for types and values)
        chk.include(c12, "C12.R3", "C15.R5", facts)
