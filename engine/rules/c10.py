"""C10 — untyped values survive annotate, encode and decode at their type (structural clauses)."""
import re

from facts import AnchorMissing, callee, expr_path, lit_value, nodes, pat_alternatives, pat_head, pat_variants, unblock, walk
from shared import TI, Matrix, arm_rows, is_err_body, method_calls, the_match, variant_paths

TITLE = ("C10: the annotation table accepts exactly the pairs (value constructor, type constructor) the property allows, "
         "decided by first-match simulation for both parser modes; value/type/serializer/visitor rows agree for every "
         "constructor; the variant index stored by annotation is the position of the matching field and the annotated "
         "value is the one that gets serialised.")

IV = "candid::types::value::IDLValue::"
NUMERIC = ["Int", "Nat", "Nat8", "Nat16", "Nat32", "Nat64", "Int8", "Int16", "Int32", "Int64"]
DIAG = {"Null": "Null", "Bool": "Bool", "Nat": "Nat", "Int": "Int", "Nat8": "Nat8", "Nat16": "Nat16", "Nat32": "Nat32", "Nat64": "Nat64",
        "Int8": "Int8", "Int16": "Int16", "Int32": "Int32", "Int64": "Int64", "Float32": "Float32", "Float64": "Float64", "Text": "Text",
        "Principal": "Principal", "Service": "Service", "Func": "Func", "Vec": "Vec", "Record": "Record", "Variant": "Variant", "Blob": "Vec"}


def guard_eval(g, fp, T):
    """True / False / None (depends on run-time data) for an arm guard, given the parser mode and the type constructor"""
    if g is None:
        return True
    vals = []

    def ev(e):
        e = unblock(e)
        k = e.get("k")
        if k == "path" and (e.get("res") or {}).get("path") == "from_parser":
            return fp
        if k == "un" and e.get("op") == "Not":
            v = ev(e["a"])
            return None if v is None else (not v)
        if k == "bin" and e.get("op") == "And":
            a, b = ev(e["a"]), ev(e["b"])
            if a is False or b is False:
                return False
            if a is True and b is True:
                return True
            return None
        if k == "bin" and e.get("op") == "Or":
            a, b = ev(e["a"]), ev(e["b"])
            if a is True or b is True:
                return True
            if a is False and b is False:
                return False
            return None
        if k == "mcall" and e["m"] == "is_blob":
            return None if T == "Vec" else False
        return None
    return ev(g)


def body_class(body, T=None):
    """('err',) | ('ctor', [IDLValue ctors built]) | ('recurse',) | ('other',)"""
    b = unblock(body)
    # an arm that dispatches again on the type constructor: follow the arm for T
    if T is not None and b.get("k") == "match" and b.get("src") == "Normal" and b.get("sty", "").endswith("TypeInner"):
        chosen = None
        for a in b["arms"]:
            hs = [pat_head(x) for x in pat_alternatives(a["pat"])]
            if any(h == TI + T for h in hs):
                chosen = a
                break
            if any(h == "_" for h in hs) and chosen is None:
                chosen = a
                break
        if chosen is not None:
            return body_class(chosen["body"], None)
    if is_err_body(body) or (b.get("k") == "block" and any(is_err_body(n.get("e")) for n in nodes(b, "ret") if n.get("e")) and not variant_paths(b, IV)
                             and not method_calls(b, r"^annotate_type_with_depth$")):
        return ("err",)
    ctors = variant_paths(body, IV)
    # patterns inside the body (e.g. the blob loop) are not constructions: keep only expression paths
    rec = bool(method_calls(body, r"^annotate_type_with_depth$"))
    if b.get("k") == "mcall" and b["m"] == "clone" and expr_path(b["recv"]) == "self":
        return ("same",)
    if ctors:
        return ("ctor", ctors, rec)
    if rec:
        return ("recurse",)
    return ("other",)


PANIC_REASONS = {
    "annotate_type_with_depth | unwrap(internal::find_type)#0":
        "TypeInner::Knot ids are created only by candid::types::internal (ty() / TypeContainer) after the id was registered in the ID map, "
        "and env_clear does not touch that map: find_type(id) is Some for every Knot that exists",
    "annotate_type_with_depth | unwrap(TypeEnv::trace_type_with_depth)#0":
        "the property quantifies over types of a closed (checked) environment, so the lookup cannot fail for an unbound name; the depth "
        "guard taken at the head of annotate_type_with_depth already rejected nestings beyond the limit on this path",
    "value_ty | index(&Vec<IDLValue>)[lit]#0":
        "vec[0] in the else branch of `if vec.is_empty()`",
}


def walk_pat(p):
    if isinstance(p, dict):
        yield p
        for k_ in ("sub",):
            if isinstance(p.get(k_), dict):
                yield from walk_pat(p[k_])
        for s_ in p.get("subs") or []:
            yield from walk_pat(s_)
        for f_ in p.get("fields") or []:
            yield from walk_pat(f_[1])


def run(chk, facts, tier, only=None):
    c = facts.crate("candid")
    mx = Matrix(facts)

    def r1():
        h = c.fn(r"value::IDLValue::annotate_type_with_depth$")
        chk.analysed(h["key"])
        ms = [m for m in nodes(h["body"], "match") if m.get("src") == "Normal" and m["sty"].startswith("(") and "IDLValue" in m["sty"] and "TypeInner" in m["sty"]]
        if not ms:
            raise AnchorMissing("annotate_type_with_depth: match on (self, t.as_ref()) not found")
        m = max(ms, key=lambda x: len(x["arms"]))
        rows = []
        for r in arm_rows(m):
            hs = []
            for hd in r["heads"]:
                if len(hd) == 1 and hd[0] == "_":
                    hd = ("_", "_")
                if len(hd) == 2:
                    v = hd[0][len(IV):] if isinstance(hd[0], str) and hd[0].startswith(IV) else hd[0]
                    t = hd[1][len(TI):] if isinstance(hd[1], str) and hd[1].startswith(TI) else hd[1]
                    hs.append((v, t))
            rows.append({"heads": hs, "guard": r["guard"], "body": r["body"], "ln": r["ln"]})
        vctors = c.enum_variants(r"types::value::IDLValue$")
        tctors = [t for t in c.enum_variants(r"types::internal::TypeInner$")]
        n = 0
        for fp in (True, False):
            for V in vctors:
                for T in tctors:
                    n += 1
                    reach = []       # arms that may be taken, in order, until a definite one
                    for r0 in rows:
                        if not any(hv in ("_", V) and ht in ("_", T) for hv, ht in r0["heads"]):
                            continue
                        r = dict(r0)
                        r["cls"] = body_class(r0["body"], T)
                        ge = guard_eval(r["guard"], fp, T)
                        if ge is False:
                            continue
                        reach.append((r, ge))
                        if ge is True:
                            break
                    key = f"annotate:{'parser' if fp else 'decoded'}:({V},{T})"
                    if not reach or reach[-1][1] is not True:
                        chk.bad(key, f"annotate_type: no arm definitely decides the pair ({V}, {T}) with from_parser={fp}")
                        continue
                    final = reach[-1][0]
                    builds = [x for r, _ in reach if r["cls"][0] == "ctor" for x in r["cls"][1]]
                    accepts = any(r["cls"][0] in ("ctor", "same", "recurse") for r, _ in reach)
                    # ---- oracle
                    if T in ("Var", "Knot"):
                        want = "unfold"
                    elif T == "Reserved":
                        want = "Reserved"
                    elif T == "Opt":
                        want = "opt"
                    elif DIAG.get(V) == T:
                        want = "diag"
                    elif (V, T) == ("Nat", "Int"):
                        want = "Int"
                    elif fp and V == "Number" and T in NUMERIC:
                        want = T
                    elif fp and (V, T) == ("Float64", "Float32"):
                        want = "Float32"
                    else:
                        want = "reject"
                    if want == "reject":
                        chk.expect(not accepts and final["cls"][0] == "err", key,
                                   f"annotate_type accepts a value built with IDLValue::{V} at type constructor {T} (from_parser={fp}) — "
                                   f"arm at line {[r['ln'] for r, _ in reach if r['cls'][0] != 'err'][:1]} builds {builds}; only a nat at int, "
                                   f"anything at reserved, null/reserved/none (and, when decoding, anything) at opt may change constructor",
                                   ok_detail="type mismatch error")
                    elif want == "unfold":
                        chk.expect(final["cls"][0] == "recurse", key, f"annotate_type must unfold {T} and recurse; found {final['cls'][0]}")
                    elif want == "opt":
                        if fp:
                            okk = (V in ("Null", "Reserved", "None") and builds == ["None"]) or (V == "Opt" and "Opt" in builds) or \
                                  (V not in ("Null", "Reserved", "None", "Opt") and not accepts and final["cls"][0] == "err") or \
                                  (V == "Number" and final["cls"][0] == "err")
                            chk.expect(okk, key, f"annotate_type (parser mode) at opt: null/reserved/none give none, opt recurses, anything else is a "
                                                 f"type mismatch; for IDLValue::{V} the reachable arms build {builds}, final {final['cls'][0]}")
                        else:
                            chk.expect(accepts and set(builds) <= {"None", "Opt"}, key,
                                       f"annotate_type (decoding mode) at opt must always succeed with none or opt; IDLValue::{V} builds {builds}")
                    elif want == "diag":
                        allowed = {V} | ({"Blob", "Vec", "Nat8"} if V in ("Vec", "Blob") else set()) | ({"Record", "Null", "None", "Reserved"} if V == "Record" else set()) \
                            | ({"Variant"} if V == "Variant" else set())
                        okk = accepts and set(builds) <= allowed
                        if final["cls"][0] == "err":
                            # only the blob shorthand is conditional on the element type
                            okk = okk and V == "Blob"
                        if final["cls"][0] == "ctor" and V not in ("Vec", "Record", "Variant", "Blob", "Opt"):
                            okk = okk and final["cls"][1] == [V]
                        chk.expect(okk, key, f"annotate_type must keep IDLValue::{V} at type {T}; reachable arms build {builds}, final {final['cls']}")
                    else:
                        chk.expect(final["cls"][0] == "ctor" and final["cls"][1] == [want], key,
                                   f"annotate_type: ({V}, {T}) with from_parser={fp} must produce IDLValue::{want}; found {final['cls']}")
        chk.floor("annotation pairs decided", n, 1500)
        # the omitted-argument rule of IDLArgs::annotate_types
        h2 = c.fn(r"value::IDLArgs::annotate_types$")
        mm = the_match(h2, r"TypeInner$", 3)
        got = {}
        for r in arm_rows(mm):
            for hd in r["heads"]:
                if isinstance(hd[0], str) and hd[0].startswith(TI):
                    got[hd[0][len(TI):]] = variant_paths(r["body"], IV)
        chk.expect(got == {"Null": ["Null"], "Reserved": ["Reserved"], "Opt": ["None"]}, "annotate_types:omitted-arguments",
                   f"omitted arguments may only be null, reserved or opt (filled with null / reserved / none); found {got}")

    def r2():
        mx.check_value(chk)

    def r3():
        h = c.fn(r"value::IDLValue::annotate_type_with_depth$")
        # the Variant arm: index is the enumerate counter of the field whose label equals the value's label
        arm = None
        for m in nodes(h["body"], "match"):
            for a in m["arms"]:
                hs = [str(x) for x in walk(a["pat"]) if False]
                heads = [pat_head(p) for alt in pat_alternatives(a["pat"]) if alt.get("k") == "tuple" for p in alt["subs"]]
                if heads == [IV + "Variant", TI + "Variant"]:
                    arm = a
        if arm is None:
            raise AnchorMissing("annotate_type_with_depth: (Variant, Variant) arm not found")
        loops = [mm for mm in nodes(arm["body"], "match") if mm.get("src") == "ForLoopDesugar" and
                 mm["scrut"].get("k") == "call" and any(x.get("k") == "mcall" and x["m"] == "enumerate" for x in walk(mm["scrut"]))]
        okv = False
        detail = "no `for (i, f) in fs.iter().enumerate()` loop"
        if loops:
            lp = loops[0]
            # loop pattern (i, f)
            inner = [mm for mm in nodes(lp, "match") if mm.get("src") == "ForLoopDesugar" and mm is not lp]
            binds = []
            for mm in inner:
                for a in mm["arms"]:
                    for t in [x for x in walk(a["pat"]) if x.get("k") == "tuple" and len(x.get("subs", [])) == 2]:
                        binds = [[y["n"] for y in walk(s) if y.get("k") == "bind"] for s in t["subs"]]
            ctor = [x for x in walk(lp) if x.get("k") == "call" and (callee(x) or "").endswith("value::VariantValue")]
            cond = [x for x in nodes(lp, "if") if x["c"].get("k") == "bin" and x["c"].get("op") == "Eq"]
            if binds and ctor and cond:
                ivar, fvar = binds[0][0], binds[1][0]
                idx_expr = ctor[0]["args"][1]
                idx_vars = [(y.get("res") or {}).get("path") for y in walk(idx_expr) if y.get("k") == "path"]
                ca, cb = expr_path(cond[0]["c"]["a"]) or "", expr_path(cond[0]["c"]["b"]) or ""
                label_cmp = ("id" in ca.split(".") and "id" in cb.split(".")) and (fvar in (ca.split(".")[0], cb.split(".")[0]))
                inside = any(y is ctor[0] for y in walk(cond[0]["t"]))
                okv = idx_vars == [ivar] and label_cmp and inside
                detail = f"index built from {idx_vars} (enumerate counter is `{ivar}`), comparison `{ca} == {cb}`, construction inside the match branch: {inside}"
        if not loops:
            # the iterator idiom: `let Some((i, f)) = fs.iter().enumerate().find(|(_, f)| v.0.id == *f.id) else { Err }` (or position(..))
            finds = [x for x in walk(arm["body"]) if x.get("k") == "mcall" and x["m"] in ("find", "position")
                     and (x["m"] == "position" or any(y.get("k") == "mcall" and y["m"] == "enumerate" for y in walk(x["recv"])))]
            ctor = [x for x in walk(arm["body"]) if x.get("k") == "call" and (callee(x) or "").endswith("value::VariantValue")]
            if len(finds) == 1 and ctor:
                fd = finds[0]
                cl = fd["args"][0] if fd.get("args") else {}
                eqs = [x for x in walk(cl) if x.get("k") == "bin" and x.get("op") == "Eq"] if cl.get("k") == "closure" else []
                label_cmp = bool(eqs) and "id" in (expr_path(eqs[0]["a"]) or "").split(".") and "id" in (expr_path(eqs[0]["b"]) or "").split(".")
                # the index variable: first component of the pattern the find result is bound to (or the position result itself)
                ivar = None
                for st in nodes(arm["body"], "slet"):
                    if st.get("init") is not None and any(y is fd for y in walk(st["init"])):
                        names = [y["n"] for y in walk(st["pat"]) if y.get("k") == "bind"]
                        ivar = names[0] if names else None
                idx_vars = [(y.get("res") or {}).get("path") for y in walk(ctor[0]["args"][1]) if y.get("k") == "path"]
                okv = label_cmp and ivar is not None and idx_vars == [ivar]
                detail = f"index built from {idx_vars} (bound from {fd['m']}(..) as `{ivar}`), label comparison in the predicate: {label_cmp}"
        chk.expect(okv, "variant-index:position-of-matching-field",
                   f"annotation must store, as the variant index, the position of the type's field whose label id equals the value's label "
                   f"(the index is what gets written on the wire): {detail}", ok_detail=detail)
        # typed encoding serialises the annotated value
        hb = c.fn(r"ser::IDLBuilder::value_arg_with_type$")
        chk.analysed(hb["key"])
        seq = []
        ann_var = None
        for st in (hb["body"].get("stmts") or []):
            for x in walk(st):
                if x.get("k") == "mcall" and x["m"] == "annotate_type":
                    seq.append("annotate")
                    if st.get("k") == "slet":
                        ann_var = st["pat"].get("n")
                if x.get("k") == "mcall" and x["m"] == "push_type":
                    seq.append("push_type:" + (expr_path(x["args"][0]) or "?"))
                if x.get("k") == "mcall" and x["m"] == "idl_serialize":
                    seq.append("serialize:" + (expr_path(x["recv"]) or "?"))
        chk.expect(seq[:1] == ["annotate"] and f"serialize:{ann_var}" in seq and "push_type:t" in seq, "typed-encode:annotated-value-is-serialised",
                   f"value_arg_with_type must annotate first, push the requested type `t`, and serialise the annotated value; found {seq}",
                   ok_detail=str(seq))
        hb = c.fn(r"ser::IDLBuilder::value_arg$")
        pt = [x for x in method_calls(hb["body"], r"^push_type$")]
        sv = [x for x in method_calls(hb["body"], r"^idl_serialize$")]
        okk = len(pt) == 1 and len(sv) == 1 and any(y.get("k") == "mcall" and y["m"] == "value_ty" and expr_path(y["recv"]) == "value" for y in walk(pt[0])) \
            and expr_path(sv[0]["recv"]) == "value"
        chk.expect(okk, "untyped-encode:type-of-the-same-value", "value_arg must push value.value_ty() and serialise that same value")
        # to_bytes_with_types goes through value_arg_with_type for every argument
        ht = c.fn(r"value::IDLArgs::to_bytes_with_types$")
        cs = [x["m"] for x in method_calls(ht["body"], r"^(value_arg_with_type|value_arg|serialize_to_vec)$")]
        chk.expect(set(cs) == {"value_arg_with_type", "serialize_to_vec"}, "typed-encode:entry", f"to_bytes_with_types must encode every argument through value_arg_with_type; calls {cs}")

    def variant_hint():
        # decoding a variant into an untyped value: variant_seed tells the visitor which accessor to use (`unit` / `struct` / `newtype`) and
        # then unit_variant / struct_variant / newtype_variant test self.expect_type.  Hint and test must look at the same type value — if
        # the hint is computed from a resolved type while the accessor compares the type as written (or vice versa), a payload type that
        # is a *name* for null / a record gets an accessor that then rejects it.
        h = c.method(r"de::Compound", "variant_seed", r"EnumAccess$")
        chk.analysed(h["key"])
        assigned = None
        for n in walk(h["body"]):
            if n.get("k") == "assign" and (expr_path(n["a"]) or "").endswith("de.expect_type"):
                b = unblock(n["b"])
                if b.get("k") == "mcall" and b["m"] == "clone":
                    assigned = expr_path(b["recv"])
        hints = []
        from shared import with_local_callees
        for g, via in with_local_callees(c, h):
            for m in nodes(g["body"], "match"):
                lits = [lit_value(a["body"]) for a in m["arms"]]
                if "unit" in lits:
                    sc = unblock(m["scrut"])
                    hp = expr_path(sc["recv"]) if sc.get("k") == "mcall" and sc["m"] in ("as_ref", "deref") else expr_path(sc)
                    if via is not None and hp:
                        # the match sits in a helper: read its parameter as the argument passed at the call in variant_seed
                        names = [(prm or {}).get("n") for prm in g.get("params") or []]
                        args = list(via.get("args") or [])
                        root = hp.split(".", 1)[0]
                        if root in names and names.index(root) < len(args):
                            a = args[names.index(root)]
                            while isinstance(a, dict) and a.get("k") in ("ref", "un"):
                                a = a.get("e") or a.get("a")
                            ap = expr_path(a)
                            hp = (ap + hp[len(root):]) if ap else hp
                    hints.append(hp)
        if assigned is None or len(hints) != 1:
            raise AnchorMissing(f"variant_seed: assignment of de.expect_type ({assigned}) or the accessor-hint match ({hints}) not found")
        chk.expect(hints[0] == assigned, "variant-hint:same-type-as-accessor-test",
                   f"variant_seed chooses the accessor hint from `{hints[0]}` but hands `{assigned}` to the accessors as the expected type: "
                   f"unit_variant compares that expected type with `null` as written, so hint and test disagree for a payload type given by name "
                   f"(a tag whose payload is a named alias of null fails to decode, or decodes to null below opt)",
                   where=f"{h['span']['file']}:{h['span']['lo']}", ok_detail=f"both read `{assigned}`")

    def r4():
        h = c.fn(r"value::IDLValue::annotate_type_with_depth$")
        gets = [x for x in method_calls(h["body"], r"^get$") if re.search(r"(HashMap|BTreeMap)<", x.get("recv_ty", ""))]
        okk = len(gets) >= 1 and all("internal::Label" in x["recv_ty"] and "String" not in x["recv_ty"].split(",")[0] for x in gets)
        chk.expect(okk, "record-lookup:by-label", f"the record arm must look fields up in a map keyed by Label (identity = id), found {[x['recv_ty'][:80] for x in gets]}")

    def r5():
        # "a value that is not of type t is rejected … instead of producing a message": rejection means an Err, so the functions that
        # annotate and encode untyped values may not contain a panic site that a (value, type) pair can reach
        import c13_util as U
        total = 0
        rx = (r"value::(IDLArgs|IDLValue)::(annotate_types|annotate_type|annotate_type_with_depth|to_bytes_with_types|to_bytes|get_types|value_ty)$"
              r"|ser::IDLBuilder::(value_arg_with_type|value_arg)$"
              r"|^<candid::types::value::IDLValue as candid::types::CandidType>::(idl_serialize|_ty)$")
        fns = [h for k, h in sorted(c.hir.items()) if re.search(rx, k)]
        chk.floor("functions on the annotate / untyped-encode path", len(fns), 10)
        for h in fns:
            chk.analysed(h["key"])
            for st in U.sites(U.Tree(h)):
                total += 1
                key = f"{h['key'].rsplit('::', 1)[-1]} | {st['desc']}#{st['ord']}"
                why = PANIC_REASONS.get(key)
                chk.expect(why is not None, f"panic-site:{key.replace('::', '.')}",
                           f"{h['key']}: `{st['desc']}` can panic and has no reviewed reason: a value/type pair that should be rejected with an "
                           f"error must not abort the process", where=f"{h['span']['file']}:{st['ln']}", ok_detail=why)
        chk.ok("panic-sites-inventoried", f"{total} panic-capable construct(s) on the annotate / untyped-encode path, all with a reviewed reason")

    def r11():
        """Untyped decoding of a record (IDLValueVisitor::visit_map) drops the entries the decoder produces for wire fields the expected type
        does not have; the decoder marks those with a made-up key. A key is arbitrary text, so the marker alone cannot identify them: the
        arm that drops an entry must also look at the entry's value (a skipped field is always decoded at `reserved`)."""
        h = c.method(r"value::IDLValueVisitor$", "visit_map", r"de::Visitor$")
        chk.analysed(h["key"])
        drops = []
        for m in nodes(h["body"], "match"):
            if m.get("src") not in (None, "Normal"):
                continue
            for a in m["arms"]:
                b = unblock(a["body"])
                if b.get("k") == "continue" and any("IDLValue::Text" in (v or "") for v in pat_variants(a["pat"])):
                    drops.append((m, a))
        if not drops:
            chk.ok("untyped-record:no-field-dropped-by-name", "visit_map drops no entry by its key", nontrivial=False)
            return
        # the binder(s) of the entry's value: `while let Some((key, value)) = visitor.next_entry()?`
        val_names = set()
        for le in nodes(h["body"], "let"):
            if any(x.get("k") == "mcall" and x["m"] == "next_entry" for x in walk(le["init"])):
                subs = [p_ for p_ in walk_pat(le["pat"]) if p_.get("k") == "tuple"]
                if subs and len(subs[0]["subs"]) == 2 and subs[0]["subs"][1].get("k") == "bind":
                    val_names.add(subs[0]["subs"][1]["n"])
        for m, a in drops:
            g = a.get("guard")
            looks_at_value = g is not None and any(x.get("k") == "path" and (x.get("res") or {}).get("kind") == "Local" and x["res"]["path"] in val_names for x in walk(g))
            scr_has_value = any(x.get("k") == "path" and (x.get("res") or {}).get("kind") == "Local" and x["res"]["path"] in val_names for x in walk(m["scrut"]))
            chk.expect(looks_at_value or scr_has_value, "untyped-record:no-field-dropped-by-name",
                       "IDLValueVisitor::visit_map drops every record entry whose key is the text `_` (the marker the decoder uses for skipped wire fields) "
                       "without looking at the entry's value: a field that really is named `_` is dropped too — `record { \"_\" = 1; a = 2 }` decoded "
                       "at its own type comes back as `record { a = 2 }`", where=f"{h['span']['file']}:{a.get('ln')}",
                       ok_detail="the dropping arm also tests the entry's value")

    def r12():
        """`blob` is `vec nat8` through any number of aliases: the test the annotator, the typed encoder and the decoder share (`TypeInner::is_blob`)
        must resolve the element type completely (trace_type / rec_find_type), not by a single environment lookup."""
        h = c.fn(r"^candid::types::internal::TypeInner::is_blob$")
        chk.analysed(h["key"])
        full = [x for x in walk(h["body"]) if x.get("k") in ("call", "mcall") and re.search(r"TypeEnv::(trace_type\w*|rec_find_type\w*)$", callee(x) or "")]
        single = [x for x in walk(h["body"]) if x.get("k") in ("call", "mcall") and re.search(r"TypeEnv::find_type$", callee(x) or "")]
        chk.expect(bool(full) and not single, "is_blob:element-type-fully-resolved",
                   f"TypeInner::is_blob looks the element type up with {'TypeEnv::find_type (one step)' if single else 'no resolution at all'}: with "
                   f"`type byte = nat8; type octet = byte`, `vec octet` is not recognised as blob — `blob \"..\"` is rejected by annotate_type at that type, and "
                   f"untyped decoding at it returns a vec of nat8 values where typed decoding returns a blob",
                   where=f"{h['span']['file']}:{(single or [h['body']])[0].get('ln')}", ok_detail="trace_type on the element")

    for rid, desc, fn in (("C10.R12", "blob is recognised through any chain of aliases", r12),
                          ("C10.R11", "untyped record decoding drops only the decoder's skipped-field entries", r11),
                          ("C10.R5", "no unreviewed panic site on the annotate / untyped-encode path", r5),
                          ("C10.R1", "annotation accepts exactly the allowed (value, type) constructor pairs, in both parser modes", r1),
                          ("C10.R2", "value constructor / type / serializer / visitor rows agree", r2),
                          ("C10.R3", "variant index provenance; the annotated value is what gets serialised", r3),
                          ("C10.R4", "record fields are looked up by label id", r4),
                          ("C10.R6", "variant decoding into untyped values: accessor hint and accessor test read the same type", variant_hint)):
        if only and only != rid:
            continue
        chk.run_rule(rid, desc, fn)
    if only is None:
        import c03
        chk.include(c03, "C03.R1", "C10.R7", facts)     # typed encoding writes the spec's opcodes ...
        chk.include(c03, "C03.R2", "C10.R8", facts)     # ... and type-table references the reader reads back as the same index
        import c08
        import c16
        chk.include(c08, "C08.R3", "C10.R9", facts)     # reference / number values cross from the decoder to the value visitor in tagged buffers both sides agree on
        chk.include(c16, "C16.R3", "C10.R10", facts)    # every principal / service / func id that encodes (0..29 bytes) also decodes: one length limit
