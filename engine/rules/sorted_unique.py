"""Shared rule (C03.R3 = C15.R3): every constructor of a field / method list sorts by id (or name) and
checks uniqueness on the same vector before the list is used; the binary header parser rejects
non-ascending ids with `>=`."""
import re

from facts import AnchorMissing, callee, expr_path, nodes, peel, walk
from shared import variant_paths


def mentions(node, var):
    for n in walk(node):
        if n.get("k") == "path" and (n.get("res") or {}).get("kind") == "Local" and n["res"]["path"] == var:
            return True
    return False


def root_local(e):
    p = expr_path(e)
    return p.split(".")[0] if p else None


def block_sites(fn_hir):
    """sort calls with the block they sit in: yields (block node, stmt index, sort node, full receiver path)"""
    for blk in [n for n in walk(fn_hir["body"]) if n.get("k") == "block"]:
        items = list(blk.get("stmts") or [])
        if blk.get("e"):
            items.append(blk["e"])
        for i, st in enumerate(items):
            # only sorts that are direct statements of this block (not in nested blocks/closures)
            s = st.get("e") if st.get("k") == "semi" else st
            if isinstance(s, dict) and s.get("k") == "mcall" and re.match(r"^sort(_unstable)?(_by|_by_key)?$", s["m"]):
                yield blk, items, i, s


def sort_key_desc(s):
    """what the sort orders by: 'id' (Label::get_id / hash field), 'name' (string compare), or None"""
    if s["m"] in ("sort", "sort_unstable"):
        return "natural"
    cl = [n for n in walk(s) if n.get("k") == "closure"]
    if not cl:
        return None
    body = cl[0]["body"]
    cs = [callee(n) or n.get("m") for n in walk(body) if n.get("k") in ("call", "mcall")]
    if any(c and c.endswith("Label::get_id") for c in cs):
        return "id"
    # derive: |Variant { hash, .. }| *hash  — closure parameter destructures the field `hash`
    for p in cl[0].get("params", []):
        for f in (p.get("fields") or []):
            if f[0] == "hash":
                return "id"
    fl = [n["n"] for n in walk(body) if n.get("k") == "field"]
    if any(c and (c.endswith("partial_cmp") or c.endswith("::cmp")) for c in cs) and ("id" in fl or "0" in fl):
        return "name"
    return None


def uniqueness_after(items, start, var):
    """index of the first statement after `start` that checks uniqueness of `var` and propagates the failure"""
    for j in range(start + 1, len(items)):
        st = items[j]
        for n in walk(st):
            if n.get("k") == "call" and (callee(n) or "").endswith("utils::check_unique") and mentions(n, var):
                return j, "check_unique"
    return None, None


def uniqueness_set_before(items, upto, var):
    """derive style: a BTreeSet of the keys is built from `var` and its len compared with var.len() in an assert"""
    setvar = None
    for j in range(0, len(items)):
        st = items[j]
        if st.get("k") == "slet" and st.get("init") is not None and mentions(st["init"], var):
            ty = (st["pat"] or {}).get("ty") or ""
            if "BTreeSet" in ty:
                setvar = st["pat"].get("n")
                continue
        if setvar and any(m in ("assert_eq", "assert") for n in walk(st) for m in (n.get("mac") or [])):
            if mentions(st, setvar) and mentions(st, var):
                lens = [n for n in walk(st) if n.get("k") == "mcall" and n["m"] == "len"]
                if len(lens) >= 2:
                    return j, "set-size assert"
    return None, None


def first_use_after(items, start, var, skip):
    for j in range(start + 1, len(items)):
        if j in skip:
            continue
        if mentions(items[j], var):
            return j
    return None


def run_rule(chk, facts, spec):
    found = 0
    # ---- grammar actions and derive
    for crate_name, key_re in (("candid_parser", r"grammar::__action\d+$"), ("candid_derive", r"derive::(enum_from_ast|fields_from_ast)$")):
        cr = facts.crate(crate_name)
        for h in cr.fns(key_re):
            for blk, items, i, s in block_sites(h):
                var = root_local(s["recv"])
                if not var:
                    continue
                built = sorted(set(variant_paths(h["body"], "candid::types::value::IDLValue::") +
                                   variant_paths(h["body"], "candid_parser::syntax::IDLType::")))
                what = (",".join(built) or h["name"]) if crate_name == "candid_parser" else h["name"]
                if crate_name == "candid_parser" and not built:
                    rv = expr_path(s["recv"]) or ""
                    what = "names:" + s["m"]
                key = f"{crate_name}:{what}"
                chk.analysed(h["key"])
                found += 1
                kd = sort_key_desc(s)
                u_at, how = uniqueness_after(items, i, var)
                if u_at is None:
                    u_at, how = uniqueness_set_before(items, i, var)
                if u_at is None:
                    chk.bad(f"{key}:unique", f"{h['key']}: vector `{var}` is sorted ({s['m']}) but never checked for duplicate "
                                             f"ids/names before it is used (no check_unique on it, no set-size assertion)")
                    continue
                if how == "check_unique" and not (i < u_at):
                    chk.bad(f"{key}:order", f"{h['key']}: check_unique on `{var}` compares neighbours and must run after the sort")
                    continue
                chk.expect(kd in ("id", "name", "natural"), f"{key}:sort-key",
                           f"{h['key']}: `{var}` is sorted by something other than the label id / method name",
                           ok_detail=f"`{var}` sorted by {kd} ({s['m']}), uniqueness by {how}")
                # the sorted+checked vector must not be consumed before both happened
                early = [j for j in range(0, max(i, u_at)) if j not in (i, u_at) and mentions(items[j], var)
                         and any((n.get("k") == "call" and ((callee(n) or "").startswith("candid::types::value::IDLValue::")
                                                             or (callee(n) or "").startswith("candid_parser::syntax::IDLType::")))
                                 for n in walk(items[j]))]
                chk.expect(not early, f"{key}:before-use", f"{h['key']}: `{var}` is used to build the result before sort/uniqueness check")
    chk.floor("sort-then-check-unique constructor sites (grammar actions + derive)", found, 7)

    header_rule(chk, facts)
    check_unique_rule(chk, facts)


def check_unique_rule(chk, facts):
    """utils::check_unique is the one place where "no two neighbours of the sorted list are equal" is decided: it has to compare *every*
    adjacent pair — a running `prev` updated on every iteration, or windows(2) — not disjoint pairs (chunks), nor a strided subset"""
    c = facts.crate("candid")
    h = c.fn(r"^candid::utils::check_unique$")
    chk.analysed(h["key"])
    param = (h["params"][0] or {}).get("n")
    loops = [m for m in nodes(h["body"], "match") if m.get("src") == "ForLoopDesugar" and (callee(m["scrut"]) or "").endswith("IntoIterator::into_iter")]
    ok, why = False, "no loop over the sorted items found"
    if loops:
        src = m0 = loops[0]["scrut"]["args"][0]
        chain = []
        while isinstance(src, dict) and src.get("k") == "mcall":
            chain.append(src["m"])
            src = src["recv"]
        rootp = expr_path(src)
        bad_adaptors = [a for a in chain if a in ("chunks", "chunks_exact", "step_by", "skip", "take", "rchunks", "filter", "skip_while", "take_while")]
        if rootp != param and not chain:
            why = f"the loop runs over `{rootp}`, not over the sorted items `{param}`"
        elif bad_adaptors:
            why = f"the loop runs over {'.'.join(reversed(chain))}: {bad_adaptors} visits only some of the adjacent pairs"
        elif "windows" in chain:
            ok, why = True, "windows(2) over the sorted items"
        else:
            # running-prev idiom: `prev = Some(item)` is a statement of the loop body itself (every iteration), and item == prev is tested
            inner = [m for m in nodes(loops[0], "match") if m.get("src") == "ForLoopDesugar" and m is not loops[0]]
            body_arm = None
            for mm in inner:
                for a in mm["arms"]:
                    if a["pat"].get("k") in ("ts", "struct") and a["body"].get("k") == "block":
                        body_arm = a
            if body_arm is None:
                why = "loop body not found"
            else:
                item = [x.get("n") for x in walk(body_arm["pat"]) if x.get("k") == "bind"]
                stmts = list(body_arm["body"].get("stmts") or []) + ([body_arm["body"]["e"]] if body_arm["body"].get("e") else [])
                upd = []
                for st in stmts:
                    s0 = st.get("e") if st.get("k") == "semi" else st
                    if isinstance(s0, dict) and s0.get("k") == "assign":
                        rhs = [x for x in walk(s0["b"]) if x.get("k") == "path" and (x.get("res") or {}).get("kind") == "Local"]
                        if any((x["res"]["path"] in item) for x in rhs):
                            upd.append(expr_path(s0["a"]))
                eqs = [x for x in walk(body_arm["body"]) if (x.get("k") == "bin" and x.get("op") in ("Eq", "Ne"))
                       or (x.get("k") in ("call", "mcall") and re.search(r"PartialEq::(eq|ne)$", callee(x) or ""))]
                ok = bool(upd) and bool(eqs)
                why = f"running previous item `{upd}` updated on every iteration, {len(eqs)} equality test(s)" if ok else \
                    f"no unconditional `prev = Some(item)` in the loop body (updates: {upd}) or no equality test ({len(eqs)})"
    chk.expect(ok, "check_unique:every-adjacent-pair",
               f"candid::utils::check_unique must compare every adjacent pair of the sorted sequence: {why}. Otherwise two equal ids / names at "
               f"some positions are accepted (duplicate field ids, duplicate method names)", where=f"{h['span']['file']}:{h['span']['lo']}",
               ok_detail=why)


def header_rule(chk, facts):
    # ---- binary header parser: strict ascending test
    c = facts.crate("candid")
    b = c.body(r"binary_parser::ConsType::to_type$")
    chk.analysed(b.key)
    # to_type and the functions of binary_parser.rs it calls directly (the field loop may live in a helper of its own)
    from facts import term_callee
    bodies = [b]
    for _bi, t_, _cal in b.call_sites():
        d_, r_ = term_callee(t_)
        for k_ in (d_, r_):
            if k_ and k_ in c.bodies and k_ != b.key and c.bodies[k_].span["file"] == b.span["file"] and c.bodies[k_] not in bodies \
                    and not re.search(r"::to_type$", k_):
                bodies.append(c.bodies[k_])
    ge = []
    for bb_ in bodies:
        for bi, blk in enumerate(bb_.blocks):
            for st in blk["s"]:
                if st["k"] == "assign" and st["r"].get("k") == "bin" and st["r"]["op"] in ("Ge", "Gt", "Le", "Lt"):
                    ge.append((bi, st))
    ops = sorted(st["r"]["op"] for _, st in ge)
    # record/variant: `prev >= f.id` on u32; service: `prev >= &m.name` is a PartialOrd::ge call
    u32_cmp = [st for _, st in ge if st["r"]["op"] in ("Ge", "Gt")]
    chk.expect(len(u32_cmp) == 1 and u32_cmp[0]["r"]["op"] == "Ge", "header:field-ids-strict",
               f"ConsType::to_type must reject a field id that is not strictly greater than its predecessor with `>=`; found comparisons {ops}",
               ok_detail="prev >= f.id ⇒ error")
    name_cmp = [cal for bb_ in bodies for _, t, cal in bb_.call_sites() if cal and re.search(r"PartialOrd.*::(ge|gt|le|lt)$", cal)]
    chk.expect(len(name_cmp) == 1 and name_cmp[0].endswith("::ge"), "header:method-names-strict",
               f"ConsType::to_type must reject a method name that is not strictly greater than its predecessor with `>=`; found {name_cmp}",
               ok_detail="prev >= &m.name ⇒ error")
