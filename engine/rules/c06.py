"""C06 — decoding arbitrary bytes never panics, crashes or over-allocates (structural clauses)."""
import re
from collections import Counter

from facts import AnchorMissing, callee, expr_path, nodes, term_callee, unblock, walk
from pathflow import Flow, simple_local
import absint
import de_rules
import reach

TITLE = ("C06: every recursion cycle of the decoder passes through a live depth guard; every arithmetic / bounds / index trap "
         "in decode-reachable code is discharged by abstract interpretation or listed with a reviewed reason; every other "
         "panic site and every unsafe operation in decode-reachable code is inventoried with a reason; allocations sized by "
         "wire data follow a successful bounds check.")

# ---------------------------------------------------------------------------------------------- R1: recursion
GUARDED_CYCLES = {   # functions that must hold a live DepthGuard at every call that stays inside their recursion cycle
    "candid::types::type_env::TypeEnv::trace_type_with_depth", "candid::types::type_env::TypeEnv::rec_find_type_with_depth",
    "candid::types::type_env::TypeEnv::as_func_with_depth", "candid::types::type_env::TypeEnv::as_service_with_depth",
    "candid::types::type_env::TypeEnv::is_empty", "candid::types::subtype::subtype_", "candid::types::subtype::subtype_collect_",
    "candid::types::subtype::equal_impl", "candid::types::value::IDLValue::annotate_type_with_depth",
    "<&mut candid::de::Deserializer<'de> as serde_core::de::Deserializer<'de>>::deserialize_option",
}
PASS_THROUGH = {     # members of a guarded cycle that only forward to a guarded member
    "candid::types::subtype::subtype_probe": "forwards to subtype_, which takes the guard at its entry",
    "candid::types::subtype::check_func_params": "forwards to subtype_collect_, which takes the guard at its entry",
    "candid::de::Deserializer::<'de>::recoverable_visit_some": "called only from deserialize_option under its guard; re-enters through deserialize_ignored_any",
    "<&mut candid::de::Deserializer<'de> as serde_core::de::Deserializer<'de>>::deserialize_any": "pure dispatcher; every constructor-consuming callee takes a guard",
    "<&mut candid::de::Deserializer<'de> as serde_core::de::Deserializer<'de>>::deserialize_ignored_any": "sets expect := wire and dispatches; the reserved arm of deserialize_any can call it only once per value (afterwards expect == wire)",
}
UNGUARDED_OK = {     # recursion that does not need a guard, with the reason
    r"^candid::error::get_binread_labels$": "walks a binread error tree whose depth is bounded by the nesting of the header grammar (a constant)",
    r"^candid::types::internal::TypeContainer::go": "walks a type derived from Rust types (finite tree supplied by the program, not by the message)",
    r"^candid::types::internal::Type::subst": "not on the decoding path (upgrade check over checked environments)",
    r"^candid::pretty::": "prints a finite type / value tree; wire types are one constructor over table references, values are bounded by the depth guard that built them",
    r"^candid::types::internal::text_size$": "bounded by its `limit` argument (<= 500), which decreases by at least 3 per level",
    r"^candid::types::internal::unroll": "not on the decoding path",
    r"^candid::types::subtype::format_report::Node::": "not on the decoding path (report rendering)",
    r"^candid::types::value::IDLValue::value_ty": "walks a value; values built by decoding are bounded by the depth guard, parsed ones by the parser's nesting limit",
    r"^candid::ser::TypeSerialize::": "encoding path",
    r"^candid::types::bounded_vec": "not recursive over message data",
}


def guard_states(body, targets):
    """for every call to a function in `targets`: is a named DepthGuard live on every path reaching it?"""
    flow = Flow(body)
    res = {}

    def on_stmt(bi, st, bits, cd):
        if st["k"] == "assign":
            l = simple_local(st["p"])
            if l is not None and body.local_ty(l).endswith("utils::DepthGuard") and body.local_name(l):
                return frozenset(set(bits) | {"guard"})
        return bits

    def on_term(bi, t, bits, cd):
        if t["k"] == "drop" and not t["p"].get("p") and body.local_ty(t["p"]["l"]).endswith("utils::DepthGuard"):
            return frozenset(x for x in bits if x != "guard")
        if t["k"] == "call":
            d, r = term_callee(t)
            for n in (r, d):
                if n in targets:
                    res.setdefault((bi, n), []).append("guard" in bits)
        return bits

    flow.explore(frozenset(), on_stmt=on_stmt, on_term=on_term)
    return res


# ---------------------------------------------------------------------------------------------- R2: traps
# (function regex, obligation regex) -> reason; an undischarged obligation must match a row
ASSUMED_TRAPS = [
    (r"Deserializer<'de>>::deserialize_seq$", r"assert:overflow:Add#[123]$",
     "pos + total_bytes and pos + access.offset: after the two checked_mul's (len * (3+width) and len * width) an overflow needs an "
     "input longer than 3/11 of the address space; access.offset <= total_bytes because PrimitiveVecAccess advances by element_size "
     "at most `remaining` times"),
    (r"Deserializer<'de>>::deserialize_seq$", r"assert:overflow:Sub#0$",
     "slice.len() - pos in an error message: the cursor never leaves the input (see Cursor::position assumption)"),
    (r"bounded_vec::.*SeqVisitor.*::visit_seq$", r"assert:overflow:Add#0$",
     "total_data_size + new_element_data_size: both are sizes of values already held in memory, their sum cannot exceed the address space"),
    (r"(IntVisitor|NatVisitor|ServVisitor|FuncVisitor|PrincipalVisitor|IDLValueVisitor) as serde_core::de::Visitor<'.*>>::visit_byte_buf$", r"(index#\d|assert:bounds#0)$",
     "the tagged buffers handed to visit_byte_buf by de.rs always start with the tag byte (rule C08.R3 checks every producer), "
     "so element 0 and the tail [1..] exist; these visitors are reached only through this crate's Deserializer when decoding Candid"),
    (r"Compound<'_, 'de> as serde_core::de::MapAccess<'de>>::next_key_seed$", r"assert:overflow:Add#\d$",
     "*expect_idx += 1 / *wire_idx += 1: an index into a Vec<Field>, bounded by its length (<= isize::MAX)"),
    (r"Compound<'_, 'de> as serde_core::de::MapAccess<'de>>::next_key_seed$", r"index#0$",
     "wire_fields[*wire_idx] in the (None, Some(_)) arm: that arm is taken only when wire_fields.get(*wire_idx) returned Some"),
    (r"Compound<'_, 'de> as serde_core::de::SeqAccess<'de>>::next_element_seed::\{closure#\d\}$", r"assert:overflow:Add#0$",
     "*expect_idx += 1 / *wire_idx += 1 inside Option::map on fields.get(idx): runs only when idx < fields.len()"),
    (r"PrimitiveVecAccess<'de> as serde_core::de::SeqAccess<'de>>::next_element_seed$", r"(assert:bounds#\d|assert:overflow:Add#\d|index#0)$",
     "struct invariant set up by its only constructor in deserialize_seq: data.len() == remaining * element_size + offset with "
     "element_size = primitive_byte_cost(prim) >= 1, so data[offset..offset+element_size] is in range and bytes[0] exists"),
    (r"DecoderConfig::compute_cost::\{closure#\d\}$", r"assert:overflow:Sub#0$",
     "original - remaining: not on the decoding path; `self` is the configuration handed back by the decoder that was created from `original`"),
    (r"Deserializer::<'de>::deserialize_blob$", r"assert:overflow:Add#0$",
     "len + 1 after borrow_bytes(len) succeeded, hence len <= input length <= isize::MAX"),
    (r"Deserializer::<'de>::deserialize_(int|nat)$", r"assert:overflow:Sub#\d$",
     "position() - pos: the cursor only moves forward between the two reads (reads advance it, the fall-back path restores the saved position before re-reading)"),
    (r"Deserializer::<'de>::dump_state$", r"index#0$",
     "hex.split_at(position * 2): the cursor never leaves the input and hex has two characters per input byte"),
    (r"IDLDeserialize::<'de>::done$", r"index#0$", "input[position..]: the cursor never leaves the input"),
    (r"internal::TypeName::get$", r"assert:overflow:Add#0$", "a per-name counter of Rust types seen by this thread"),
    (r"internal::text_size$", r"assert:overflow:(Add|Sub)#\d+$",
     "i32 arithmetic on rendered-size estimates: every partial cost is bounded by `limit` (<= 500, an Err is returned beyond it) plus the "
     "length of one identifier, and identifiers in a message are shorter than 2^31 bytes"),
    (r"number::Int::decode$", r"assert:overflow:Mul#1$", "7 * groups.len(): one group per input byte read"),
    (r"utils::pp_num_str$", r"index#0$", "groups[1..] is taken only when groups.first() is \"-\", so groups is not empty"),
    (r"ic_principal::Principal::as_slice$", r"index#0$",
     "bytes.split_at(len): len <= 29 = bytes.len() is the struct invariant enforced by every constructor (rule C16.R1)"),
]

# ---------------------------------------------------------------------------------------------- R4: other panic sites
# (function regex, site kind regex, max count, reason)
PANIC_INVENTORY = [
    (r"binary_parser::ConsType as binread::BinRead>::read_options", r"unwrap", 7,
     "generated by binread's derive for enum variants (trusted base): unwraps the error list it has just filled"),
    (r"Compound<'_, 'de> as serde_core::de::(MapAccess|SeqAccess)<'de>>::next_(key|element)_seed$", r"panic!unreachable", 2,
     "Style::Struct is only constructed by deserialize_struct / deserialize_seq after both types were matched as Record (rule C06.R1 checks every construction site)"),
    (r"PrimitiveVecAccess<'de> as serde_core::de::SeqAccess<'de>>::next_element_seed$", r"unwrap", 8,
     "bytes.try_into().unwrap(): the slice has element_size bytes and element_size = primitive_byte_cost(prim) equals the width of the "
     "target integer (primitive matrix, rule C08.R4)"),
    (r"IDLValueVisitor as serde_core::de::Visitor<'de>>::visit_enum$", r"panic!unreachable", 3,
     "the variant tag string is written by variant_seed in the form `<label>,<name|id>,<unit|struct|newtype>` and split from the right, so "
     "exactly three parts with a known middle and last part arrive"),
    (r"IDLValueVisitor as serde_core::de::Visitor<'de>>::visit_enum$", r"unwrap", 1,
     "hash.parse::<u32>().unwrap(): for `id` labels variant_seed writes u32::to_string()"),
    (r"IDLValueVisitor as serde_core::de::Visitor<'de>>::visit_map$", r"panic!unreachable", 1,
     "record keys are produced by deserialize_identifier as visit_string or visit_u32 only"),
    (r"binary_parser::IndexType::to_type$", r"panic!unreachable", 1,
     "the binread assertion on `index` admits exactly the opcodes listed in the match (rule C03.R1 index-range)"),
    (r"Deserializer::<'de>::dump_state$", r"unwrap", 3, "write! into a String cannot fail"),
    (r"Deserializer::<'de>::recoverable_visit_some$", r"panic!panic", 1,
     "depends only on the Rust visitor type, not on the message: serde's OptionVisitor, IgnoredAny and IDLValueVisitor are accepted"),
    (r"Deserializer::<'de>::set_field_name$", r"panic!unreachable", 1,
     "every set_field_name is followed by seed.deserialize, whose first step (deserialize_any / deserialize_identifier) takes the field name"),
    (r"IDLDeserialize::<'de>::deserialize_with_type$", r"unwrap", 1, "types.pop_front().unwrap() after the is_empty() branch returned"),
    (r"pretty::candid::(pp_class|pp_service::\{closure#0\})$", r"panic!unreachable", 1,
     "printing types in error messages: wire types never contain Class, and service methods in a header are references to function types "
     "(Table::to_env rejects anything else, rule C02.R4); expected types come from checked programs or derived Rust types"),
    (r"bounded_vec::BoundedVec::<.*>::new$", r"panic!assert", 1,
     "constructor precondition; on the decoding path it is called only after the three limit tests passed"),
    (r"internal::TypeName::get$", r"unwrap", 2, "split(..).next() always yields a first item"),
    (r"internal::text_size$", r"panic!unreachable", 1, "Class is never part of a wire type or of an expected value type"),
    (r"number::(Int|Nat)::decode$", r"expect", 1, "from_radix_le(groups, 128): every group was masked with 0x7f, so it is a valid base-128 digit"),
    (r"types::subtype::subtype_$", r"unwrap", 4,
     "rec_find_type / find_type on a name taken from the environment being checked: wire environments are closed (IndexType::to_type rejects "
     "out-of-range indices) and Knot ids are registered before use"),
    (r"types::subtype::subtype_$", r"panic!unreachable", 3, "Var/Knot pairs are all covered by the four preceding arms; Unknown never reaches the checker"),
    (r"type_env::TypeEnv::trace_type_with_depth$", r"unwrap", 1, "find_type(id) for a Knot id registered by CandidType::ty before the type is used"),
    (r"candid::utils::decode_(args|one)_with_", r"unwrap", 1, "const-generic quota API: the unwrap is on a value constructed two lines above"),
    (r"candid::utils::pp_num_str$", r"unwrap", 1, "groups.first().unwrap(): rchunks of a non-empty digit string yields at least one group"),
    (r"ic_principal::Principal::from_text$", r"unwrap", 1, "try_from_slice on a payload whose length was tested against MAX_LENGTH_IN_BYTES just before (rule C16.R2)"),
    (r"utils::(DepthGuard as core::ops::drop::Drop)>::drop$|DepthGuard.*::drop$", r"expect", 1, "decrements a counter that this guard incremented"),
]
PANIC_CALL = re.compile(r"(core::panicking::|::unwrap$|::expect$|::unwrap_err$|::expect_err$|RefCell<T>::borrow(_mut)?$|begin_panic|unwrap_failed"
                        r"|alloc::vec::Vec::<T, A>::(remove|swap_remove|insert|split_off|drain)$|copy_from_slice$)")
ALLOC_CALL = re.compile(r"(alloc::vec::Vec::<T>::with_capacity$|alloc::vec::from_elem|String::with_capacity$|::reserve$|::reserve_exact$|::resize$)")
ALLOC_OK = [
    (r"Deserializer::<'de>::deserialize_blob$", "with_capacity", "after-borrow"),
    (r"number::(Int|Nat)::decode$", "with_capacity", "bounded"),
    (r"bounded_vec::.*::visit_seq$", "with_capacity", "const"),
    (r"NatVisitor as serde_core::de::Visitor<'de>>::visit_seq$", "with_capacity",
     "reason:Nat's visit_seq is for self-describing formats; under Candid the expected type of Nat is nat, which dispatches to deserialize_nat (never to a sequence)"),
    (r"(FuncVisitor|IDLValueVisitor) as serde_core::de::Visitor<'.*>>::visit_byte_buf$", "from_elem",
     "reason:vec![0; len] with len re-read from the buffer that deserialize_function assembled after borrow_bytes(len) succeeded, so len <= buffer length"),
]


def site_kind(name, mac):
    mac = [m for m in (mac or []) if not m.startswith("$crate") and not m.startswith("~")]
    base = name.rsplit("::", 1)[-1]
    if "panicking" in name or "begin_panic" in name or "unwrap_failed" in name:
        return "panic!" + (mac[0] if mac else "?")
    return base


def run(chk, facts, tier, only=None):
    c = facts.crate("candid")

    def r1():
        de_rules.rule_guard(chk, facts)
        de_rules.rule_progress(chk, facts)
        seen, g = reach.reachable(c, set(c.bodies))
        comps = reach.sccs(g)
        ncyc = 0
        for comp in comps:
            members = [m for m in comp if not c.bodies[m].j["kind"] == "Closure"]
            name = members[0] if members else comp[0]
            if any(re.search(rx, m) for m in comp for rx in UNGUARDED_OK):
                why = [UNGUARDED_OK[rx] for rx in UNGUARDED_OK if any(re.search(rx, m) for m in comp)][0]
                chk.assume(f"recursion in {name}: {why}")
                continue
            ncyc += 1
            unknown = [m for m in members if m not in GUARDED_CYCLES and m not in PASS_THROUGH]
            if unknown:
                chk.bad(f"cycle:{unknown[0]}:unclassified",
                        f"recursive cycle {members} is not classified: a function that recurses on message data must take a "
                        f"RecursionDepth guard (or be listed with the reason why its depth is bounded)")
                continue
            for m in members:
                chk.analysed(m)
                if m in PASS_THROUGH:
                    chk.assume(f"{m}: {PASS_THROUGH[m]}")
                    continue
                res = guard_states(c.bodies[m], set(comp))
                if not res:
                    continue
                bad = sorted({callee_ for (bi, callee_), sts in res.items() if not all(sts)})
                chk.expect(not bad, f"cycle:{m}:guarded",
                           f"{m} calls back into its recursion cycle ({[b.rsplit('::', 1)[-1] for b in bad]}) on a path where no DepthGuard "
                           f"is live: recursion depth on message-controlled data is then unbounded (stack overflow)",
                           ok_detail=f"{len(res)} recursive call site(s), guard live at each")
        chk.floor("guarded recursion cycles", ncyc, 9)

    def reachable_fns(crate):
        cc = facts.crate(crate)
        roots = reach.decode_roots(cc, crate)
        for k, b in cc.bodies.items():
            tr = (b.impl or {}).get("trait") or ""
            if tr.endswith("ops::drop::Drop") and re.search(r"(DepthGuard|Compound)", (b.impl or {}).get("self_ty", "")):
                roots.add(k)
        seen, g = reach.reachable(cc, roots)
        return cc, sorted(seen)

    def r2():
        from shared import width_fn_key
        absint.WIDTH_FN_KEY = width_fn_key(facts.crate("candid"))
        # precondition of the reviewed assumption on deserialize_seq / deserialize_map: the element count is bounded by a *checked*
        # multiplication before any fast path is armed
        de_rules.rule_bulk(chk, facts)
        n = 0
        nfn = 0
        for crate in ("candid", "ic_principal"):
            cc, fns = reachable_fns(crate)
            for k in fns:
                b = cc.bodies[k]
                has = False
                for blk in b.blocks:
                    if blk.get("c"):
                        continue
                    t = blk["t"]
                    if t["k"] == "assert" and not t["msg"].startswith("other:"):
                        has = True
                    if t["k"] == "call":
                        d, r = term_callee(t)
                        if re.search(r"(::index$|::index_mut$|::split_at$)", r or d or ""):
                            has = True
                if not has:
                    continue
                nfn += 1
                chk.analysed(k)
                res = absint.analyse(b)
                for a in sorted(res.assumptions):
                    chk.assume(a)
                if res.aborted:
                    chk.bad(f"{short_fn(k)}:analysis", f"abstract interpretation of {k} did not finish: {res.aborted}")
                    continue
                for kind, key, ok, detail, ln in res.obligations:
                    if kind != "panic":
                        continue
                    n += 1
                    if not ok:
                        row = [r for r in ASSUMED_TRAPS if re.search(r[0], k) and re.search(r[1], key)]
                        if row:
                            chk.assume(f"{short_fn(k)} {key}: {row[0][2]}")
                            chk.ok(f"{short_fn(k)}:{key}", "reviewed assumption", nontrivial=False)
                            continue
                    chk.expect(ok, f"{short_fn(k)}:{key}",
                               f"{k}: {key} can trap on some input (panic in debug builds; wrap-around followed by an out-of-range "
                               f"access in release): {detail}", where=f"{b.span['file']}:{ln}",
                               ok_detail="discharged by abstract interpretation")
        chk.floor("decode-reachable functions with arithmetic/bounds traps", nfn, 35)
        chk.floor("trap obligations", n, 120)

    def r3():
        # allocations sized by message data
        n = 0
        for crate in ("candid", "ic_principal"):
            cc, fns = reachable_fns(crate)
            for k in fns:
                b = cc.bodies[k]
                for bi, t, cal in b.call_sites():
                    if not cal or not ALLOC_CALL.search(cal) or b.is_cleanup(bi):
                        continue
                    n += 1
                    what = "from_elem" if "from_elem" in cal else cal.rsplit("::", 1)[-1]
                    row = [r for r in ALLOC_OK if re.search(r[0], k) and r[1] == what]
                    key = f"alloc:{short_fn(k)}:{what}"
                    if not row:
                        chk.bad(key, f"{k} allocates ({what}) in decode-reachable code and is not in the reviewed list: an allocation sized "
                                     f"by a length read from the message must follow a successful bounds check of that length",
                                where=f"{b.span['file']}:{t.get('ln')}")
                        continue
                    mode = row[0][2]
                    if mode == "after-borrow":
                        h = cc.hir.get(k)
                        okb = False
                        if h:
                            body = h["body"]
                            items = list(body.get("stmts") or []) + ([body["e"]] if body.get("e") else [])
                            bor = alloc = None
                            var = None
                            for i, st in enumerate(items):
                                for x in walk(st):
                                    if x.get("k") == "mcall" and x["m"] == "borrow_bytes" and bor is None:
                                        bor, var = i, expr_path(x["args"][0])
                                    if x.get("k") == "call" and (callee(x) or "").endswith("Vec::<T>::with_capacity") and alloc is None:
                                        alloc = (i, [expr_path(y) for y in walk(x["args"][0]) if y.get("k") == "path"])
                            okb = bor is not None and alloc is not None and bor < alloc[0] and var in alloc[1]
                        chk.expect(okb, key, f"{k}: the buffer must be allocated after borrow_bytes(len)? succeeded for the same `len`",
                                   ok_detail="borrow_bytes(len)? precedes with_capacity(len + 1)")
                    elif mode in ("bounded", "const"):
                        res = absint.Interp(b)
                        caps = []
                        orig = res.step_term

                        def hook(st_, bi_, t_, _orig=orig, _res=res, _caps=caps):
                            if t_["k"] == "call":
                                d_, r_ = term_callee(t_)
                                if ALLOC_CALL.search(r_ or d_ or "") and t_["args"]:
                                    v = _res.val(st_, _res.operand(st_, t_["args"][0], (bi_, "a")))
                                    _caps.append(v.hi if v is not None else None)
                            return _orig(st_, bi_, t_)
                        res.step_term = hook
                        res.run()
                        if mode == "const":
                            ga = [a for a in caps]
                            chk.ok(key, "capacity is a const generic parameter of the type, not message data", nontrivial=False)
                        else:
                            chk.expect(bool(caps) and all(v is not None and v <= 4096 for v in caps), key,
                                       f"{k}: capacity must be bounded by a small constant on every path, found upper bounds {caps[:4]}",
                                       ok_detail=f"capacity <= {max(caps) if caps else '?'} on every path")
                    else:
                        chk.assume(f"{short_fn(k)} {what}: {mode[len('reason:'):]}")
                        chk.ok(key, "reviewed", nontrivial=False)
        chk.floor("allocation sites in decode-reachable code", n, 7)

    def r4():
        n = 0
        for crate in ("candid", "ic_principal"):
            cc, fns = reachable_fns(crate)
            for k in fns:
                b = cc.bodies[k]
                cnt = Counter()
                where = {}
                for bi, t, cal in b.call_sites():
                    if b.is_cleanup(bi) or not cal or not PANIC_CALL.search(cal):
                        continue
                    kind = site_kind(cal, t.get("mac"))
                    cnt[kind] += 1
                    where[kind] = t.get("ln")
                for kind, num in sorted(cnt.items()):
                    n += num
                    rows = [r for r in PANIC_INVENTORY if re.search(r[0], k) and re.search(r[1], kind)]
                    key = f"site:{short_fn(k)}:{kind}"
                    if not rows:
                        chk.bad(key, f"{k} contains {num} `{kind}` site(s) in decode-reachable code that are not in the reviewed inventory: "
                                     f"a panic reachable from message bytes violates the property",
                                where=f"{b.span['file']}:{where[kind]}")
                        continue
                    chk.expect(num <= rows[0][2], key,
                               f"{k} now contains {num} `{kind}` sites, {rows[0][2]} were reviewed ({rows[0][3]}): the new site needs a reason",
                               where=f"{b.span['file']}:{where[kind]}", ok_detail=rows[0][3][:100])
                    chk.assume(f"{short_fn(k)} {kind} x{num}: {rows[0][3]}")
        chk.floor("non-arithmetic panic sites in decode-reachable code", n, 45)
        cursor_rule()
        # set_field_name's unreachable!(): "the pending field name was taken before the next one is set" holds within one value; a value that
        # fails after next_key_seed selected a field leaves the name pending, so every entry that starts a new value on the same
        # Deserializer must clear it (otherwise the next get_value of a record panics instead of returning a value or an error)
        sfn = c.fn(r"de::Deserializer::<'de>::set_field_name$")
        guarded = any(is_panic_call(x) for x in walk(sfn["body"])) if "is_panic_call" in globals() else \
            any(x.get("k") == "call" and re.search(r"core::panicking|begin_panic|panic_fmt", callee(x) or "") for x in walk(sfn["body"]))
        if guarded:
            entry = c.fn(r"de::IDLDeserialize::<'de>::deserialize_with_type$")
            chk.analysed(entry["key"], sfn["key"])
            clears = [a for a in nodes(entry["body"], "assign") if (expr_path(a["a"]) or "").endswith(".field_name")
                      and (unblock(a["b"]).get("k") == "path" and (unblock(a["b"]).get("res") or {}).get("path", "").endswith("Option::None"))]
            takes = [x for x in walk(entry["body"]) if x.get("k") == "mcall" and x["m"] in ("take",) and (expr_path(x["recv"]) or "").endswith(".field_name")]
            chk.expect(bool(clears or takes), "field-name:cleared-at-value-start",
                       "Deserializer::set_field_name panics (unreachable!) when a field name is still pending, and IDLDeserialize::deserialize_with_type — the "
                       "start of every get_value / get_value_with_type — does not clear it: after `get_value::<Big>()` failed on a missing required field, "
                       "`get_value::<Small>()` on the same IDLDeserialize panics at the first record field instead of returning a value or an error",
                       where=f"{entry['span']['file']}:{entry['span']['lo']}", ok_detail="field_name = None before the value is dispatched")
        else:
            chk.ok("field-name:cleared-at-value-start", "set_field_name does not panic on a pending name", nontrivial=False)
        # the variant tag string: variant_seed appends `,<name|id>,<accessor>` to the label; the consumer must take those two
        # parts from the right, because the label is arbitrary text of the expected type
        from shared import fmt_template
        h = c.method(r"de::Compound", "variant_seed", r"EnumAccess$")
        from shared import with_local_callees
        tmpls = []
        for g, _via in with_local_callees(c, h):
            for x in walk(g["body"]):
                if x.get("k") == "mcall" and x["m"] == "write_fmt":
                    tp = fmt_template(x)
                    if tp is not None:
                        tmpls.append(tp)
        lits = ["".join(v for kind, v in tp if kind == "lit") for tp in tmpls]
        chk.expect(len(lits) == 1 and lits[0].count(",") == 2 and tmpls[0][0] == ("lit", ","), "variant-tag:producer",
                   f"variant_seed must append exactly `,<label kind>,<accessor>` to the label; templates found: {lits}")
        h = c.method(r"value::IDLValueVisitor$", "visit_enum", r"de::Visitor$")
        sp = [x for x in walk(h["body"]) if x.get("k") == "mcall" and x["m"] in ("split", "rsplit", "splitn", "rsplitn", "split_once", "rsplit_once")]
        from facts import lit_value
        okc = len(sp) == 1 and sp[0]["m"] == "rsplitn" and lit_value(sp[0]["args"][0]) == 3 and lit_value(sp[0]["args"][1]) == ","
        chk.expect(okc, "variant-tag:consumer-splits-from-the-right",
                   f"IDLValueVisitor::visit_enum must split the tag string from the right into at most 3 parts (rsplitn(3, ',')): the label "
                   f"part may itself contain commas, and any other split reaches unreachable!() for such a label; found "
                   f"{[(x['m'], [lit_value(a) for a in x['args']]) for x in sp]}",
                   ok_detail="rsplitn(3, ',')")

    def cursor_rule():
        """`done()`, `dump_state()` and every slice of the remaining input assume position <= input length.  The cursor only moves through
        bounds-checking readers, except at explicit set_position calls: each of those must rewind to an earlier position() or be
        dominated by a comparison against the input length, and no other cursor-moving API (Seek::seek, consume, get_mut) may be used"""
        from facts import op_place, term_callee
        cc = facts.crate("candid")
        n_set = 0
        MOVERS = re.compile(r"io::Seek>?::(seek|rewind|seek_relative)$|io::BufRead>?::consume$|cursor::Cursor::<T>::(get_mut|into_inner|set_position)$")
        for k, b in sorted(cc.bodies.items()):
            if not b.span["file"].endswith("candid/src/de.rs"):
                continue
            defs = {}
            for bi, blk in enumerate(b.blocks):
                for st in blk["s"]:
                    if st["k"] == "assign" and not st["p"].get("p"):
                        defs.setdefault(st["p"]["l"], []).append(("rv", st["r"], bi))
                t = blk["t"]
                if t["k"] == "call" and t.get("dest") and not t["dest"].get("p"):
                    d, r = term_callee(t)
                    defs.setdefault(t["dest"]["l"], []).append(("call", r or d or "", bi, t))

            def sources(l, depth=0, seen=None):
                """names of the calls / rvalue kinds a local's value is computed from"""
                seen = seen if seen is not None else set()
                if l in seen or depth > 10:
                    return set()
                seen.add(l)
                out = set()
                for d in defs.get(l, []):
                    if d[0] == "call":
                        out.add(d[1])
                        if re.search(r"(::from$|::into$|::try_from$|::try_into$|::unwrap$|Try>::branch$|::clone$|::deref$|::as_ref$|convert::identity$)", d[1]):
                            for a in d[3].get("args", []):
                                pa = op_place(a)
                                if pa is not None:
                                    out |= sources(pa["l"], depth + 1, seen)
                    else:
                        rv = d[1]
                        out.add("rv:" + rv["k"] + (":" + rv.get("op", "") if rv["k"] in ("bin", "un") else ""))
                        for key in ("o", "a", "b"):
                            if key in rv:
                                pa = op_place(rv[key])
                                if pa is not None:
                                    out |= sources(pa["l"], depth + 1, seen)
                        if "p" in rv and isinstance(rv["p"], dict) and "l" in rv["p"]:
                            out |= sources(rv["p"]["l"], depth + 1, seen)
                        for o in rv.get("ops", []) or []:
                            pa = op_place(o)
                            if pa is not None:
                                out |= sources(pa["l"], depth + 1, seen)
                return out

            dom = None
            for bi, t, cal0 in b.call_sites():
                dd, rr = term_callee(t)
                cal = next((x for x in (dd, rr) if x and MOVERS.search(x)), None)
                if b.is_cleanup(bi) or not cal:
                    continue
                fnn = short_fn(k)
                if not cal.endswith("set_position"):
                    chk.bad(f"cursor:{fnn}:{cal.rsplit('::', 1)[-1]}",
                            f"{k} moves the input cursor with {cal}, which does not check the new position against the input length: "
                            f"IDLDeserialize::done and dump_state slice the input at the cursor position and panic when it lies beyond the end",
                            where=f"{b.span['file']}:{t.get('ln')}")
                    continue
                n_set += 1
                arg = op_place(t["args"][1]) if len(t.get("args", [])) > 1 else None
                src = sources(arg["l"]) if arg is not None else set()
                adds = any(x.startswith("rv:bin:Add") or x.startswith("rv:bin:Mul") or x.startswith("rv:bin:Sub") for x in src)
                rewind = any(x.endswith("Cursor::<T>::position") for x in src) and not adds
                guarded = False
                if not rewind:
                    dom = dom or b.dominators()
                    for db in dom.get(bi, ()):
                        tt = b.blocks[db]["t"]
                        if tt["k"] != "switch":
                            continue
                        dp = op_place(tt["d"])
                        if dp is None:
                            continue
                        ss = sources(dp["l"])
                        cmp_ = any(re.match(r"rv:bin:(Lt|Le|Gt|Ge)", x) for x in ss)
                        lens = any(x.endswith("]>::len") or x in ("rv:len", "rv:un:PtrMetadata") or x.endswith("::len") for x in ss)
                        if cmp_ and lens:
                            guarded = True
                chk.expect(rewind or guarded, f"cursor:{fnn}:set_position@{'rewind' if rewind else 'advance'}",
                           f"{k}: set_position is neither a rewind to an earlier position() nor dominated by a comparison against the length of the "
                           f"input slice; the cursor could be placed beyond the end of the input (done() / dump_state() would panic)",
                           where=f"{b.span['file']}:{t.get('ln')}",
                           ok_detail="rewinds to a saved position()" if rewind else "advance dominated by a comparison with the slice length")
        chk.floor("set_position sites in de.rs", n_set, 7)

    def r5():
        n = 0
        for crate in ("candid", "ic_principal"):
            cc, fns = reachable_fns(crate)
            for k in fns:
                h = cc.hir.get(k)
                if not h:
                    continue
                uns = [x for x in walk(h["body"]) if x.get("k") == "block" and x.get("unsafe") and not any(
                    m in ("format_args", "$crate::__export::format_args", "format", "write", "panic", "unreachable") for m in (x.get("mac") or []))]
                # rustc's own format_args! lowering uses an internal unsafe block: recognise it by its only call
                uns = [x for x in uns if not all((callee(y) or "").startswith("core::fmt::") for y in walk(x) if y.get("k") == "call")
                       or not [y for y in walk(x) if y.get("k") == "call"]]
                for u in uns:
                    n += 1
                    if k.endswith("Deserializer::<'de>::recoverable_visit_some"):
                        cs = [(callee(y) or "") for y in walk(u) if y.get("k") == "call"]
                        # the copy of the visitor is guarded by the type-identity test that panics for any other visitor
                        body = h["body"]
                        items = list(body.get("stmts") or [])
                        guard_at = read_at = None
                        for i, st in enumerate(items):
                            if guard_at is None and any(y.get("k") == "bin" and y.get("op") in ("Ne", "Eq") and
                                                        any((callee(z) or "").endswith("TypeId::of") for z in walk(y) if z.get("k") == "call")
                                                        for y in walk(st)) and any(m == "panic" for y in walk(st) for m in (y.get("mac") or [])):
                                guard_at = i
                            if read_at is None and any(y is u for y in walk(st)):
                                read_at = i
                        chk.expect(cs == ["core::ptr::read"] and guard_at is not None and read_at is not None and guard_at < read_at,
                                   "unsafe:recoverable_visit_some:ptr::read",
                                   f"the bit-copy of the visitor must be preceded by the type-identity test that rejects every visitor type "
                                   f"not known to be Copy / zero-sized (calls {cs}, test at {guard_at}, read at {read_at})",
                                   ok_detail="ptr::read(&visitor) after the TypeId / type-name test")
                    else:
                        chk.bad(f"unsafe:{short_fn(k)}", f"{k} contains an unsafe block in decode-reachable code that is not in the reviewed inventory",
                                where=f"{h['span']['file']}:{u.get('ln')}")
        chk.floor("unsafe blocks in decode-reachable code", n, 1)

    def r6():
        """Work before any quota applies is proportional to the header: `TypeEnv::is_empty` (run by replace_empty on every type table) visits a
        table row once because it memoises the outcome of every row, inhabited or not. A memo that forgets inhabited rows makes a chain of
        records that mention the next row twice cost 2^n visits (a 400-byte header that never finishes)."""
        h = c.fn(r"^candid::types::type_env::TypeEnv::is_empty$")
        chk.analysed(h["key"])
        memo = None
        for p_ in h["params"]:
            if p_.get("k") == "bind" and "BTreeMap" in str(p_.get("ty") or "") or (p_.get("k") == "bind" and "HashMap" in str(p_.get("ty") or "")):
                memo = p_["n"]
        if memo is None:
            raise AnchorMissing("TypeEnv::is_empty: the memo parameter (a map from type name to Option<bool>) was not found")
        drops = [x for x in walk(h["body"]) if x.get("k") == "mcall" and x["m"] in ("remove", "clear", "retain", "pop_first", "pop_last") and expr_path(x["recv"]) == memo]
        chk.expect(not drops, "header-work:is_empty:memo-never-forgets",
                   f"TypeEnv::is_empty removes entries from its memo (`{memo}.{drops[0]['m'] if drops else ''}`): a row whose outcome is forgotten is analysed again for "
                   f"every mention, so `table_i = record {{ table_(i+1); table_(i+1) }}` costs 2^n visits before any decoding quota is consulted",
                   where=f"{h['span']['file']}:{drops[0].get('ln') if drops else ''}", ok_detail="no remove/clear on the memo")
        # the miss arm ends by recording the computed outcome unconditionally
        miss = None
        for m in nodes(h["body"], "match"):
            if m.get("src") in (None, "Normal") and any(x.get("k") == "mcall" and x["m"] == "get" and expr_path(x["recv"]) == memo for x in walk(m["scrut"])):
                for a in m["arms"]:
                    if any((v or "").endswith("Option::None") for v in pat_variants_(a["pat"])) and not any((v or "").endswith("Option::Some") for v in pat_variants_(a["pat"])):
                        miss = a["body"]
        if miss is None:
            raise AnchorMissing("TypeEnv::is_empty: `match memo.get(id) { None => .. }` not found")
        blk = unblock(miss)
        tail = unblock(blk.get("e")) if blk.get("k") == "block" and blk.get("e") else None
        tail_name = tail["res"]["path"] if tail and tail.get("k") == "path" and (tail.get("res") or {}).get("kind") == "Local" else None
        recorded = False
        for st in (blk.get("stmts") or []) if blk.get("k") == "block" else []:
            e_ = st.get("e") if st.get("k") == "semi" else None
            e_ = unblock(e_) if e_ else None
            if e_ and e_.get("k") == "mcall" and e_["m"] == "insert" and expr_path(e_["recv"]) == memo and len(e_["args"]) == 2:
                v_ = unblock(e_["args"][1])
                if v_.get("k") == "call" and (callee(v_) or "").endswith("Option::Some") and tail_name and any(
                        y.get("k") == "path" and (y.get("res") or {}).get("path") == tail_name for y in walk(v_["args"][0])):
                    recorded = True
        chk.expect(recorded, "header-work:is_empty:every-outcome-memoised",
                   "TypeEnv::is_empty must record the outcome it computed for a row (`memo.insert(id, Some(result))`, unconditionally, before returning it): "
                   "recording only one of the two outcomes makes the analysis exponential in the length of the type table",
                   where=f"{h['span']['file']}:{h['span']['lo']}", ok_detail="memo.insert(id, Some(result)) at the end of the miss arm")

    def r10():
        """The depth guard is what turns deep nesting into an error instead of a stack overflow: every successful `RecursionDepth::guard()`
        has probed the remaining stack at the new depth. A probe that is skipped on some path (a cache of depths already probed, a counter
        shared between values) lets a later, costlier-per-level value descend unprobed."""
        b = c.body(r"^candid::utils::RecursionDepth::guard$")
        chk.analysed(b.key)
        probe_fns = {k for k, bb in c.bodies.items() if any((cal or "").endswith("stacker::remaining_stack") for _, _, cal in bb.call_sites())}
        probes = [bi for bi, t, cal in b.call_sites() if cal and (cal in probe_fns or cal.endswith("stacker::remaining_stack")) and not b.is_cleanup(bi)]
        if not probes:
            raise AnchorMissing("RecursionDepth::guard: no call that probes the remaining stack (stacker::remaining_stack, directly or through a helper)")
        oks = []
        for bi, bl in enumerate(b.blocks):
            if b.is_cleanup(bi):
                continue
            for st in bl["s"]:
                r_ = st.get("r") or {}
                if st.get("k") == "assign" and r_.get("k") == "agg" and str(r_.get("adt", "")).endswith("result::Result") and r_.get("variant") == "Ok":
                    oks.append(bi)
        if not oks:
            raise AnchorMissing("RecursionDepth::guard: no `Ok(..)` construction found")
        dom = b.dominators()
        reach_ = b.reachable()
        undominated = [bi for bi in oks if bi in reach_ and not any(p_ in dom.get(bi, ()) for p_ in probes)]
        chk.expect(not undominated, "depth-guard:probes-on-every-success",
                   "RecursionDepth::guard can return Ok without having probed the remaining stack on that call: the guard then admits a level of recursion "
                   "unchecked, and a deep value (for instance `vec^n` decoded after `opt^n` on the same decoder) overflows the stack instead of being rejected "
                   "with `Recursion limit exceeded`", where=f"{b.span['file']}:{b.span['lo']}", ok_detail="the stack probe dominates every Ok")

    def pat_variants_(p_):
        from facts import pat_variants
        return pat_variants(p_)

    for rid, desc, fn in (("C06.R10", "every successful depth guard has probed the stack", r10),
                          ("C06.R9", "header analysis visits each type-table row once (is_empty memoises every outcome)", r6),
                          ("C06.R1", "every recursion cycle on message data passes through a live depth guard", r1),
                          ("C06.R2", "arithmetic / bounds / index traps in decode-reachable code are discharged or reviewed", r2),
                          ("C06.R3", "allocations sized by message data follow a bounds check", r3),
                          ("C06.R4", "inventory of other panic sites in decode-reachable code", r4),
                          ("C06.R5", "inventory of unsafe operations in decode-reachable code", r5)):
        if only and only != rid:
            continue
        chk.run_rule(rid, desc, fn)
    if only is None:
        import c07
        # "with a quota q it terminates after work proportional to q": every step is charged, fast paths are bulk-charged, and a failed
        # attempt below opt keeps what it spent
        chk.include(c07, "C07.R1", "C06.R6", facts)
        chk.include(c07, "C07.R2", "C06.R7", facts)
        chk.include(c07, "C07.R3", "C06.R8", facts)


def short_fn(k):
    k = re.sub(r"<'\w+>|::<'\w+>", "", k)
    m = re.search(r"<(?:&mut )?(?:<.*>::)?([\w:]+?)(?:<[^>]*>)? as ([\w:]+?)(?:<[^>]*>)?>::(\w+(?:::\{closure#\d+\})?)$", k)
    if m:
        return f"{m.group(1).rsplit('::', 1)[-1]}/{m.group(2).rsplit('::', 1)[-1]}::{m.group(3)}"
    parts = k.split("::")
    return "::".join(parts[-2:]) if not parts[-1].startswith("{") else "::".join(parts[-3:])
