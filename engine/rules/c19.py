"""C19 — all binding generators are total, deterministic and closed on checked programs (structural clauses)."""
import re

from facts import AnchorMissing, callee, nodes, pat_alternatives, pat_head, term_callee, unblock, walk
from shared import Spec, the_match
from c17_util import (BIND, LABEL, TI, Ctx, Flat, NameFlow, Scope, doc_roots, enum_arm_cover, fshort, is_panic,
                      iteration_binders, keyword_table, oracle, reachable_bodies, render, root_local, scan_template,
                      var_binders)

TITLE = ("C19: per generator (JavaScript, TypeScript, Motoko, Rust) the panicking arms and unwraps are within an inventory "
         "justified by type checking; no hash-order iteration or time/random/env access is reachable from `compile`; program "
         "text between quotes or in comments passes through an escaper (also in the handlebars templates); type names are "
         "defined and referenced through the same identifier escaper, every method is visited by one loop; the keyword "
         "tables cover the target languages' reserved words.")

GENS = ("javascript", "typescript", "motoko", "rust")
AN = BIND + "analysis::"
ALL = None  # filled with the TypeInner variants

# ---- R1 tables (confirmed by reading; the reason is printed with every instance) -----------------------------------
NEVER_CHECKED = {"Knot", "Unknown", "Future"}     # built only by the Rust-side reflection / the binary decoder
IN_TYPE = NEVER_CHECKED | {"Class"}               # the grammar allows `class` only as the main actor
UNREACHABLE_ARMS = {
    # printer: (variants allowed to reach a panicking arm, reason)
    "javascript::pp_ty": (IN_TYPE, "Knot/Unknown/Future never come out of the type checker; Class only at actor position"),
    "typescript::pp_ty": (IN_TYPE, "as javascript::pp_ty"),
    "motoko::pp_ty": (NEVER_CHECKED, "Knot/Unknown/Future never come out of the type checker"),
    "rust::State::pp_ty": (IN_TYPE | {"Func", "Service"}, "as javascript::pp_ty; nominalize replaces every Func/Service below a definition by a Var (C18.R5)"),
    "javascript::pp_actor": ("not:Service,Var,Class", "check_actor yields a service, a name of one, or a class"),
    "typescript::pp_actor": ("not:Service,Var,Class", "check_actor yields a service, a name of one, or a class"),
    "motoko::pp_actor": ("not:Service,Var,Class", "check_actor yields a service, a name of one, or a class"),
    "motoko::pp_class": ("not:Service,Var", "the result of a class is a service or a name of one (check_actor)"),
    "typescript::pp_service": ("not:Func,Var", "a method type is a function or a name of one (check_meths)"),
    "rust::State::pp_ty_service": ("not:Func,Var", "a method type is a function or a name of one (check_meths)"),
    "utils::get_metadata": ("not:Service,Class", "trace_type has already followed every Var of the actor"),
}
OTHER_PANICS = {
    # (function, macro): (class, reason)
    ("motoko::escape", "panic"): ("documented-precondition", "Motoko cannot name a method that is not an identifier; the property excludes such programs"),
    ("motoko::pp_function", "unreachable"): ("checked", "check_type rejects more than one annotation; all single annotations and the empty list have arms"),
    ("rust::compile", "unimplemented"): ("config-only", "unknown `target` string in the external configuration, independent of the program"),
}
UNWRAPS = [
    # (producer regex, class, reason)
    (r"^candid::types::type_env::TypeEnv::(find_type|rec_find_type|trace_type|as_service|as_func)$", "closed",
     "every name reachable from a checked program is bound in its environment (C14.R1)"),
    (r"^candid_parser::bindings::analysis::(chase_actor|chase_types|infer_rec)$", "closed",
     "these fail only through find_type on an unbound name"),
    (r"^BTreeMap::get\(TypeEnv\.0\)$", "closed", "def_list holds names of the environment"),
    (r"^candid_parser::bindings::rust::as_result$", "nominalized", "pp_ty meets a Variant only if it is a result variant: nominalize names every other one (C18.R5)"),
    (r"^BTreeMap::get\((State\.config_source|ExternalConfig\.0)\)$", "config-only", "looks up a key of the user configuration, independent of the program"),
    (r"^std::fs::read_to_string$", "config-only", "custom template file named by the configuration"),
    (r"^handlebars::", "template-only", "arity/type of helper parameters and rendering are fixed by the built-in templates, not by the program"),
    (r"^serde_json::", "template-only", "helper parameters are the strings/arrays of Output/Method"),
    (r"^ic_principal::Principal::from_text$", "config-only", "`canister_id` of the external configuration"),
]

# ---- R2 -------------------------------------------------------------------------------------------------------------
HASH_ITER = re.compile(r"std::collections::hash::(map::HashMap|set::HashSet)(::)?<.*>::"
                       r"(iter|iter_mut|keys|values|values_mut|into_keys|into_values|drain|retain|extract_if|difference|"
                       r"symmetric_difference|union|intersection)$")
NONDET = re.compile(r"^(std::time::|std::env::|std::process::id|std::thread::current|rand(_core)?::|getrandom::|fastrand::|"
                    r"std::hash::random::RandomState::new|std::collections::hash::map::RandomState::new|std::fs::|std::net::|"
                    r"std::io::stdio::stdin)|SystemTime::now|Instant::now|"
                    # process-wide mutable state: a counter or cell that outlives one compile makes the second run differ from the first
                    r"sync::atomic::Atomic\w*(::<\w+>)?::(fetch_\w+|store|swap|compare_exchange\w*)$|thread::local::LocalKey<.*>::(with|set|replace|take)\w*$|"
                    r"sync::(once_lock::OnceLock|lazy_lock::LazyLock|mutex::Mutex|rwlock::RwLock)<.*>::(get_or_init|set|lock|write|force)$")
NONDET_OK = {("rust::compile", "std::fs::read_to_string"): "reads the custom template named by the external configuration "
                                                           "(target = \"custom\"); the three built-in targets do not reach it"}

# ---- R3 -------------------------------------------------------------------------------------------------------------
CONFIG_GATED = {"rust::State::generate_test": "config.use_type"}


def quote_chars(key):
    if "::javascript::" in key or "::typescript::" in key or key.startswith("candid::pretty::"):
        return "'\"`"
    return '"'


METHODS_TY = re.compile(r"\(alloc::string::String, candid::types::internal::Type\)")


def is_method_binder(sc, b):
    """first component of an element of a method list `[(String, Type)]` (closure parameter or for-loop variable)"""
    if not (b.kind in ("closure", "arm") and b.under and b.under[-1] == "(tuple)" and b.ty == "&alloc::string::String"):
        return False
    src = sc.closure_source(b) if b.kind == "closure" else sc.for_source(b)
    while isinstance(src, dict) and src.get("k") == "mcall" and src["m"] not in ("iter", "into_iter"):
        src = src.get("recv")
    return isinstance(src, dict) and src.get("k") == "mcall" and bool(re.search(r"^&?(\[|alloc::vec::Vec<)" + METHODS_TY.pattern, src.get("recv_ty") or ""))


def recv_desc(e):
    e = unblock(e)
    while isinstance(e, dict) and e.get("k") in ("ref",):
        e = unblock(e["e"])
    if isinstance(e, dict) and e.get("k") == "field":
        bty = re.sub(r"<.*$", "", (e.get("bty") or "?").lstrip("&").replace("mut ", ""))
        return bty.rsplit("::", 1)[-1] + "." + str(e["n"])
    if isinstance(e, dict) and e.get("k") == "path":
        ty = re.sub(r"<.*$", "", (e.get("ty") or "?").lstrip("&").replace("mut ", ""))
        return ty.rsplit("::", 1)[-1]
    return "?"


def lit_of(e):
    from facts import lit_value, unblock as _ub
    return lit_value(_ub(e)) if isinstance(e, dict) else None


def run(chk, facts, tier, only=None):
    c = facts.crate("candid_parser")
    cc = facts.crate("candid")
    spec = Spec()
    words = oracle("reserved_words.json")
    variants = cc.enum_variants(r"types::internal::TypeInner$")
    scopes = {}
    cache = {}
    chk.assume("panics of the configuration machinery (configs.rs), of handlebars and of the pretty crate are outside the inventory; "
               "arithmetic overflow is not inventoried")
    chk.assume("identifiers the generators emit as references to ambient definitions of the target language (Motoko `Nat`/`Blob`, Rust "
               "`String`/`Principal`/`Result`, TypeScript `Principal`/`ActorMethod`/`IDL`) can be captured by a Candid type of the same name: "
               "not checked here, except for the predefined type names TypeScript itself reserves (R5) and the JavaScript factory parameter (C17.R4)")
    chk.assume("the reserved-word lists are transcribed oracles (engine/oracles/reserved_words.json)")
    chk.assume("rust::State::generate_test (reachable only when a `use_type` configuration entry matches) is exempt from the quoting rule")

    def scope(key):
        if key not in scopes:
            scopes[key] = Scope(c.hir[key] if key in c.hir else cc.hir[key])
        return scopes[key]

    def reach():
        if "reach" not in cache:
            entries = [BIND + g + "::compile" for g in GENS]
            rb = reachable_bodies([c, cc], entries)
            hk = {re.sub(r"(::\{closure#\d+\})+$", "", k) for k in rb}
            inb = sorted(k for k in hk if k in c.hir and c.hir[k]["kind"] in ("Fn", "AssocFn")
                         and ("/bindings/" in c.hir[k]["span"]["file"] or k == "candid_parser::utils::get_metadata"))
            cache["reach"] = (rb, hk, inb)
        return cache["reach"]

    def allowed_set(spec_):
        if isinstance(spec_, str) and spec_.startswith("not:"):
            return set(variants) - set(spec_[4:].split(","))
        return set(spec_)

    # ------------------------------------------------------------------------------------------------ R1
    def r1():
        rb, hk, inb = reach()
        chk.floor("binding-generator functions reachable from the four compile entry points", len(inb), 90)
        n_arms = 0
        seen_tab = set()
        n_unw = 0
        for k in inb:
            h = c.hir[k]
            fs = fshort(k)
            chk.analysed(k)
            sc = scope(k)
            in_ti_panic = set()
            # (i) panicking arms of matches on TypeInner
            for m in nodes(h["body"], "match"):
                if not re.search(r"^&?candid::types::internal::TypeInner$", m.get("sty") or ""):
                    continue
                rows, _left = enum_arm_cover(m, variants, TI)
                for r in rows:
                    mac = is_panic(r["arm"]["body"])
                    if not mac:
                        continue
                    for x in walk(r["arm"]["body"]):
                        in_ti_panic.add(id(x))
                    n_arms += 1
                    cov = r["covers"]
                    if fs not in UNREACHABLE_ARMS:
                        chk.bad(f"unreachable-arm:{fs}", f"{k}: a match on TypeInner sends {sorted(cov)} to {mac}!(), and this function is not in the "
                                                         f"totality table of the rule (new panicking printer: justify it or return an error)",
                                where=f"{h['span']['file']}:{r['arm'].get('ln')}")
                        continue
                    seen_tab.add(fs)
                    ok_set = allowed_set(UNREACHABLE_ARMS[fs][0])
                    extra = sorted(cov - ok_set)
                    chk.expect(not extra, f"unreachable-arm:{fs}:{'+'.join(sorted(cov)) if len(cov) <= 4 else 'rest'}",
                               f"{k}: TypeInner::{extra} reach{'es' if len(extra) == 1 else ''} {mac}!(), but a type-checked program can contain "
                               f"{'it' if len(extra) == 1 else 'them'} at this position (allowed here: {sorted(ok_set & cov)} — {UNREACHABLE_ARMS[fs][1]})",
                               where=f"{h['span']['file']}:{r['arm'].get('ln')}",
                               ok_detail=f"{sorted(cov)} -> {mac}!(): {UNREACHABLE_ARMS[fs][1]}")
            # (ii) every other panic-family macro
            for x in walk(h["body"]):
                if x.get("k") == "call" and re.search(r"^core::panicking::", callee(x) or "") and id(x) not in in_ti_panic:
                    mac = next((m_ for m_ in (x.get("mac") or []) if m_ in ("unreachable", "panic", "unimplemented", "todo", "assert",
                                                                            "assert_eq", "assert_ne", "debug_assert")), "panic")
                    ent = OTHER_PANICS.get((fs, mac))
                    chk.expect(ent is not None, f"panic:{fs}:{mac}",
                               f"{k}: {mac}!() outside the inventory of justified panics of the binding generators",
                               where=f"{h['span']['file']}:{x.get('ln')}", ok_detail=f"{ent[0]}: {ent[1]}" if ent else None)
            # (iii) unwrap / expect
            unw_seen = set()
            for x in walk(h["body"]):
                if x.get("k") == "mcall" and x["m"] in ("unwrap", "expect") and re.search(r"(Option|Result)::<.*>::(unwrap|expect)$", x["callee"]):
                    n_unw += 1
                    src = unblock(x["recv"])
                    b = root_local(sc, src) if src.get("k") == "path" else None
                    if b is not None and b.init is not None:
                        src = unblock(b.init)
                    while isinstance(src, dict) and src.get("k") == "mcall" and src["m"] in ("ok", "as_ref", "cloned", "map_err", "value", "as_str", "as_array") \
                            and not re.search(r"^(serde_json|handlebars)::", src["callee"]):
                        src = unblock(src["recv"])
                    prod = "?"
                    if isinstance(src, dict) and src.get("k") == "call":
                        prod = callee(src) or "?"
                    elif isinstance(src, dict) and src.get("k") == "mcall":
                        prod = src["callee"]
                        if re.search(r"BTreeMap::<.*>::get$", prod):
                            prod = f"BTreeMap::get({recv_desc(src['recv'])})"
                        prod = re.sub(r"::<[^>]*>", "", prod)
                    ent = next((e for e in UNWRAPS if re.search(e[0], prod)), None)
                    if (prod, x["m"]) in unw_seen:
                        continue
                    unw_seen.add((prod, x["m"]))
                    chk.expect(ent is not None, f"unwrap:{fs}:{prod}",
                               f"{k}: `.{x['m']}()` on the result of {prod} is not in the inventory of unwraps justified by type checking "
                               f"(closedness of the environment, nominalisation, configuration-only, template-only)",
                               where=f"{h['span']['file']}:{x.get('ln')}", ok_detail=f"{ent[1]}: {ent[2]}" if ent else None)
            # (iv) indexing by a literal: guarded by a match on the length
            for x in nodes(h["body"], "index"):
                idx = unblock(x["b"])
                if idx.get("k") == "struct" and "RangeFull" in (idx.get("res") or {}).get("path", ""):
                    continue
                i = idx["v"].get("int") if idx.get("k") == "lit" else None
                guarded = False
                base = render(x["a"])
                if i is not None:
                    for a in sc.ancestors(x):
                        if a.get("k") == "match" and unblock(a["scrut"]).get("k") == "mcall" and unblock(a["scrut"])["m"] == "len" \
                                and render(unblock(a["scrut"])["recv"]) == base:
                            for arm in a["arms"]:
                                if any(y is x for y in walk(arm["body"])):
                                    hd = pat_head(arm["pat"])
                                    guarded = isinstance(hd, tuple) and hd[0] == "lit" and isinstance(hd[1], int) and hd[1] > i
                chk.expect(guarded, f"index:{fs}:{base}[{i if i is not None else '?'}]",
                           f"{k}: `{base}[{render(idx)}]` is not inside a `match {base}.len()` arm whose length exceeds the index",
                           where=f"{h['span']['file']}:{x.get('ln')}", ok_detail=f"inside `match {base}.len()` arm of sufficient length")
        for fs in sorted(set(UNREACHABLE_ARMS) - seen_tab):
            chk.bad(f"unreachable-arm:{fs}", f"anchor moved: the totality table names {fs}, but no reachable function of that name has a panicking "
                                             f"arm on TypeInner any more (update the table)")
        chk.floor("panicking TypeInner arms inventoried", n_arms, 14)
        chk.floor("unwrap/expect sites inventoried", n_unw, 30)
        # the justification of motoko::pp_function's unreachable!: check_type rejects two annotations; every single one has an arm
        h = c.fn(r"^candid_parser::typing::check_type$")
        rej = False
        for n in nodes(h["body"], "if"):
            cnd = unblock(n["c"])
            if cnd.get("k") == "bin" and cnd.get("op") == "Gt" and unblock(cnd["a"]).get("k") == "mcall" and unblock(cnd["a"])["m"] == "len" \
                    and "modes" in render(cnd["a"]) and unblock(cnd["b"]).get("k") == "lit" and unblock(cnd["b"])["v"].get("int") == 1:
                rej = any((callee(y) or "").endswith("Result::Err") for r_ in nodes(n["t"], "ret") for y in walk(r_))
        chk.expect(rej, "justification:one-annotation", "typing::check_type no longer rejects function types with more than one annotation: "
                                                        "motoko::pp_function's `_ => unreachable!()` becomes reachable",
                   ok_detail="`if func.modes.len() > 1 { return Err(..) }` in check_type")
        h = c.fn("^" + re.escape(BIND) + "motoko::pp_function$")
        ms = [m for m in nodes(h["body"], "match") if "FuncMode" in (m.get("sty") or "")]
        if len(ms) != 1:
            raise AnchorMissing("motoko::pp_function: match on the annotation list not found")
        shapes = set()
        for a in ms[0]["arms"]:
            for alt in pat_alternatives(a["pat"]):
                if alt.get("k") == "slice" and not alt.get("mid") and not alt.get("post"):
                    shapes.add(tuple((p.get("res") or {}).get("path", "?").rsplit("::", 1)[-1] for p in alt.get("pre") or []))
        want = {()} | {(Spec.variant_name(s),) for s in spec.funcann}
        chk.expect(want <= shapes, "justification:annotation-arms", f"motoko::pp_function has no arm for the annotation list(s) {sorted(want - shapes)}",
                   ok_detail=f"arms for {sorted(want)}")

    # ------------------------------------------------------------------------------------------------ R2
    def r2():
        rb, hk, inb = reach()
        chk.floor("MIR bodies reachable from the four compile entry points", len(rb), 250)
        bad = 0
        for k, b in sorted(rb.items()):
            chk.analysed(k)
            fs = fshort(re.sub(r"(::\{closure#\d+\})+$", "", k))
            for bb, t, cal in b.call_sites():
                d, r = term_callee(t)
                ty = ((t["f"].get("k") or {}).get("ty") or "") if isinstance(t.get("f"), dict) else ""
                names = [x for x in (d, r) if x]
                hit = next((x for x in names if HASH_ITER.search(x)), None)
                if not hit and any("IntoIterator" in x and x.endswith("into_iter") for x in names) and re.search(r"hash::(map::HashMap|set::HashSet)<", ty.split("->")[0]):
                    hit = names[0] + " on " + ty.split("->")[0][:80]
                if hit:
                    bad += 1
                    chk.bad(f"hash-iteration:{fs}", f"{k} iterates a HashMap/HashSet ({hit}) and is reachable from a generator's `compile`: "
                                                    f"the order of what it emits depends on the hasher's random seed",
                            where=f"{b.span['file']}:{t.get('ln')}")
                nd = next((x for x in names if NONDET.search(x)), None)
                if nd:
                    why = NONDET_OK.get((fs, nd))
                    if why:
                        chk.ok(f"environment:{fs}:{nd}", why)
                    else:
                        bad += 1
                        chk.bad(f"environment:{fs}:{nd}", f"{k} calls {nd} and is reachable from a generator's `compile`: the output is no longer a "
                                                           f"function of the program and the configuration", where=f"{b.span['file']}:{t.get('ln')}")
        if not bad:
            chk.ok("no-unordered-iteration", f"{len(rb)} reachable bodies: no HashMap/HashSet iteration, no clock/random/environment access")
        # the containers the generators iterate are ordered
        te = cc.item("struct", r"types::type_env::TypeEnv$")
        t0 = te["variants"][0]["fields"][0]["ty"]
        chk.expect("BTreeMap" in t0, "ordered:TypeEnv", f"TypeEnv.0, which every generator iterates for its definitions, is `{t0}`, not an ordered map")
        st = c.item("struct", r"bindings::rust::State$")
        for fld in st["variants"][0]["fields"]:
            if fld["name"] in ("tests", "recs", "generated_types"):
                chk.expect("BTree" in fld["ty"], f"ordered:State.{fld['name']}", f"rust::State.{fld['name']} is `{fld['ty']}`, not an ordered container")

    # ------------------------------------------------------------------------------------------------ R3
    def escaper_ok(sc, e):
        """is this non-literal piece safe between quotes? -> reason or None"""
        e0 = e
        while isinstance(e, dict) and (e.get("k") in ("ref", "block") or (e.get("k") == "mcall" and e["m"] in ("to_string", "clone", "as_str"))):
            e = e["e"] if e.get("k") in ("ref", "block") else e["recv"]
            if e is None:
                return None
        if isinstance(e, dict) and e.get("k") == "mcall" and re.search(r"^core::str::<impl str>::escape_(debug|default|unicode)$", e["callee"]):
            return "escape_debug"
        if isinstance(e, dict) and e.get("k") == "call" and callee(e) == "candid::pretty::candid::pp_mode":
            return "constant-valued (pp_mode: checked in C17.R1)"
        if isinstance(e, dict) and e.get("k") == "call" and re.search(r"RcDoc::<.*>::as_string$", callee(e) or ""):
            b = root_local(sc, e["args"][0])
            if b is not None and re.fullmatch(r"&?(u|i)(8|16|32|64|128|size)", b.ty or ""):
                return "number"
        return None

    def kind_of(sc, e):
        """what kind of program text an expression is (for keys and messages)"""
        b = root_local(sc, e) if isinstance(e, dict) else None
        if b is None:
            return None
        if b.under and b.under[-1] == TI + "Var":
            return "type-name"
        if b.under and b.under[-1] == LABEL + "Named":
            return "label"
        if is_method_binder(sc, b):
            return "method-name"
        if b.kind == "closure" and b.ty == "&alloc::string::String":
            src = sc.closure_source(b)
            if isinstance(src, dict) and src.get("k") == "mcall" and src["m"] == "iter" and \
                    re.fullmatch(r"&(\[alloc::string::String\]|alloc::vec::Vec<alloc::string::String>)", src.get("recv_ty") or ""):
                return "doc-line"
        return None

    def r3():
        rb, hk, inb = reach()
        fns = [k for k in inb] + ["candid::pretty::utils::quote_ident"]
        n_ctx = 0
        flagged = set()
        for k in fns:
            h = c.hir.get(k) or cc.hir.get(k)
            if h is None:
                raise AnchorMissing(f"{k} not found")
            sc = scope(k)
            fs = fshort(k)
            fl = Flat([c, cc], sc)
            seen_keys = set()
            for root in doc_roots(sc):
                pieces = fl.flat(root)
                found, open_q = Ctx(quote_chars(k)).scan(pieces)
                gated = CONFIG_GATED.get(fs)
                for ctx, q, e in found:
                    n_ctx += 1
                    kind = kind_of(sc, e) or render(e)
                    key = f"{ctx}:{fs}:{kind}"
                    if key in seen_keys:
                        continue
                    seen_keys.add(key)
                    where = f"{h['span']['file']}:{e.get('ln') if isinstance(e, dict) else None}"
                    if gated:
                        chk.ok(key, f"config-gated ({gated}): not reachable with an empty configuration")
                        continue
                    if ctx == "quote":
                        why = escaper_ok(sc, e)
                        if not why and isinstance(e, dict):
                            for x in walk(e):
                                flagged.add(id(x))
                        chk.expect(bool(why), key,
                                   f"{k}: {kind} `{render(e)}` is appended between literal {q} … {q} without an escaper (escape_debug): a name "
                                   f"containing {q} ends the string early and the rest of the name is read as code", where=where,
                                   ok_detail=f"between {q}…{q}: {why}")
                    elif ctx == "line-comment":
                        chk.expect(kind == "doc-line", key,
                                   f"{k}: `{render(e)}` is emitted inside a line comment but is not an element of a `docs` list (doc lines are single "
                                   f"lines by construction; other program text may contain a line break)", where=where,
                                   ok_detail="doc line (a LineComment token, see doc-lines:*)")
                    else:
                        okb = isinstance(e, dict) and e.get("k") == "call" and block_escaper(callee(e))
                        chk.expect(bool(okb), key,
                                   f"{k}: `{render(e)}` is emitted inside a /* … */ comment without passing a function that removes `*/` "
                                   f"(a doc line containing `*/` ends the comment early)", where=where,
                                   ok_detail="through a function that rewrites `*/`")
                if open_q:
                    chk.bad(f"unbalanced:{fs}", f"anchor moved: a document built in {k} ends inside an open {open_q} quote; the rule cannot see where it is closed")
        chk.floor("non-literal pieces found inside quotes or comments", n_ctx, 8)
        for g, reason in CONFIG_GATED.items():
            gate_check(g, reason)
        # single-line doc comments: the lexer's regex and the only producer of doc lines
        tok = c.attr_item(r"token::Token$")
        lc = [v for v in tok["variants"] if v["name"] == "LineComment"]
        rx = [re.search(r'regex\(r?#*"(.*)"#*\)', a) for v in lc for a in v["attrs"]]
        rx = [m.group(1) for m in rx if m]
        chk.expect(rx in (["//[^\\n]*"], ["//[^\n]*"]), "doc-lines:LineComment-regex",
                   f"Token::LineComment is lexed by {rx}; the rule was written for `//[^\\n]*` (a comment token cannot contain a line feed)",
                   ok_detail="//[^\\n]*")
        h = c.fn(r"^<candid_parser::token::Tokenizer<'_> as core::iter::traits::iterator::Iterator>::next$")
        chk.analysed(h["key"])
        pushes = [x for x in walk(h["body"]) if x.get("k") == "mcall" and x["m"] == "push" and render(x["recv"]).endswith("comment_buffer")]
        okp = bool(pushes)
        m = the_match(h, r"Result<candid_parser::token::Token", 3)
        lc_arms = [a for a in m["arms"] if any((p.get("res") or {}).get("path", "").endswith("Token::LineComment") for p in walk(a["pat"]))]
        for p in pushes:
            arg = unblock(p["args"][0])
            okp = okp and arg.get("k") == "call" and callee(arg) == "candid_parser::token::parse_doc_comment" \
                and len(lc_arms) == 1 and any(y is p for y in walk(lc_arms[0]["body"]))
        chk.expect(okp, "doc-lines:only-from-LineComment",
                   "Tokenizer::next must fill comment_buffer only in the LineComment arm, with parse_doc_comment of that token's slice",
                   ok_detail="comment_buffer.push(parse_doc_comment(lex)) only under Ok(Token::LineComment)")
        chk.assume("the `docs` fields of syntax::{Binding, TypeField, IDLActorType} are filled only from the tokenizer's trivia map")
        # handlebars
        templates(flagged)
        names_escaped(flagged)

    def block_escaper(path):
        h = c.hir.get(path)
        if not h:
            return False
        b = unblock(h["body"])
        if b.get("k") == "mcall" and b["m"] == "replace" and re.search(r"str>::replace$", b["callee"]):
            a0, a1 = unblock(b["args"][0]), unblock(b["args"][1])
            sc = scope(path)
            return a0.get("k") == "lit" and a0["v"].get("str") == "*/" and a1.get("k") == "lit" and "*/" not in a1["v"].get("str", "*/") \
                and root_local(sc, b["recv"]) in sc.params[0]
        return False

    def gate_check(fs, reason):
        key = next((k for k in c.hir if fshort(k) == fs), None)
        if key is None:
            raise AnchorMissing(f"config-gated function {fs} not found")
        n = 0
        ok = True
        for k, h in c.hir.items():
            if not k.startswith(BIND):
                continue
            for x in walk(h["body"]):
                if (x.get("k") == "mcall" and x["callee"] == key) or (x.get("k") == "call" and callee(x) == key):
                    n += 1
                    sc = scope(k)
                    g = False
                    for a in sc.ancestors(x):
                        if a.get("k") == "if":
                            for y in walk(a["c"]):
                                if y.get("k") == "let" and render(y["init"]).endswith(reason) and any(z is x for z in walk(a["t"])):
                                    g = True
                    ok = ok and g
        chk.expect(ok and n >= 1, f"config-gate:{fs}", f"{fs} is exempted as reachable only under `if let Some(_) = {reason}`, but a call site is "
                                                       f"not inside such a test ({n} call site(s))", ok_detail=f"{n} call site(s), all under `if let Some(..) = …{reason}`")

    def templates(flagged):
        h = c.fn("^" + re.escape(BIND) + "rust::compile$")
        sc = scope(h["key"])
        found = {}
        for m in nodes(h["body"], "match"):
            for a in m["arms"]:
                names = [x["v"]["str"] for x in walk(a["pat"]) if x.get("k") == "lit" and "str" in (x.get("v") or {})]
                for x in nodes(a["body"], "lit"):
                    s = x["v"].get("str")
                    if isinstance(s, str) and "include_str" in (x.get("mac") or []) and names:
                        found[names[0]] = s
        chk.floor("built-in handlebars templates (include_str!) of rust::compile", len(found), 3)
        # helpers: escape_debug must escape; no_escape means `{{x}}` is emitted raw
        g = c.fn("^" + re.escape(BIND) + "rust::get_hbs$")
        chk.analysed(g["key"])
        helpers = {}
        for x in walk(g["body"]):
            if x.get("k") == "mcall" and x["m"] == "register_helper":
                nm = unblock(x["args"][0])
                if nm.get("k") == "lit":
                    helpers[nm["v"].get("str")] = x["args"][1]
        esc = helpers.get("escape_debug")
        okh = esc is not None and any(y.get("k") == "mcall" and re.search(r"<impl str>::escape_debug$", y["callee"]) for y in walk(esc)) \
            and len([y for y in walk(esc) if y.get("k") == "mcall" and y["m"] == "write"]) == 1
        chk.expect(okh, "template-helper:escape_debug", "rust::get_hbs: the `escape_debug` helper must write `s.escape_debug()` and nothing else",
                   ok_detail="writes s.escape_debug()")
        # a raw string whose delimiter is computed from its own content: r{{raw_hashes x}}"{{x}}"{{raw_hashes x}}
        rh = helpers.get("raw_hashes")
        ok_rh = False
        if rh is not None:
            loops = [y for y in walk(rh) if y.get("k") == "loop"]
            conts = [y for y in walk(rh) if y.get("k") == "mcall" and y["m"] == "contains"]
            pushes = [y for y in walk(rh) if y.get("k") == "mcall" and y["m"] == "push" and lit_of(y["args"][0]) == "#"]
            seeds = sorted(str(lit_of(y)) for y in walk(rh) if y.get("k") == "lit" and lit_of(y) in ("#", '"#'))
            writes = [y for y in walk(rh) if y.get("k") == "mcall" and y["m"] == "write"]
            # terminator starts as `"#`, the delimiter as `#`; both grow by one `#` while the content contains the terminator
            ok_rh = len(loops) == 1 and len(conts) == 1 and len(pushes) == 2 and '"#' in seeds and "#" in seeds and len(writes) == 1
        dyn_ok = set()
        for tname, text in found.items():
            for mm in re.finditer(r'r\{\{\s*raw_hashes (\w+)\s*\}\}"(\{\{\s*(\w+)\s*\}\})"\{\{\s*raw_hashes (\w+)\s*\}\}', text):
                if mm.group(1) == mm.group(3) == mm.group(4):
                    dyn_ok.add((tname, mm.start(2)))
        if dyn_ok:
            chk.expect(ok_rh, "template-helper:raw_hashes",
                       "rust::get_hbs: the `raw_hashes` helper must emit one more `#` than the longest `\"#…` run in its argument "
                       "(grow delimiter and terminator together while the content contains the terminator)",
                       ok_detail="delimiter grows until the content cannot close the raw string")
        n = 0
        for tname, text in sorted(found.items()):
            for mu in scan_template(text):
                expr = mu["expr"]
                head = expr.split()[0]
                if mu["ctx"] == "quote" and (tname, mu.get("pos")) in dyn_ok:
                    n += 1
                    chk.expect(ok_rh, f"template:{tname}:{expr}",
                               f"template {tname}: `{{{{{expr}}}}}` sits in a raw string whose delimiter comes from raw_hashes, but that helper "
                               f"could not be certified", ok_detail="raw string with a delimiter the content cannot close")
                elif mu["ctx"] == "quote":
                    n += 1
                    chk.expect(head == "escape_debug" and okh, f"template:{tname}:{expr}",
                               f"rust_{'call' if tname == 'canister_call' else tname}.hbs: `{{{{{expr}}}}}` stands between double quotes (or inside a raw "
                               f"string) without the escape_debug helper: program text containing `\"` (or `\"#`) ends the literal early",
                               ok_detail="{{escape_debug …}} between quotes")
                elif "original_name" in expr:
                    n += 1
                    chk.expect(head in ("cdk_attribute",) and head in helpers, f"template:{tname}:{expr}",
                               f"template {tname}: the method's original (unescaped) name is emitted by `{{{{{expr}}}}}` outside quotes",
                               ok_detail="through the cdk_attribute helper (its name = \"…\" part is checked as a format site)")
                elif expr == "this" and any(re.search(r"docs$", b) for b in mu["block"]):
                    n += 1
                    chk.expect(any(p.endswith("doc_comment_prefix") for p in mu["line_prefix"]) or mu["ctx"] == "line-comment",
                               f"template:{tname}:doc-line:{[b for b in mu['block'] if b.endswith('docs')][-1].split()[-1]}", f"template {tname}: a doc line `{{{{this}}}}` is emitted without the comment prefix before it on the same line",
                               ok_detail="{{doc_comment_prefix}}{{this}}")
        chk.floor("template expressions checked (quoted, original names, doc lines)", n, 7)
        pre = c.hir.get(BIND + "rust::DOC_COMMENT_PREFIX")
        v = pre and unblock(pre["body"])
        chk.expect(bool(v) and v.get("k") == "lit" and str(v["v"].get("str", "")).startswith("//"), "template:doc_comment_prefix",
                   "rust::DOC_COMMENT_PREFIX (the default of `doc_comment_prefix`) must start a line comment")

    def names_escaped(flagged):
        """labels and method names reach the output only through an approved escaper (or escaped between quotes)"""
        esc = {"candid::pretty::utils::quote_ident", BIND + "motoko::escape", BIND + "rust::identifier::to_identifier_case",
               "core::str::<impl str>::escape_debug", "candid::pretty::candid::ident_string"}
        nf = NameFlow(c, esc, scopes)
        nf.NEUTRAL = list(NameFlow.NEUTRAL) + [r"^core::iter::traits::iterator::Iterator::find$"]
        n = 0
        rb, hk, inb = reach()
        for k in inb:
            h = c.hir[k]
            if not re.search(r"::(pp_\w+|escape)$", re.sub(r"::<[^>]*>", "", k)):
                continue
            sc = scope(k)
            for b in sc.binders:
                kd = None
                if b.under and b.under[-1] == LABEL + "Named":
                    kd = "label"
                elif is_method_binder(sc, b):
                    kd = "method-name"
                if not kd:
                    continue
                n += 1
                res = nf.flow(sc, b)
                bad = {}
                reported = False
                for cls, fk, what, node, role in res:
                    if cls == "raw" and any(id(y) in flagged for y in walk(node)):
                        reported = True     # this use is the one reported by the quote scan above
                    elif cls == "raw":
                        bad.setdefault(("raw", fk, what), node)
                    elif cls == "unknown":
                        if node.get("k") == "struct" and (node.get("res") or {}).get("path", "").endswith("rust::Method"):
                            continue   # goes to the template as `original_name`: checked by template:*
                        if what.startswith("core::") and "closure" in what:
                            continue
                        bad.setdefault(("unknown", fk, what), node)
                for (cls, fk, what), node in sorted(bad.items(), key=lambda kv: kv[0][1:]):
                    where = f"{c.hir[fk]['span']['file']}:{node.get('ln')}"
                    if cls == "raw":
                        chk.bad(f"{kd}:{fshort(fk)}:{what}", f"{fk}: a {kd} of the program reaches the output through {what} without an escaper "
                                                             f"(quote_ident / escape / to_identifier_case / escape_debug)", where=where)
                    else:
                        chk.bad(f"{kd}:{fshort(fk)}:{what}", f"anchor moved (not necessarily a violation): {fk} passes a {kd} to {what}, which the "
                                                             f"rule cannot classify", where=where)
                if not bad and not reported:
                    chk.ok(f"{kd}:{fshort(k)}", f"{len([r for r in res if r[0] == 'escaped'])} escaped emission(s)")
        chk.floor("label / method-name bindings in the printers", n, 9)

    # ------------------------------------------------------------------------------------------------ R4
    def r4():
        escapers = {"javascript": BIND + "javascript::ident", "typescript": BIND + "javascript::ident",
                    "motoko": BIND + "motoko::escape", "rust": BIND + "rust::identifier::to_identifier_case"}
        floors = {"javascript": 4, "typescript": 6, "motoko": 2, "rust": 2}
        rb, hk, inb = reach()
        for g in GENS:
            nf = NameFlow(c, {escapers[g]}, scopes)
            n_src = 0
            bad = {}
            cases = set()
            defs_fn = [k for k in inb if re.sub(r"::<[^>]*>", "", k).startswith(BIND + g + "::") and k.endswith("::pp_defs")]
            if len(defs_fn) != 1:
                raise AnchorMissing(f"{g}: expected one pp_defs, found {defs_fn}")
            for k in inb:
                if not re.sub(r"::<[^>]*>", "", k).startswith(BIND + g + "::"):
                    continue
                sc = scope(k)
                srcs = list(var_binders(sc))
                if k == defs_fn[0]:
                    srcs += iteration_binders(sc)
                for b in srcs:
                    n_src += 1
                    res = nf.flow(sc, b)
                    for cls, fk, what, node, role in res:
                        if cls in ("raw", "unknown"):
                            bad.setdefault((cls, fk, what), []).append(node)
                        if cls == "escaped" and g == "rust":
                            a = unblock(node["args"][1]) if len(node.get("args", [])) > 1 else {}
                            cases.add(((a.get("res") or {}).get("path") or "?").rsplit("::", 1)[-1])
                    if not [r for r in res if r[0] in ("raw", "unknown")]:
                        side = "definition" if b.kind in ("closure",) or sc.for_source(b) is not None else "reference"
                        chk.ok(f"type-name:{fshort(k)}:{side}", f"{len([r for r in res if r[0] == 'escaped'])} emission(s) through {fshort(escapers[g])}")
            for (cls, fk, what), ns in sorted(bad.items(), key=lambda kv: kv[0][1:]):
                where = f"{c.hir[fk]['span']['file']}:{ns[0].get('ln')}"
                if cls == "raw":
                    chk.bad(f"type-name:{fshort(fk)}:{what}",
                            f"{fk}: a type name reaches the output through {what} ({len(ns)} use(s)) and not through {fshort(escapers[g])}, the escaper "
                            f"applied where the {g} generator defines its names: for a name the escaper rewrites (a keyword of the target language) "
                            f"the reference does not match the definition", where=where)
                else:
                    chk.bad(f"type-name:{fshort(fk)}:{what}", f"anchor moved (not necessarily a violation): {fk} passes a type name to {what}, "
                                                              f"which the rule cannot classify", where=where)
            chk.floor(f"{g}: bindings of type names (TypeInner::Var patterns, iteration variables of pp_defs)", n_src, floors[g])
            if g == "rust":
                chk.expect(cases == {"UpperCamel"}, "type-name:rust:same-case", f"rust: type names are converted with different cases at definition and "
                                                                                f"reference sites: {sorted(cases)}", ok_detail="UpperCamel at every site")
        # the definition list each generator prints
        for g, callee_name in (("javascript", "pp_defs"), ("typescript", "pp_defs"), ("motoko", "pp_defs"), ("rust", None)):
            if g == "rust":
                h = c.fn("^" + re.escape(BIND) + "rust::emit_bindgen$")
                cal = [x for x in walk(h["body"]) if x.get("k") == "mcall" and x["m"] == "pp_defs"]
                argi = 0
            else:
                h = c.fn("^" + re.escape(BIND + g) + "::compile$")
                cal = [x for x in walk(h["body"]) if x.get("k") == "call" and callee(x) == BIND + g + "::pp_defs"]
                argi = 1
            sc = scope(h["key"])
            if not cal:
                raise AnchorMissing(f"{g}: call of pp_defs not found in {h['key']}")
            for i, x in enumerate(cal):
                if g == "motoko":
                    d = scope(BIND + "motoko::pp_defs")
                    its = [b for b in iteration_binders(d)]
                    src = d.closure_source(its[0]) if its else None
                    ok = isinstance(src, dict) and any(y.get("k") == "field" and str(y["n"]) == "0" and "TypeEnv" in (y.get("bty") or "") for y in walk(src))
                    chk.expect(ok, "defs-list:motoko", "motoko::pp_defs must iterate env.0 (every definition of the environment)", ok_detail="env.0.iter()")
                    break
                b = root_local(sc, x["args"][argi])
                src = b.init if b is not None and b.init is not None else x["args"][argi]
                kinds = set()
                for y in walk(src):
                    if y.get("k") == "call" and callee(y) in (AN + "chase_actor", AN + "chase_types"):
                        kinds.add(callee(y)[len(AN):])
                    if y.get("k") == "field" and str(y["n"]) == "0" and "TypeEnv" in (y.get("bty") or ""):
                        kinds.add("env.0")
                chk.expect(bool(kinds), f"defs-list:{g}:{'+'.join(sorted(kinds)) or i}",
                           f"{h['key']}: the list handed to pp_defs is neither chase_actor/chase_types of the printed types nor all of env.0 "
                           f"(a referenced name could stay undefined)", ok_detail=f"from {sorted(kinds)}")
        # every method is visited by exactly one loop without a filtering adaptor
        n_loops = 0
        for k in inb:
            h = c.hir[k]
            sc = scope(k)
            its = [x for x in walk(h["body"]) if x.get("k") == "mcall" and x["m"] in ("iter", "into_iter", "iter_mut")
                   and re.search(r"\(alloc::string::String, candid::types::internal::Type\)", x.get("recv_ty") or "")]
            if not its:
                continue
            fs = fshort(k)
            roots = {id(root_local(sc, x["recv"])) for x in its}
            per_root = {}
            for x in its:
                per_root.setdefault(render(x["recv"]), []).append(x)
            for rname, xs in per_root.items():
                n_loops += 1
                adapt = []
                for x in xs:
                    cur = x
                    while True:
                        p = sc.parent.get(id(cur))
                        if isinstance(p, dict) and p.get("k") == "mcall" and p.get("recv") is cur:
                            adapt.append(p["m"])
                            cur = p
                        else:
                            break
                badad = [a for a in adapt if a in ("filter", "filter_map", "skip", "take", "skip_while", "take_while", "step_by", "find", "nth",
                                                   "last", "next", "position", "zip", "chain", "dedup", "rev")]
                chk.expect(len(xs) == 1 and not badad, f"methods-once:{fs}",
                           f"{k}: the method list `{rname}` is iterated {len(xs)} time(s) with adaptors {adapt}: every method must be visited "
                           f"exactly once, in the order of the service type", ok_detail=f"one loop, adaptors {adapt}")
        chk.floor("loops over the methods of a service in the generators", n_loops, 5)

    # ------------------------------------------------------------------------------------------------ R5
    def r5():
        ident_re = re.compile(r"^[A-Za-z_][A-Za-z0-9_]*$")
        kjs, tjs = keyword_table(c, "^" + re.escape(BIND) + "javascript::KEYWORDS$")
        kmo, tmo = keyword_table(c, "^" + re.escape(BIND) + "motoko::KEYWORDS$")
        krs, trs = keyword_table(c, "^" + re.escape(BIND) + r"rust::identifier::KEYWORDS$")
        kun, tun = keyword_table(c, "^" + re.escape(BIND) + r"rust::identifier::UNUSABLE_RAW_IDENTIFIERS$")
        chk.analysed(kjs, kmo, krs, kun)
        n = 0
        es, ts = words["ecmascript"], words["typescript"]
        for w in sorted(set(es["reserved"]) | set(es["strict"]) | set(ts["reserved"]) | set(ts["strict"])):
            n += 1
            chk.expect(w in tjs, f"javascript-typescript:{w}",
                       f"javascript::KEYWORDS (the table behind `ident`, used by the JavaScript and TypeScript generators) lacks the reserved word `{w}`: "
                       f"a Candid type named `{w}` is emitted as the bare identifier `{w}`", ok_detail="in table")
        for w in sorted(set(ts["type_names"]) | set(ts["type_names_checker"])):
            n += 1
            chk.expect(w in tjs, f"typescript-type-name:{w}",
                       f"javascript::KEYWORDS lacks `{w}`, which TypeScript reserves for its predefined type: `type {w} = …` in Candid is emitted "
                       f"as `export type {w} = …;` (error TS2457 'Type alias name cannot be {w}'), and every use of the predefined type `{w}` that the "
                       f"generator itself emits would be captured by it", ok_detail="in table")
        mo = words["motoko"]
        for grp in ("core", "later"):
            for w in mo[grp]:
                if not ident_re.match(w):
                    continue
                n += 1
                chk.expect(w in tmo, f"motoko:{w}",
                           f"motoko::KEYWORDS lacks the Motoko keyword `{w}`: a Candid type, field or method named `{w}` is emitted as the bare "
                           f"identifier `{w}` (e.g. `public type {w} = …` / `{w} : shared () -> async ()`), which the Motoko parser rejects",
                           ok_detail="in table")
        rs = words["rust"]
        for w in sorted(set(rs["strict"]) | set(rs["reserved"])):
            n += 1
            chk.expect(w in trs or w in tun, f"rust:{w}", f"rust::identifier: neither KEYWORDS nor UNUSABLE_RAW_IDENTIFIERS contains the Rust keyword `{w}`: "
                                                          f"a field or method of that name is emitted bare", ok_detail="r#-prefixed or suffixed")
        chk.expect(sorted(tun) == sorted(rs["not_raw"]), "rust:not-raw-set",
                   f"UNUSABLE_RAW_IDENTIFIERS is {sorted(tun)}; the identifiers that cannot be written r#… are {sorted(rs['not_raw'])} (Rust Reference, Identifiers)",
                   ok_detail=str(sorted(tun)))
        both = sorted(set(trs) & set(rs["not_raw"]))
        chk.expect(not both, "rust:raw-prefix-legal", f"rust KEYWORDS contains {both}, for which `r#` is not a legal prefix")
        chk.floor("reserved words checked", n, 150)
        # the escapers consult their tables
        for name, key, tab in (("motoko::escape", BIND + "motoko::escape", [kmo]),
                               ("rust::identifier::to_identifier_case", BIND + "rust::identifier::to_identifier_case", [krs, kun]),
                               ("javascript::ident", BIND + "javascript::ident", [kjs])):
            h = c.fn("^" + re.escape(key) + "$")
            sc = scope(h["key"])
            used = set()
            for x in walk(h["body"]):
                if x.get("k") == "mcall" and x["m"] == "contains":
                    r_ = unblock(x["recv"])
                    b = root_local(sc, x["args"][0])
                    derived = b is not None and (b in sc.params[0] or (b.init is not None and any(root_local(sc, y) in sc.params[0]
                                                                                                  for y in walk(b.init) if y.get("k") == "path")))
                    if r_.get("k") == "path" and derived:
                        used.add(r_["res"].get("path"))
            chk.expect(set(tab) <= used, f"escaper-uses-table:{name}", f"{key} no longer tests its argument against {sorted(set(tab) - used)}",
                       ok_detail="KEYWORDS.contains(<the name>)")
            # ... and the membership test decides alone: conjoined with another condition (`!modified && KEYWORDS.contains(..)`) there are
            # names in the table that are emitted unescaped
            weakened = []
            for i_ in nodes(h["body"], "if"):
                cnd = unblock(i_["c"])
                def conj_atoms(e_, acc):
                    e_ = unblock(e_)
                    if e_.get("k") == "bin" and e_.get("op") == "And":
                        conj_atoms(e_["a"], acc)
                        conj_atoms(e_["b"], acc)
                    else:
                        acc.append(e_)
                    return acc
                atoms = conj_atoms(cnd, [])
                has_tab = [a_ for a_ in atoms if any(x.get("k") == "mcall" and x["m"] == "contains" and unblock(x["recv"]).get("k") == "path"
                                                      and (unblock(x["recv"]).get("res") or {}).get("path") in tab for x in walk(a_))]
                if has_tab and len(atoms) > 1:
                    weakened.append(i_)
            chk.expect(not weakened, f"escaper-table-decides-alone:{name}",
                       f"{key}: the keyword-table test is combined with another condition by `&&` (line {weakened[0].get('ln') if weakened else ''}): a name that "
                       f"is in the table but fails the other condition is emitted as a bare keyword",
                       where=f"{h['span']['file']}:{weakened[0].get('ln')}" if weakened else None, ok_detail="the table test is the whole condition")


    # ------------------------------------------------------------------------------------------------ R9
    def r9():
        """Distinct Candid type names stay distinct after the identifier escaper of a generator: the escapers are evaluated (their syntax
        trees, by the checker's interpreter) on the names that can collide — every word of the keyword table, the word followed by one and
        two underscores, and plain identifiers with and without trailing underscores."""
        from c11_util import Interp, NotEvaluable
        cc = facts.crate("candid")
        for name, tabkey, extra_args in (("javascript::ident", "javascript::KEYWORDS", []), ("motoko::escape", "motoko::KEYWORDS", [False])):
            if chk.prop == "C17" and not name.startswith("javascript"):
                continue            # C17 is about the JavaScript generator only
            h = c.fn("^" + re.escape(BIND + name) + "$")
            _, tab = keyword_table(c, "^" + re.escape(BIND + tabkey) + "$")
            chk.analysed(h["key"])
            dom = []
            for w in sorted(tab) + ["x", "t1", "a_b", "_"]:
                dom += [w, w + "_", w + "__"]
            img = {}
            failed = None
            for w in dom:
                try:
                    out = Interp(c, extra_crates=[cc]).call_fn(h, [w] + extra_args)
                except NotEvaluable as e_:
                    failed = f"{w!r}: {e_}"
                    break
                if not isinstance(out, str):
                    failed = f"{w!r}: result {out!r} is not text"
                    break
                img.setdefault(out, []).append(w)
            if failed:
                raise AnchorMissing(f"{name} cannot be evaluated on {failed}")
            clashes = sorted(tuple(v) for v in img.values() if len(v) > 1)
            chk.expect(not clashes, f"escaper-injective:{name}",
                       f"{BIND}{name} maps distinct type names to one identifier: " + "; ".join(" and ".join(f"`{x}`" for x in cl) + f" -> `{[k for k, v in img.items() if tuple(v) == cl][0]}`" for cl in clashes[:4])
                       + f" ({len(clashes)} clash(es) among {len(dom)} names): a program that defines both gets one declaration for two types "
                         f"(a redeclaration error in JavaScript/TypeScript; the second definition wins elsewhere)",
                       where=f"{h['span']['file']}:{h['span']['lo']}", ok_detail=f"{len(dom)} names, {len(img)} distinct results")
            # ... and whatever the name is (labels are arbitrary text), what comes out is one identifier of the target language
            if name == "motoko::escape":
                odd = sorted(set(w for w in tab if not re.fullmatch(r"[A-Za-z_][A-Za-z0-9_]*", w))) + ["a b", "a;b_", "x : Nat; y_", "\"", "é", "1a", "a-b", "", "_ _"]
                leaks = []
                for w in odd:
                    try:
                        out = Interp(c, extra_crates=[cc]).call_fn(h, [w] + extra_args)
                    except NotEvaluable as e_:
                        raise AnchorMissing(f"{name} cannot be evaluated on {w!r}: {e_}")
                    if not (isinstance(out, str) and re.fullmatch(r"[A-Za-z_][A-Za-z0-9_]*", out)):
                        leaks.append((w, out))
                chk.expect(not leaks, f"escaper-output-is-identifier:{name}",
                           f"{BIND}{name}(label, is_method = false) returns text that is not a single identifier for the label(s) "
                           + "; ".join(f"`{w}` -> `{o}`" for w, o in leaks[:4]) + ": a field or variant label is arbitrary quoted text, and it is copied into the "
                           "generated Motoko source (token injection)", where=f"{h['span']['file']}:{h['span']['lo']}",
                           ok_detail=f"{len(odd)} non-identifier labels all become identifiers")
            kw_out = sorted(w for w in tab if w in img and any(x in tab for x in [k for k, v in img.items() if w in v]))
            chk.expect(not kw_out, f"escaper-output-not-reserved:{name}", f"{BIND}{name} returns a word of its own table for {kw_out[:5]}",
                       ok_detail="no result is a table word")

    for rid, desc, f in (("C19.R1", "totality: panicking arms, unwraps and indexing of the generators are within the justified inventory", r1),
                         ("C19.R2", "determinism: no hash-order iteration, clock, random or environment access reachable from compile", r2),
                         ("C19.R3", "program text between quotes / in comments is escaped (RcDoc chains, format!, handlebars templates)", r3),
                         ("C19.R4", "closedness: type names defined and referenced through the same escaper; one loop over the methods", r4),
                         ("C19.R5", "keyword tables cover the reserved words of ECMAScript/TypeScript, Motoko and Rust", r5),
                         ("C19.R9", "identifier escapers are injective: distinct type names never collapse into one target identifier", r9)):
        if only and only != rid:
            continue
        chk.run_rule(rid, desc, f)
    if only is None:
        import c17
        import c18
        chk.include(c17, "C17.R3", "C19.R6", facts)     # every referenced definition is chased, listed once and declared before use (JS/TS)
        chk.include(c18, "C18.R4", "C19.R7", facts)     # the Rust generator lists and prints the nominalised environment only
        chk.include(c18, "C18.R5", "C19.R8", facts)     # ... and pp_ty's unreachable arms are unreachable (everything below an init arg / field gets a name)
