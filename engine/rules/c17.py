"""C17 — the generated JavaScript binding denotes the same service interface (structural clauses)."""
import re

from facts import AnchorMissing, expr_path, callee, nodes, unblock, walk
from shared import Spec, arm_rows, the_match
from c17_util import (BIND, LABEL, TI, Flat, NameFlow, Scope, alias_root, arm_binders, fshort, keyword_table, oracle, pat_binds, render,
                      root_local, var_binders)

TITLE = ("C17: javascript::pp_ty maps every Candid constructor to the @dfinity/candid IDL builder of the same meaning; "
         "every type name is printed through the identifier escaper; definitions are emitted after what they use or "
         "declared with IDL.Rec() first; the escaper's keyword table covers the ECMAScript reserved words.")

JS = BIND + "javascript::"
AN = BIND + "analysis::"
COMPOSITE = ("opt", "vec", "record", "variant", "func", "service")


def peel_unwrap(e):
    e = unblock(e)
    while isinstance(e, dict) and e.get("k") == "mcall" and e["m"] in ("unwrap", "expect"):
        e = unblock(e["recv"])
    return e


def contains_ifs(node, sc=None):
    """`if [!]set.contains(x) { A } else { B }` under node (the test may be let-bound first):
    -> [(the contains call, branch taken when x is a member, other branch)]"""
    out = []
    for n in nodes(node, "if"):
        cnd = unblock(n["c"])
        neg = False
        for _ in range(6):
            if cnd.get("k") == "un" and cnd.get("op") == "Not":
                neg = not neg
                cnd = unblock(cnd["a"])
            elif cnd.get("k") == "path" and sc is not None and sc.binder_of(cnd) is not None and sc.binder_of(cnd).init is not None:
                cnd = unblock(sc.binder_of(cnd).init)
            else:
                break
        if cnd.get("k") == "mcall" and cnd["m"] == "contains":
            out.append((cnd, n.get("e") if neg else n["t"], n["t"] if neg else n.get("e")))
    # the same decision written as a guarded match arm followed by the unguarded arm of the same pattern:
    #   `P if set.contains(x) => A,  P => B`
    from facts import pat_variants as _pv
    for m in nodes(node, "match"):
        arms = m.get("arms") or []
        for i, a in enumerate(arms):
            g = a.get("guard")
            if not isinstance(g, dict):
                continue
            cnd = unblock(g)
            neg = False
            while cnd.get("k") == "un" and cnd.get("op") == "Not":
                neg = not neg
                cnd = unblock(cnd["a"])
            if not (cnd.get("k") == "mcall" and cnd["m"] == "contains"):
                continue
            heads = sorted(v for v in _pv(a["pat"]) if v)
            other = next((b for b in arms[i + 1:] if not b.get("guard") and sorted(v for v in _pv(b["pat"]) if v) == heads), None)
            if other is not None:
                out.append((cnd, other["body"] if neg else a["body"], a["body"] if neg else other["body"]))
    return out


def lits(pieces):
    return [p[1] for p in pieces if p[0] == "lit"]


def exprs(pieces):
    return [p[1] for p in pieces if p[0] == "expr"]


def run(chk, facts, tier, only=None):
    c = facts.crate("candid_parser")
    cc = facts.crate("candid")
    spec = Spec()
    idl = oracle("dfinity_candid_idl.json")
    words = oracle("reserved_words.json")
    scopes = {}
    chk.assume("injectivity of the identifier escaper is not checked (javascript::ident maps `class` and `class_` to the same `class_`)")
    chk.assume("escape_debug is trusted as a JavaScript string escaper (it writes U+0000 as \\0, which followed by a digit is a legacy octal escape)")
    chk.assume("the IDL builder names and reserved words are transcribed oracles (engine/oracles/*.json), not derived from the repository")

    def scope(key):
        if key not in scopes:
            scopes[key] = Scope(c.hir[key] if key in c.hir else cc.hir[key])
        return scopes[key]

    def fn(name):
        h = c.fn("^" + re.escape(JS + name) + "$")
        chk.analysed(h["key"])
        return h

    def flat_of(h, e):
        return Flat([c, cc], scope(h["key"])).flat(e)

    # ------------------------------------------------------------------------------------------------ R1
    def r1():
        variants = cc.enum_variants(r"types::internal::TypeInner$")
        h = fn("pp_ty")
        sc = scope(h["key"])
        m = the_match(h, r"TypeInner$", 10)
        by_head = {}
        for r in arm_rows(m):
            for hd in r["heads"]:
                if isinstance(hd[0], str) and hd[0].startswith(TI):
                    by_head.setdefault(hd[0][len(TI):], []).append(r)
        prim = [n for n in spec.opcodes if n not in COMPOSITE]
        missing = [n for n in prim if n not in idl["primitive"]]
        if missing:
            raise AnchorMissing(f"oracle dfinity_candid_idl.json has no builder for the spec's primitive types {missing}")
        n_rows = 0
        for name in sorted(prim):
            X = Spec.variant_name(name)
            want = "IDL." + idl["primitive"][name]
            rows = by_head.get(X, [])
            got = None
            if len(rows) == 1 and not rows[0]["guard"]:
                ps = flat_of(h, rows[0]["body"])
                if len(ps) == 1 and ps[0][0] == "lit":
                    got = ps[0][1]
            n_rows += 1
            chk.expect(got == want, f"ctor:{X}",
                       f"javascript::pp_ty prints TypeInner::{X} as {got!r}; the IDL builder of Candid `{name}` is `{want}` "
                       f"(engine/oracles/dfinity_candid_idl.json)", ok_detail=f"TypeInner::{X} -> {want}")
        chk.floor("primitive constructors printed by javascript::pp_ty", n_rows, 18)
        stray = [Spec.variant_name(n_) for n_ in spec.opcodes if Spec.variant_name(n_) not in variants]
        if stray:
            raise AnchorMissing(f"type names of the spec without a TypeInner variant: {stray}")
        # composite constructors: builder name, then the payload printed by a printer of this module
        printers = {"opt": "pp_ty", "vec": "pp_ty", "variant": "pp_fields", "func": "pp_function", "service": "pp_service"}
        for name in ("opt", "vec", "variant", "func", "service"):
            X = Spec.variant_name(name)
            want = ["IDL." + b for b in idl["constructor"][name]]
            rows = by_head.get(X, [])
            if len(rows) != 1 or rows[0]["guard"]:
                chk.bad(f"ctor:{X}", f"javascript::pp_ty: expected exactly one unguarded arm for TypeInner::{X}, found {len(rows)}")
                continue
            ps = flat_of(h, rows[0]["body"])
            ls, es = lits(ps), exprs(ps)
            payload = [b for b in sc.binders if b.ctx is m and b.under and b.under[-1] == TI + X]
            okp = (len(es) == 1 and es[0].get("k") == "call" and callee(es[0]) == JS + printers[name] and payload
                   and root_local(sc, es[0]["args"][0]) is payload[0])
            oklit = bool(ls) and ls[0] == want[0] and [x for x in ls if x.startswith("IDL.")] == want
            if name in ("opt", "vec"):
                oklit = oklit and ls[1:] == ["(", ")"]
            chk.expect(okp and oklit, f"ctor:{X}",
                       f"javascript::pp_ty, TypeInner::{X}: expected `{want[0]}` applied to {printers[name]}(<payload of the arm>), "
                       f"found literals {ls} and non-literal parts {[render(e) for e in es]}",
                       ok_detail=f"TypeInner::{X} -> {want[0]}({printers[name]}(payload))")
        # record: tuple shorthand exactly when the field ids are 0..n-1 (and n > 0)
        rows = by_head.get("Record", [])
        okr = False
        detail = "no single arm"
        if len(rows) == 1:
            body = unblock(rows[0]["body"])
            if body.get("k") == "if":
                cond = unblock(body["c"])
                tl, el = lits(flat_of(h, body["t"])), lits(flat_of(h, body["e"]))
                cn = callee(cond) if cond.get("k") == "call" else None
                okr = (cn in (JS + "is_tuple", JS + "is_tuple_fields") and tl[:1] == ["IDL.Tuple"] and el[:1] == ["IDL.Record"]
                       and not any(x.startswith("IDL.") for x in tl[1:] + el[1:]))
                detail = f"condition {render(cond)}, then {tl[:1]}, else {el[:1]}"
        chk.expect(okr, "ctor:Record",
                   f"javascript::pp_ty, TypeInner::Record: expected `if is_tuple(..) {{ IDL.Tuple(..) }} else {{ IDL.Record(..) }}`; {detail}",
                   ok_detail="IDL.Tuple iff is_tuple, else IDL.Record")
        want_all = {"IDL." + b for b in idl["all_builders"]}
        used = {x["v"]["str"] for f in c.fns("^" + re.escape(JS) + r"(pp_\w+|compile)$") for x in nodes(f["body"], "lit")
                if "str" in x["v"] and re.fullmatch(r"IDL\.\w+", x["v"]["str"])}
        for u in sorted(used - want_all):
            chk.bad(f"builder:{u}", f"the JavaScript generator emits `{u}`, which @dfinity/candid does not export")
        # is_tuple_fields: non-empty and id(i) == i
        t = fn("is_tuple_fields")
        ts = scope(t["key"])
        empty_false = any(n.get("k") == "if" and unblock(n["c"]).get("k") == "mcall" and unblock(n["c"])["m"] == "is_empty"
                          and [x for x in nodes(n["t"], "ret") if x.get("e") and x["e"].get("k") == "lit" and x["e"]["v"].get("bool") is False]
                          for n in nodes(t["body"], "if"))
        idcmp = False
        for n in nodes(t["body"], "if"):
            cnd = unblock(n["c"])
            if cnd.get("k") == "bin" and cnd.get("op") == "Ne":
                sides = [cnd["a"], cnd["b"]]
                gid = [s for s in sides if any(x.get("k") == "mcall" and x["m"] == "get_id" for x in walk(s))]
                idx = [s for s in sides if s not in gid and root_local(ts, s) is not None and root_local(ts, s).ty == "usize"]
                retf = [x for x in nodes(n["t"], "ret") if x.get("e") and x["e"].get("k") == "lit" and x["e"]["v"].get("bool") is False]
                enum = any(x.get("k") == "mcall" and x["m"] == "enumerate" for x in walk(t["body"]))
                idcmp = bool(gid and idx and retf and enum)
        tail_true = isinstance(t["body"].get("e"), dict) and t["body"]["e"].get("k") == "lit" and t["body"]["e"]["v"].get("bool") is True
        import tuplepred
        if tuplepred.check(chk, c, t, "slice:Field", "tuple-shorthand:is_tuple_fields", False, True,
                           "IDL.Tuple(t0..tn) denotes the record with ids 0..n"):
            pass
        else:
          chk.expect(empty_false and idcmp and tail_true, "tuple-shorthand:is_tuple_fields",
                     "javascript::is_tuple_fields must answer false for no fields, false as soon as field i does not have id i, true otherwise "
                     f"(empty test: {empty_false}, id comparison: {idcmp}, final true: {tail_true}); IDL.Tuple(t0..tn) denotes the record with ids 0..n",
                     ok_detail="false on empty, false on id(i) != i, else true")
        # labels
        h = fn("pp_label")
        sc = scope(h["key"])
        m = the_match(h, r"Label$", 2)
        seen = set()
        for a in m["arms"]:
            bs = arm_binders(sc, m, a)
            heads = {b.under[-1] for b in bs if b.under}
            if LABEL + "Named" in heads:
                seen.add("Named")
                body = unblock(a["body"])
                ok = body.get("k") == "call" and callee(body) == "candid::pretty::utils::quote_ident" and root_local(sc, body["args"][0]) in bs
                chk.expect(ok, "label:Named", f"javascript::pp_label must print a named label through quote_ident(label); found {render(body)}",
                           ok_detail="Named -> quote_ident")
            if heads & {LABEL + "Id", LABEL + "Unnamed"}:
                seen |= {short_head[len(LABEL):] for short_head in heads}
                ps = flat_of(h, a["body"])
                es = exprs(ps)
                ok = lits(ps) == ["_", "_"] and len(es) == 1 and root_local(sc, es[0]["args"][0] if es[0].get("k") == "call" else es[0]) in bs \
                    and idl["numeric_label"] == "_<n>_" and ps[0][0] == "lit" and ps[1][0] == "expr"
                chk.expect(ok, "label:numeric", f"javascript::pp_label must print a numeric label n as `_n_` (the form idlLabelToId reads back as "
                                                f"the id n); found literals {lits(ps)} around {[render(e) for e in es]}",
                           ok_detail="Id|Unnamed -> _n_")
        chk.expect(seen >= {"Named", "Id", "Unnamed"}, "label:coverage", f"javascript::pp_label covers only {sorted(seen)}")
        # field = label : type of the same field; fields / service in ({ })
        h = fn("pp_field")
        sc = scope(h["key"])
        es = exprs(flat_of(h, h["body"]))
        okf = len(es) == 2 and [callee(e) for e in es] == [JS + "pp_label", JS + "pp_ty"]
        if okf:
            a0, a1 = unblock(es[0]["args"][0]), unblock(es[1]["args"][0])
            while a0.get("k") == "ref":
                a0 = a0["e"]
            while a1.get("k") == "ref":
                a1 = a1["e"]
            okf = a0.get("k") == "field" and a0["n"] == "id" and a1.get("k") == "field" and a1["n"] == "ty" \
                and root_local(sc, a0) is root_local(sc, a1) is not None
        chk.expect(okf, "field:label-type-pair", f"javascript::pp_field must print pp_label(field.id) ':' pp_ty(field.ty) of one field; found {[render(e) for e in es]}",
                   ok_detail="pp_label(field.id) : pp_ty(field.ty)")
        for name, opn, cls in (("pp_fields", "({", "})"), ("pp_service", "({", "})"), ("pp_args", "[", "]")):
            h = fn(name)
            ls = lits(flat_of(h, h["body"]))
            chk.expect(bool(ls) and ls[0] == opn and ls[-1] == cls, f"brackets:{name}",
                       f"javascript::{name} must enclose its elements in `{opn}` … `{cls}`, found literals {ls}", ok_detail=f"{opn} … {cls}")
        h = fn("pp_service")
        sc = scope(h["key"])
        es = exprs(flat_of(h, h["body"]))
        ids = [b for b in sc.binders if b.kind == "closure" and b.ty == "&alloc::string::String"]
        oks = len(es) == 2 and callee(es[0]) == "candid::pretty::utils::quote_ident" and callee(es[1]) == JS + "pp_ty" and len(ids) == 1 \
            and root_local(sc, es[0]["args"][0]) is ids[0]
        chk.expect(oks, "service:method-name-quoted", f"javascript::pp_service must print each method as quote_ident(name) ':' pp_ty(type); found {[render(e) for e in es]}",
                   ok_detail="quote_ident(name) : pp_ty(func)")
        # function: (args, rets, modes) in the order IDL.Func takes them
        h = fn("pp_function")
        sc = scope(h["key"])
        arrs = [n for n in nodes(h["body"], "array") if len(n["es"]) == 3]
        order = []
        if len(arrs) == 1:
            for el in arrs[0]["es"]:
                b = root_local(sc, el)
                ini = unblock(b.init) if b is not None and b.init is not None else unblock(el)
                fld = None
                if isinstance(ini, dict) and ini.get("k") == "call" and (callee(ini) or "").startswith(JS):
                    a = unblock(ini["args"][0])
                    while a.get("k") == "ref":
                        a = a["e"]
                    if a.get("k") == "field":
                        fld = (callee(ini)[len(JS):], a["n"])
                order.append(fld)
        want = [("pp_args", "args"), ("pp_rets", "rets"), ("pp_modes", "modes")]
        chk.expect(order == want and [w[1] for w in want] == idl["func_argument_order"], "func:argument-order",
                   f"javascript::pp_function must print (args, rets, modes) — the parameter order of IDL.Func; found {order}",
                   ok_detail="[pp_args(func.args), pp_rets(func.rets), pp_modes(func.modes)]")
        r = fn("pp_rets")
        rb = unblock(r["body"])
        chk.expect(rb.get("k") == "call" and callee(rb) == JS + "pp_args", "func:rets-as-list", f"javascript::pp_rets must print a `[..]` list like pp_args; found {render(rb)}")
        # annotations: '<name>' with the spec's names, which are the ones IDL.Func accepts
        h = fn("pp_modes")
        ps = flat_of(h, h["body"])
        core = [p for p in ps if not (p[0] == "lit" and p[1] in ("[", "]", ","))]
        okm = len(core) == 3 and core[0] == ("lit", "'") and core[2] == ("lit", "'") and core[1][0] == "expr" \
            and callee(core[1][1]) == "candid::pretty::candid::pp_mode"
        chk.expect(okm, "mode:quoted", f"javascript::pp_modes must print each annotation as '<pp_mode(m)>'; found {[p[1] if p[0] == 'lit' else render(p[1]) for p in core]}",
                   ok_detail="'pp_mode(m)'")
        pm = cc.fn(r"^candid::pretty::candid::pp_mode$")
        chk.analysed(pm["key"])
        mm = the_match(pm, r"FuncMode$", 2)
        FM = "candid::types::internal::FuncMode::"
        got = {}
        for r in arm_rows(mm):
            ps = Flat([c, cc], Scope(pm)).flat(r["body"])
            for hd in r["heads"]:
                if isinstance(hd[0], str) and hd[0].startswith(FM):
                    got[hd[0][len(FM):]] = ps[0][1] if len(ps) == 1 and ps[0][0] == "lit" else None
        for sname in sorted(spec.funcann):
            V = Spec.variant_name(sname)
            chk.expect(got.get(V) == sname and sname in idl["annotations"], f"mode:{V}",
                       f"pp_mode prints FuncMode::{V} as {got.get(V)!r}; the spec's (and IDL.Func's) annotation name is {sname!r}",
                       ok_detail=f"FuncMode::{V} -> '{sname}'")
        for V in sorted(set(got) - {Spec.variant_name(s) for s in spec.funcann}):
            chk.bad(f"mode:{V}", f"pp_mode has an arm for FuncMode::{V}, which the spec does not define")

    # ------------------------------------------------------------------------------------------------ R2
    def r2():
        nf = NameFlow(c, {JS + "ident"}, scopes)
        n_src = 0
        bad = {}
        for h in c.fns("^" + re.escape(JS) + r"(?!value::)\w+$"):
            if h["kind"] != "Fn":
                continue
            sc = nf.scope(h["key"])
            for b in var_binders(sc):
                n_src += 1
                chk.analysed(h["key"])
                res = nf.flow(sc, b)
                esc = [r for r in res if r[0] == "escaped"]
                for cls, fk, what, node, role in res:
                    if cls in ("raw", "unknown"):
                        bad.setdefault((cls, fk, what), []).append(node)
                if not [r for r in res if r[0] in ("raw", "unknown")]:
                    chk.ok(f"type-name:{fshort(h['key'])}",
                           f"name bound from TypeInner::Var: {len(esc)} emission(s) through ident(), {len(res) - len(esc)} look-up(s)")
        for (cls, fk, what), ns in sorted(bad.items(), key=lambda kv: (kv[0][1], kv[0][2])):
            where = f"{c.hir[fk]['span']['file']}:{ns[0].get('ln')}"
            if cls == "raw":
                chk.bad(f"type-name:{fshort(fk)}:{what}",
                        f"{fk}: the name bound from TypeInner::Var reaches the output through {what} ({len(ns)} use(s)) without passing "
                        f"javascript::ident: a type whose name is in the keyword table is defined as `name_` but referenced here as `name`",
                        where=where)
            else:
                chk.bad(f"type-name:{fshort(fk)}:{what}",
                        f"anchor moved (not necessarily a violation): {fk} passes a type name to {what}, which this rule cannot classify as "
                        f"look-up, escaper or text constructor", where=where)
        chk.floor("TypeInner::Var bindings in the JavaScript generator", n_src, 2)
        # the escaper consults its table
        h = fn("ident")
        sc = scope(h["key"])
        ifs = nodes(h["body"], "if")
        ok = False
        if ifs:
            cnd = unblock(ifs[0]["c"])
            if cnd.get("k") == "mcall" and cnd["m"] == "contains":
                recv = unblock(cnd["recv"])
                ok = recv.get("k") == "path" and recv["res"].get("path") == JS + "KEYWORDS" \
                    and root_local(sc, cnd["args"][0]) in sc.params[0]
                tl = [p for p in flat_of(h, ifs[0]["t"])]
                el = [p for p in flat_of(h, ifs[0]["e"])] if ifs[0].get("e") else []
                ok = ok and [p[0] for p in tl] == ["expr", "lit"] and tl[1][1] != "" and [p[0] for p in el] == ["expr"]
        chk.expect(ok, "escaper:ident", "javascript::ident must test `KEYWORDS.contains(id)` and print `id` followed by a non-empty suffix "
                                        "for table members, `id` itself otherwise", ok_detail="KEYWORDS.contains(id) ? id_ : id")

    # ------------------------------------------------------------------------------------------------ R3
    def r3():
        # (0) membership in `recs` alone selects IDL.Rec() / .fill / .getType(): see c18.recs_decide_alone
        def conj(e_, acc):
            e_ = unblock(e_)
            if e_.get("k") == "bin" and e_.get("op") == "And":
                conj(e_["a"], acc)
                conj(e_["b"], acc)
            else:
                acc.append(e_)
            return acc
        n_rec = 0
        for nm in ("pp_defs", "pp_actor"):
            g = fn(nm)
            for i_ in nodes(g["body"], "if"):
                if not any(x.get("k") == "mcall" and x["m"] == "contains" and (expr_path(x["recv"]) or "").split(".")[-1] == "recs" for x in walk(i_["c"])):
                    continue
                n_rec += 1
                chk.expect(len(conj(i_["c"], [])) == 1, f"recs-membership-decides-alone:{nm}",
                           f"javascript::{nm}: the test `recs.contains(id)` is combined with another condition (line {i_.get('ln')}): a recursive definition that fails "
                           f"the other condition gets a plain `const`, and if the cycle is entered through it the constant is read before its declaration",
                           where=f"{g['span']['file']}:{i_.get('ln')}", ok_detail="recs.contains(id) is the whole condition")
            for x in walk(g["body"]):
                if x.get("k") == "mcall" and x["m"] == "filter" and any(y.get("k") == "path" and (y.get("res") or {}).get("path") == "recs" for y in walk(x["recv"])):
                    chk.bad(f"recs-membership-decides-alone:{nm}:filter", f"javascript::{nm} filters `recs` before printing the IDL.Rec() forward declarations "
                                                                          f"(line {x.get('ln')}): the filtered-out members of a cycle are not forward-declared",
                            where=f"{g['span']['file']}:{x.get('ln')}")
        chk.floor("recs.contains tests in javascript::pp_defs / pp_actor", n_rec, 2)
        # (a) chase_type: post-order
        for name in ("chase_type",):
            h = c.fn("^" + re.escape(AN + name) + "$")
            chk.analysed(h["key"])
            sc = scope(h["key"])
            m = the_match(h, r"TypeInner$", 5)
            arms = [a for a in m["arms"] if any(b.under and b.under[-1] == TI + "Var" for b in arm_binders(sc, m, a))]
            if len(arms) != 1:
                raise AnchorMissing(f"{h['key']}: expected one arm binding TypeInner::Var, found {len(arms)}")
            a = arms[0]
            vb = arm_binders(sc, m, a)[0]
            g = a.get("guard")
            okg = isinstance(g, dict) and unblock(g).get("k") == "mcall" and unblock(g)["m"] == "insert" \
                and "BTreeSet" in unblock(g)["callee"] and alias_root(sc, unblock(g)["args"][0]) is vb
            chk.expect(okg, "chase_type:visit-once", "chase_type: the Var arm must be guarded by `seen.insert(id)` (each definition is chased and listed once)",
                       ok_detail="guard seen.insert(id)")
            body = a["body"]
            stmts = list(body.get("stmts") or []) + ([body["e"]] if body.get("e") else []) if body.get("k") == "block" else []
            i_rec = [i for i, st in enumerate(stmts) if any(x.get("k") == "call" and callee(x) == h["key"] for x in walk(st))]
            i_push = [i for i, st in enumerate(stmts) if any(x.get("k") == "mcall" and x["m"] == "push" and "Vec" in x["callee"]
                                                              and alias_root(sc, x["args"][0]) is vb for x in walk(st))]
            if not i_rec or not i_push:
                raise AnchorMissing(f"chase_type: recursive call ({i_rec}) or `res.push(id)` ({i_push}) not found at statement level of the Var arm")
            chk.expect(max(i_rec) < min(i_push), "chase_type:push-after-recursion",
                       "chase_type pushes the name of a definition before chasing its body: the definitions it uses are listed after it, "
                       "so the generated `const` declarations reference identifiers that are declared later",
                       where=f"{h['span']['file']}:{stmts[min(i_push)].get('ln')}", ok_detail="find_type; chase_type(body); res.push(id)")
            rec_recv = [root_local(sc, x["recv"]) for x in walk(body) if x.get("k") == "mcall" and x["m"] == "push"]
            chk.expect(all(r is not None and r.kind == "param" for r in rec_recv), "chase_type:pushes-result-list", "chase_type must push onto its result parameter")
        # (a0) both walkers visit every constructor that contains types: a constructor left to the fall-through arm hides the definitions
        #      (chase_type) or the forward references (infer_rec::go) below it
        CHILDREN = ("Opt", "Vec", "Record", "Variant", "Func", "Service", "Class")
        from shared import scanner_of_infer_rec
        for wname in ("chase_type", "infer_rec::go"):
            wh = c.fn("^" + re.escape(AN + wname) + "$") if wname == "chase_type" else scanner_of_infer_rec(c)
            chk.analysed(wh["key"])
            wm = the_match(wh, r"TypeInner$", 5)
            covered = set()
            for row in arm_rows(wm):
                rec = any(x.get("k") == "call" and callee(x) == wh["key"] for x in walk(row["body"]))
                for hd in row["heads"]:
                    if isinstance(hd[0], str) and hd[0].startswith(TI) and rec:
                        covered.add(hd[0][len(TI):])
            missing = [x for x in CHILDREN if x not in covered]
            chk.expect(not missing, f"{wname.replace('::', '.')}:descends-into-every-constructor",
                       f"{wname} does not descend into {missing}: types below such a constructor are not chased / not scanned for forward "
                       f"references, so a definition used only there is missing from the output or a cycle through it is not marked recursive "
                       f"(no IDL.Rec() in JavaScript, no Box in Rust)", where=f"{wh['span']['file']}:{wh['span']['lo']}",
                       ok_detail=f"recurses under {sorted(covered)}")
        # (a'') producers of definition lists: each list is filled by chase_type alone, under one visited set that lives as long as the list
        #       (two visited sets for one list, or lists spliced together, list a definition twice: `const x` declared twice)
        ct = c.fn("^" + re.escape(AN + "chase_type") + "$")
        i_seen = next((i for i, p in enumerate(ct["params"]) if "BTreeSet" in str(p.get("ty") or "")), None)
        i_res = next((i for i, p in enumerate(ct["params"]) if "Vec<" in str(p.get("ty") or "")), None)
        if i_seen is None or i_res is None:
            raise AnchorMissing("chase_type: `seen: &mut BTreeSet<_>` / `res: &mut Vec<_>` parameters not found")
        producers = 0
        for name in ("chase_actor", "chase_types"):
            h = c.fn("^" + re.escape(AN + name) + "$")
            chk.analysed(h["key"])
            sc = scope(h["key"])
            tail = unblock(h["body"]["e"]) if h["body"].get("e") else {}
            R = root_local(sc, tail["args"][0]) if tail.get("k") == "call" and (callee(tail) or "").endswith("Result::Ok") and tail.get("args") else None
            if R is None or R.kind != "let" or R.init is None or not (callee(unblock(R.init)) or "").endswith("::new"):
                chk.bad(f"def-list:{name}:single-visited-set", f"{name} must return a list it created empty (`let mut res = Vec::new(); … Ok(res)`)",
                        where=f"{h['span']['file']}:{h['span']['lo']}")
                continue
            producers += 1
            calls = [x for x in walk(h["body"]) if x.get("k") == "call" and callee(x) == ct["key"]]
            mine = [x for x in calls if root_local(sc, x["args"][i_res]) is R]
            other = [x for x in walk(h["body"]) if x.get("k") == "path" and sc.binder_of(x) is R and x is not unblock(tail["args"][0])
                     and not any(any(y is x for y in walk(cl["args"][i_res])) for cl in mine)]
            seens = {id(root_local(sc, x["args"][i_seen])): root_local(sc, x["args"][i_seen]) for x in mine}
            S = list(seens.values())[0] if len(seens) == 1 else None
            same_block = S is not None and S.kind == "let" and S.init is not None and (callee(unblock(S.init)) or "").endswith("::new") \
                and sc.parent.get(id(S.ctx)) is sc.parent.get(id(R.ctx))
            chk.expect(bool(mine) and not other and same_block, f"def-list:{name}:single-visited-set",
                       f"{name}: the returned definition list must be filled only by chase_type calls that share one visited set created next to the "
                       f"list (chase_type calls on the list: {len(mine)}, other uses of the list: {len(other)}, one `seen` declared beside it: {same_block}); "
                       f"otherwise a definition reachable twice is listed twice and the generated module declares it twice",
                       where=f"{h['span']['file']}:{h['span']['lo']}", ok_detail=f"{len(mine)} chase_type call(s), one visited set, no other writer")
        chk.floor("producers of definition lists (chase_actor, chase_types)", producers, 2)
        # (a') infer_rec: a name is recursive iff it is referenced before its definition has been passed
        h = c.fn("^" + re.escape(AN + "infer_rec") + "$")
        g = scanner_of_infer_rec(c)
        chk.analysed(h["key"], g["key"])
        gs = scope(g["key"])
        gm = the_match(g, r"TypeInner$", 5)
        va = [a for a in gm["arms"] if TI + "Var" in [u for x, us in pat_binds(a["pat"]) for u in us]]
        if len(va) != 1:
            raise AnchorMissing("infer_rec::go: Var arm not found")
        gg = unblock(va[0]["guard"]) if va[0].get("guard") else {}
        ins = [x for x in walk(va[0]["body"]) if x.get("k") == "mcall" and x["m"] == "insert" and "BTreeSet" in x["callee"]]
        okgo = gg.get("k") == "mcall" and gg["m"] == "insert" and len(ins) == 1
        p_seen = p_res = None
        if okgo:
            p_seen, p_res = root_local(gs, gg["recv"]), root_local(gs, ins[0]["recv"])
            okgo = p_seen is not None and p_res is not None and p_seen is not p_res and p_seen.kind == p_res.kind == "param"
        chk.expect(okgo, "infer_rec:first-forward-reference", "infer_rec::go: `Var(id) if seen.insert(id) => res.insert(id)` expected "
                                                              "(a name met before its definition was passed is recursive)",
                   ok_detail="Var(id) if seen.insert(id) => res.insert(id)")
        hs = scope(h["key"])
        loops = [n for n in nodes(h["body"], "match") if n.get("src") == "ForLoopDesugar" and n["scrut"].get("k") == "call"
                 and (callee(n["scrut"]) or "").endswith("Iterator::next")]
        if len(loops) != 1 or not okgo:
            raise AnchorMissing("infer_rec: the loop over def_list was not found")
        somearm = [a for a in loops[0]["arms"] if pat_binds(a["pat"])][0]
        var = [b for b in hs.binders if b.ctx is loops[0]][0]
        body = somearm["body"]
        stmts = list(body.get("stmts") or []) + ([body["e"]] if body.get("e") else [])
        i_go = [i for i, st in enumerate(stmts) if any(x.get("k") == "call" and callee(x) == g["key"] for x in walk(st))]
        i_ins = [i for i, st in enumerate(stmts) if any(x.get("k") == "mcall" and x["m"] == "insert" and alias_root(hs, x["args"][0]) is var for x in walk(st))]
        if not i_go or not i_ins:
            raise AnchorMissing("infer_rec: call of `go` or `seen.insert(var)` not found in the loop body")
        gocall = [x for st in stmts for x in walk(st) if x.get("k") == "call" and callee(x) == g["key"]][0]
        inscall = [x for st in stmts for x in walk(st) if x.get("k") == "mcall" and x["m"] == "insert" and alias_root(hs, x["args"][0]) is var][0]
        same_seen = root_local(hs, gocall["args"][p_seen.idx]) is root_local(hs, inscall["recv"]) is not None
        tail = unblock(h["body"]["e"]) if h["body"].get("e") else {}
        ret_res = tail.get("k") == "call" and (callee(tail) or "").endswith("Result::Ok") and \
            root_local(hs, tail["args"][0]) is root_local(hs, gocall["args"][p_res.idx]) is not None
        # every definition of the list is scanned: the call of go is a statement of the loop body itself, not under a condition
        # (a body skipped because its name is already known to be recursive can hold the only forward reference to a later definition)
        def direct(st, call):
            s0 = st.get("e") if st.get("k") == "semi" else st
            for _ in range(4):
                if s0 is call:
                    return True
                if isinstance(s0, dict) and s0.get("k") == "match" and s0.get("src") == "TryDesugar":
                    s0 = s0["scrut"]
                    if s0.get("k") == "call" and (callee(s0) or "").endswith("Try::branch") and s0.get("args"):
                        s0 = s0["args"][0]
                elif isinstance(s0, dict) and s0.get("k") == "slet" and s0.get("init") is not None:
                    s0 = s0["init"]
                else:
                    break
            return s0 is call
        uncond = any(direct(stmts[i], gocall) for i in i_go)
        chk.expect(uncond, "infer_rec:every-body-scanned",
                   "infer_rec: the scan `go(seen, res, env, body)` must run for every definition of the list (a plain statement of the loop body); "
                   "under a condition some bodies are skipped and a forward reference inside them is never marked recursive, so the generated "
                   "code reads a `const` before its declaration", where=f"{h['span']['file']}:{gocall.get('ln')}",
                   ok_detail="go(..)? is an unconditional statement of the loop over def_list")
        chk.expect(max(i_go) < min(i_ins) and same_seen and ret_res, "infer_rec:define-after-body",
                   "infer_rec must scan the body of a definition before marking the definition itself as passed (a self reference is a forward "
                   f"reference), on the same `seen` set, and return the `res` set filled by go (order ok: {max(i_go) < min(i_ins)}, same set: {same_seen}, "
                   f"returns res: {ret_res})", ok_detail="go(seen, res, body); seen.insert(var); Ok(res)")
        # (b) pp_defs: IDL.Rec() declarations first, `.fill` exactly for members of recs
        h = fn("pp_defs")
        sc = scope(h["key"])
        tail = unblock(h["body"]["e"]) if h["body"].get("e") else {}
        if not (tail.get("k") == "mcall" and tail["m"] == "append"):
            raise AnchorMissing("javascript::pp_defs: final `recs_doc.append(defs)` not found")
        A, B = root_local(sc, tail["recv"]), root_local(sc, tail["args"][0])
        if A is None or B is None or A.init is None or B.init is None:
            raise AnchorMissing("javascript::pp_defs: the two parts of the result are not let-bound documents")
        fa = Flat([c, cc], sc)
        first_is_rec = any("IDL.Rec()" in x for x in lits(fa.flat(A.init)))
        if not first_is_rec and any("IDL.Rec()" in x for x in lits(fa.flat(B.init))):
            A, B = B, A     # the declarations are appended after the definitions: reported below
        la = lits(fa.flat(A.init))
        declares = any("IDL.Rec()" in x for x in la) and "const" in la and first_is_rec
        ifs = contains_ifs(B.init, sc)
        if len(ifs) != 1:
            raise AnchorMissing("javascript::pp_defs: `if recs.contains(id)` not found in the definitions part")
        cnd, br_in, br_out = ifs[0]
        R = root_local(sc, cnd["recv"])
        it = [x for x in walk(A.init) if x.get("k") == "mcall" and x["m"] == "iter"]
        same = bool(it) and root_local(sc, it[0]["recv"]) is R is not None and R.kind == "param"
        tl, el = lits(fa.flat(br_in)), lits(fa.flat(br_out))
        idb = root_local(sc, cnd["args"][0])
        defs_iter = [x for x in walk(B.init) if x.get("k") == "mcall" and x["m"] == "iter"]
        D = root_local(sc, defs_iter[0]["recv"]) if defs_iter else None
        okfill = ".fill" in tl and "const" not in tl and "const" in el and " = " in el and ".fill" not in el
        chk.expect(declares and same, "pp_defs:rec-declared-first",
                   f"javascript::pp_defs must emit `const x = IDL.Rec();` for every member of `recs` before the definitions "
                   f"(declaration block found and appended first: {declares}, iterates the set tested by contains: {same})",
                   ok_detail="recs.iter() -> const x = IDL.Rec(); appended before the definitions")
        chk.expect(okfill and idb is not None and idb.kind == "closure" and D is not None and D.kind == "param" and D is not R,
                   "pp_defs:fill-iff-rec",
                   f"javascript::pp_defs must print `x.fill(..)` exactly when recs.contains(x) and `const x = ..` otherwise; literals printed for a "
                   f"member of recs: {tl}, for a non-member: {el}", ok_detail="recs.contains(id) ? id.fill(ty) : const id = ty")
        # (c) pp_actor: .getType() exactly for recs
        h = fn("pp_actor")
        sc = scope(h["key"])
        vbs = var_binders(sc)
        ifs = contains_ifs(h["body"], sc)
        if len(ifs) != 1 or not vbs:
            raise AnchorMissing("javascript::pp_actor: `if recs.contains(id)` in the Var arm not found")
        cnd, br_in, br_out = ifs[0]
        fa = Flat([c, cc], sc)
        tl, el = lits(fa.flat(br_in)), lits(fa.flat(br_out))
        R = root_local(sc, cnd["recv"])
        chk.expect(".getType()" in tl and ".getType()" not in el and any(alias_root(sc, cnd["args"][0]) is vb for vb in vbs) and R is not None
                   and R.kind == "param" and "BTreeSet" in (R.ty or ""), "pp_actor:getType-iff-rec",
                   f"javascript::pp_actor must append `.getType()` to the actor's type name exactly when it is in `recs` (an IDL.Rec() is not a "
                   f"service type); literals for a member of recs: {tl}, for a non-member: {el}", ok_detail="recs.contains(id) ? id.getType() : id")
        # (d) compile: lists and recursion sets handed to the printers
        h = fn("compile")
        sc = scope(h["key"])
        uses = []
        for x in walk(h["body"]):
            if x.get("k") == "call" and callee(x) == JS + "pp_defs":
                dl, rc = root_local(sc, x["args"][1]), root_local(sc, x["args"][2])
                src = peel_unwrap(dl.init) if dl is not None and dl.init is not None else None
                rsrc = peel_unwrap(rc.init) if rc is not None and rc.init is not None else None
                kind = None
                if isinstance(src, dict) and src.get("k") == "call" and callee(src) in (AN + "chase_actor", AN + "chase_types"):
                    kind = callee(src)[len(AN):]
                elif isinstance(src, dict) and any(y.get("k") == "field" and y["n"] == "0" and "TypeEnv" in (y.get("bty") or "") for y in walk(src)):
                    kind = "env"
                okrec = isinstance(rsrc, dict) and rsrc.get("k") == "call" and callee(rsrc) == AN + "infer_rec" \
                    and root_local(sc, rsrc["args"][1]) is dl
                uses.append({"call": x, "dl": dl, "rc": rc, "kind": kind, "okrec": okrec, "src": src})
        if len(uses) < 3:
            raise AnchorMissing(f"javascript::compile: expected three pp_defs calls (no actor, factory, init), found {len(uses)}")
        for u in uses:
            chk.expect(u["kind"] is not None and u["okrec"], f"compile:defs-from:{u['kind']}",
                       f"javascript::compile: a pp_defs call gets a definition list that is not chase_actor/chase_types/all of env, or a recursion "
                       f"set that is not infer_rec of that same list (list from {u['kind']}, infer_rec of same list: {u['okrec']})",
                       ok_detail=f"pp_defs(env, {u['kind']}(..), infer_rec(env, same list))")
        fac = [u for u in uses if u["kind"] == "chase_actor"]
        ini = [u for u in uses if u["kind"] == "chase_types"]
        if len(fac) != 1 or len(ini) != 1:
            raise AnchorMissing("javascript::compile: factory (chase_actor) or init (chase_types) definition list not found")
        pa = [x for x in walk(h["body"]) if x.get("k") == "call" and callee(x) == JS + "pp_actor"]
        pr = [x for x in walk(h["body"]) if x.get("k") == "call" and callee(x) == JS + "pp_rets"]
        if len(pa) != 1 or len(pr) != 1:
            raise AnchorMissing("javascript::compile: pp_actor / pp_rets call not found")
        chk.expect(root_local(sc, pa[0]["args"][1]) is fac[0]["rc"] and root_local(sc, pa[0]["args"][0]) is root_local(sc, fac[0]["src"]["args"][1]) is not None,
                   "compile:actor-uses-factory-recs",
                   "javascript::compile must print the actor with the recursion set of the definitions emitted in the same factory, and chase the "
                   "same actor it prints", ok_detail="pp_actor(actor, recs) with recs = infer_rec(chase_actor(env, actor))")
        chk.expect(root_local(sc, pr[0]["args"][0]) is root_local(sc, ini[0]["src"]["args"][1]) is not None, "compile:init-chases-init-args",
                   "javascript::compile: the init factory must define (chase_types + infer_rec) the types of exactly the init arguments it returns",
                   ok_detail="chase_types(env, init) ... pp_rets(init)")

        def holder(call):
            for a in sc.ancestors(call):
                if a.get("k") == "slet":
                    bs = [b for b in sc.binders if b.ctx is a]
                    return bs[0] if len(bs) == 1 else None
            return None
        # JavaScript inserts a semicolon after a `return` that is followed by a line break: the word must be printed with a hard space
        # (kwd("return")), never as bare text that a breakable separator can follow
        rets = [x for x in walk(h["body"]) if x.get("k") == "lit" and isinstance(x["v"].get("str"), str) and x["v"]["str"].strip() == "return"]
        n_kwd = 0
        for x in rets:
            par = sc.parent.get(id(x))
            for _ in range(3):
                if par is not None and par.get("k") not in ("call", "mcall"):
                    par = sc.parent.get(id(par))
            via = (callee(par) or "") if par is not None and par.get("k") in ("call", "mcall") else ""
            hard = via.endswith("pretty::utils::kwd") or x["v"]["str"].endswith(" ")
            n_kwd += 1 if hard else 0
            chk.expect(hard, "compile:return-hard-space",
                       f"javascript::compile prints `return` through `{via or 'a bare literal'}`: unless the word carries a hard space (kwd) the "
                       f"layout can break the line after it, and `return⏎[..]` evaluates as `return;` (automatic semicolon insertion)",
                       where=f"{h['span']['file']}:{x.get('ln')}", ok_detail="kwd(\"return\")")
        chk.floor("`return` statements printed by javascript::compile", n_kwd, 2)
        for tag, defs_call, ret_call in (("factory", fac[0]["call"], pa[0]), ("init", ini[0]["call"], pr[0])):
            Dd, Rr = holder(defs_call), holder(ret_call)
            ok = False
            if Dd is not None and Rr is not None:
                for x in walk(h["body"]):
                    if x.get("k") == "mcall" and x["m"] == "append" and root_local(sc, x["recv"]) is Dd and root_local(sc, x["args"][0]) is Rr:
                        ok = True
            chk.expect(ok, f"compile:defs-before-return:{tag}", f"javascript::compile ({tag}): the definitions must be appended before the `return` statement",
                       ok_detail="defs.append(return ..)")

    # ------------------------------------------------------------------------------------------------ R4
    def r4():
        key, table = keyword_table(c, "^" + re.escape(JS + "KEYWORDS") + "$")
        chk.analysed(key)
        ts = set(table)
        es = words["ecmascript"]
        n = 0
        for grp in ("reserved", "strict"):
            for w in es[grp]:
                n += 1
                chk.expect(w in ts, f"keyword:{w}",
                           f"javascript::KEYWORDS lacks `{w}` (ECMAScript {'ReservedWord' if grp == 'reserved' else 'strict-mode reserved identifier'}): "
                           f"a Candid type named `{w}` is emitted as `const {w} = ...;`, which is not a valid declaration in an ES module",
                           ok_detail="in table")
        chk.floor("ECMAScript reserved words checked", n, 45)
        # identifiers the emitted scaffold itself binds in the scope that holds the generated `const` declarations
        h = fn("compile")
        binders = set()
        for x in nodes(h["body"], "lit"):
            s = x["v"].get("str")
            if isinstance(s, str):
                for m in re.finditer(r"\(\s*\{([^}]*)\}\s*\)\s*=>", s):
                    binders |= {w.strip() for w in m.group(1).split(",") if w.strip()}
        if not binders:
            raise AnchorMissing("javascript::compile: factory header `({ IDL }) =>` not found among its literals")
        for w in sorted(binders):
            chk.expect(w in ts, f"scaffold-binder:{w}",
                       f"the generated factory binds `{w}` as its parameter and declares every Candid type as `const <name>` in the factory body, "
                       f"but `{w}` is not in javascript::KEYWORDS: a Candid type named `{w}` yields `const {w} = {w}.…;` (redeclaration of the "
                       f"parameter, an early SyntaxError, and every `{w}.X` builder reference would be captured)",
                       ok_detail="escaped by the table")

    for rid, desc, f in (("C17.R1", "constructor table of javascript::pp_ty equals the @dfinity/candid IDL builders (labels, annotations, argument order)", r1),
                         ("C17.R2", "every name bound from TypeInner::Var reaches the output through javascript::ident", r2),
                         ("C17.R3", "declared before use: post-order chase, IDL.Rec()/fill/getType exactly for recs, init factory chased", r3),
                         ("C17.R4", "javascript::KEYWORDS covers the ECMAScript reserved words (and the scaffold's own binder)", r4)):
        if only and only != rid:
            continue
        chk.run_rule(rid, desc, f)
    if only is None:
        import c19
        chk.include(c19, "C19.R9", "C17.R6", facts)     # javascript::ident keeps distinct type names distinct
        chk.include(c19, "C19.R3", "C17.R5", facts)     # method names and labels printed as '…' literals are escaped (no raw quote, backslash or line terminator)
