"""C12 — printing an interface as .did and re-checking it yields an equal interface (structural clauses).

Both type printers (`candid::pretty::candid` over `TypeInner`, `candid_parser::syntax::pretty` over `IDLType`) are read as
tables: which text starts the output of each constructor, which names are printed raw, which shorthands are taken.  The
oracle for the text is the lexer model built from the `#[token]`/`#[regex]` attributes (c11_util) together with
`PrimType::str_to_enum` and `typing::check_prim`; the oracle for the shorthands is the record-numbering code of the grammar's
semantic actions."""
import re

from facts import (AnchorMissing, callee, expr_path, lit_value, nodes, pat_alternatives, pat_head, pat_variants, peel, short, unblock,
                   walk)
from shared import TI, arm_rows, panics_in, the_match, variant_paths
from c11_util import (hash_iteration_sites, LexError, Scopes, build_tokenizer, check_quoting_chain, check_quoting_semantic, fmt_calls, is_str_ty, keywords_table,
                      reserved_words, strip_ty)

TITLE = ("C12: every primitive/constructor keyword printed by the two type printers lexes to the token of the same "
         "constructor and closes back through PrimType::str_to_enum/check_prim; identifier-shaped lexer tokens are quoted and "
         "labels/method/argument names are only printed through pp_text; tuple, blob and variant-null shorthands agree with the "
         "grammar's numbering and are taken only where the grammar reads them back; printers are total (no wildcard arms, "
         "unreachable! only at the three actor/method positions); no hash iteration; TypeContainer::go rebuilds every composite "
         "and registers a definition before returning a Var.")

IT = "candid_parser::syntax::IDLType::"
PT = "candid_parser::syntax::PrimType::"
IV = "candid::types::value::IDLValue::"
FM = "candid::types::internal::FuncMode::"
LB = "candid::types::internal::Label::"
CPR = "candid::pretty::candid::"
SPR = "candid_parser::syntax::pretty::"
VALUE_MOD = "candid::pretty::candid::value::"

DOC_CTORS = r"(RcDoc(::<[^>]*>)?::(text|as_string)|pretty::utils::(kwd|str|ident))$"
ENCLOSERS = r"pretty::utils::(enclose|enclose_space|sep_enclose|sep_enclose_space)$"
COMPOSITE_TOKEN = {"Opt": "Opt", "Vec": "Vec", "Record": "Record", "Variant": "Variant", "Func": "Func", "Service": "Service",
                   "Principal": "Principal"}


class Leftmost:
    """the text a printed document starts with: the leftmost literal of the `a.append(b)...` chain, following calls into
    printer helpers of the two crates"""

    def __init__(self, crates):
        self.crates = crates

    def fn(self, path):
        for c in self.crates:
            if path in c.hir and c.hir[path].get("kind") in ("Fn", "AssocFn"):
                return c.hir[path]
        return None

    def of(self, e, scopes=None, depth=0):
        if depth > 6 or not isinstance(e, dict):
            return {"<?>"}
        e = unblock(e)
        k = e.get("k")
        if k == "block":
            return self.of(e["e"], scopes, depth) if e.get("e") else {"<?>"}
        if k == "mcall":
            if e["m"] in ("append", "nest", "group", "clone", "flat_alt", "annotate", "pretty"):
                return self.of(e["recv"], scopes, depth)
            return {"<?>"}
        if k == "call":
            cal = callee(e) or ""
            if re.search(DOC_CTORS, cal) or re.search(ENCLOSERS, cal):
                v = lit_value(e["args"][0]) if e.get("args") else None
                return {v} if isinstance(v, str) else {"<dyn>"}
            h = self.fn(cal)
            if h is not None and (cal.startswith(CPR) or cal.startswith(SPR)):
                return self.of(h["body"], Scopes(h), depth + 1)
            return {"<?>"}
        if k == "if":
            out = set(self.of(e["t"], scopes, depth))
            out |= self.of(e["e"], scopes, depth) if e.get("e") else {"<?>"}
            return out
        if k == "match":
            out = set()
            for a in e["arms"]:
                out |= self.of(a["body"], scopes, depth)
            return out
        if k == "path" and scopes is not None:
            b = scopes.use.get(id(e))
            if b and b.get("init") is not None:
                return self.of(b["init"], scopes, depth + 1)
        return {"<?>"}


def run(chk, facts, tier, only=None):
    c = facts.crate("candid")
    p = facts.crate("candid_parser")
    state = {}

    def lexer():
        if "lexer" not in state:
            state["lexer"] = build_tokenizer(facts)
        return state["lexer"]

    def one_token(text):
        """(variant, slice) if text lexes as exactly one token else the token list / error"""
        model, _ = lexer()
        try:
            toks = model.tokenize(text)
        except LexError as e:
            return e
        if len(toks) == 1:
            return toks[0]
        return toks

    def type_printer_fns():
        out = []
        for crate, pre in ((c, CPR), (p, SPR)):
            for k, h in crate.hir.items():
                if k.startswith(pre) and not k.startswith(VALUE_MOD) and h.get("kind") in ("Fn", "AssocFn"):
                    out.append((crate, h))
        return out

    def fshort(h):
        k = h["key"]
        if k.startswith(SPR):
            return "syntax::" + k[len(SPR):]
        if k.startswith(CPR):
            return k[len(CPR):]
        return k

    # ------------------------------------------------------------------------------------------------ R1
    def r1():
        model, info = lexer()
        chk.analysed(info["fn"])
        # parser side: Id text -> PrimType -> TypeInner
        s2e = p.fn(r"syntax::PrimType::str_to_enum$")
        chk.analysed(s2e["key"])
        prim_of = {}
        for n in nodes(s2e["body"], "if"):
            cond = unblock(n["c"])
            if cond.get("k") != "bin" or cond.get("op") != "Eq":
                continue
            names = [lit_value(x["recv"]) for x in walk(cond) if x.get("k") == "mcall" and x["m"] == "to_lowercase"]
            vs = variant_paths(n["t"], PT)
            if len(names) == 1 and isinstance(names[0], str) and len(vs) == 1:
                prim_of.setdefault(names[0].lower(), vs[0])     # first match wins, as in the if-chain
        chk.floor("PrimType::str_to_enum rows", len(prim_of), 17)
        cp = p.fn(r"typing::check_prim$")
        chk.analysed(cp["key"])
        prim_to_ti = {}
        for r in arm_rows(the_match(cp, r"PrimType$", 10)):
            vs = variant_paths(r["body"], TI)
            for hd in r["heads"]:
                if isinstance(hd[0], str) and hd[0].startswith(PT) and len(vs) == 1:
                    prim_to_ti[hd[0][len(PT):]] = vs[0]
        chk.floor("typing::check_prim rows", len(prim_to_ti), 17)
        prims = sorted(prim_to_ti)
        # grammar anchors: actions that take one token and build the keyword-only types
        acts = {}
        for k, h in p.hir.items():
            if not re.search(r"grammar::__action\d+$", k):
                continue
            try:
                sig = p.item("fn", re.escape(k) + "$").get("sig", "")
            except AnchorMissing:
                continue
            ntok = sig.count("candid_parser::token::Token,")
            body = unblock(h["body"])
            built = variant_paths(body, IT) + variant_paths(body, PT)
            if ntok == 1 and sig.rstrip().endswith("-> candid_parser::syntax::IDLType") and not sig.count("IDLType,"):
                acts.setdefault(tuple(built), []).append(k)
        for what, built in (("null", ("PrimT", "Null")), ("principal", ("PrincipalT",)), ("blob", ("VecT", "PrimT", "Nat8"))):
            chk.expect(bool(acts.get(built)), f"grammar-action:{what}",
                       f"anchor moved: no grammar action that takes one token and builds IDLType::{'('.join(built)}{')' * (len(built) - 1)} "
                       f"(the `{what}` type production)", ok_detail=f"{len(acts.get(built) or [])} action(s) build it from one token")
        chk.assume("LR tables and reducers of the generated parser are not in the fact files: that the production for keyword "
                   "token T builds the like-named IDLType constructor (Token::Opt -> OptT, Token::Vec -> VecT, ...) is assumed; "
                   "the printers' keywords are checked against the lexer's token of the same constructor name")
        lm = Leftmost([c, p])

        def close_back(s):
            """constructor name the parser gives the one-token type text s (TypeInner name), or a description of failure"""
            t = one_token(s)
            if isinstance(t, tuple) and t[0] == "Id":
                pt = prim_of.get(t[1])
                if pt is None:
                    return f"a type variable (`{s}` is not a primitive name)"
                return prim_to_ti.get(pt, f"PrimType::{pt} (no check_prim row)")
            if isinstance(t, tuple):
                return t[0]          # keyword token: Null, Principal, Blob, Opt ...
            return f"not one token ({t})"

        # ---- candid::pretty::candid::pp_ty_inner
        h = c.fn(r"pretty::candid::pp_ty_inner$")
        chk.analysed(h["key"])
        sc = Scopes(h)
        m = the_match(h, r"TypeInner$", 20)
        seen = set()
        for r in arm_rows(m):
            heads = [hd[0] for hd in r["heads"] if isinstance(hd[0], str) and hd[0].startswith(TI)]
            for hd in heads:
                X = hd[len(TI):]
                first = lm.of(r["body"], sc)
                where = f"{h['span']['file']}:{r['ln']}"
                if X in prim_to_ti.values() or X == "Principal":
                    seen.add(X)
                    back = {s: close_back(s) for s in first}
                    chk.expect(len(first) == 1 and set(back.values()) == {X}, f"prim:pp_ty_inner:{X}",
                               f"pp_ty_inner prints TypeInner::{X} as {sorted(first)}, which the lexer and "
                               f"PrimType::str_to_enum/check_prim read back as {sorted(back.values())}", where,
                               ok_detail=f"{sorted(first)[0]!r} -> {X}")
                elif X in COMPOSITE_TOKEN:
                    if r["guard"] is not None:
                        continue     # the blob shorthand is judged by R3
                    seen.add(X)
                    toks = {s: one_token(s) for s in first}
                    ok = len(first) == 1 and all(isinstance(t, tuple) and t[0] == COMPOSITE_TOKEN[X] for t in toks.values())
                    chk.expect(ok, f"ctor:pp_ty_inner:{X}",
                               f"pp_ty_inner starts TypeInner::{X} with {sorted(first)}, which lexes as {list(toks.values())}; the grammar "
                               f"expects the keyword token Token::{COMPOSITE_TOKEN[X]}", where, ok_detail=f"{sorted(first)[0]!r} -> Token::{COMPOSITE_TOKEN[X]}")
        for X in sorted((set(prim_to_ti.values()) | set(COMPOSITE_TOKEN)) - seen):
            chk.bad(f"prim:pp_ty_inner:{X}", f"pp_ty_inner has no explicit arm for TypeInner::{X}")
        # ---- candid_parser::syntax::pretty::pp_ty
        h = p.fn(r"syntax::pretty::pp_ty$")
        chk.analysed(h["key"])
        sc = Scopes(h)
        m = the_match(h, r"IDLType$", 10)
        seen = set()
        SYN = {"OptT": "Opt", "VecT": "Vec", "RecordT": "Record", "VariantT": "Variant", "FuncT": "Func", "ServT": "Service",
               "PrincipalT": "Principal"}
        for a in m["arms"]:
            where = f"{h['span']['file']}:{a.get('ln')}"
            for alt in pat_alternatives(a["pat"]):
                hd = pat_head(alt)
                if not (isinstance(hd, str) and hd.startswith(IT)):
                    continue
                X = hd[len(IT):]
                first = lm.of(a["body"], sc)
                if X == "PrimT":
                    subs = [v[len(PT):] for v in pat_variants(alt) if isinstance(v, str) and v.startswith(PT)]
                    if len(subs) != 1:
                        continue            # PrimT(_) wildcard: R4 reports missing rows
                    Y = subs[0]
                    seen.add("PrimT:" + Y)
                    back = {}
                    for s in first:
                        t = one_token(s)
                        if isinstance(t, tuple) and t[0] == "Id":
                            back[s] = prim_of.get(t[1], f"type variable `{t[1]}`")
                        elif isinstance(t, tuple):
                            back[s] = t[0]
                        else:
                            back[s] = f"not one token ({t})"
                    chk.expect(len(first) == 1 and set(back.values()) == {Y}, f"prim:syntax::pp_ty:{Y}",
                               f"syntax::pretty::pp_ty prints PrimType::{Y} as {sorted(first)}, which the lexer and "
                               f"PrimType::str_to_enum read back as {sorted(back.values())}", where, ok_detail=f"{sorted(first)[0]!r} -> {Y}")
                elif X in SYN:
                    seen.add(X)
                    toks = {s: one_token(s) for s in first}
                    want = {SYN[X]} | ({"Blob"} if X == "VecT" else set())
                    got = {t[0] if isinstance(t, tuple) else str(t) for t in toks.values()}
                    chk.expect(bool(first) and got <= want and SYN[X] in got, f"ctor:syntax::pp_ty:{X}",
                               f"syntax::pretty::pp_ty starts IDLType::{X} with {sorted(first)}, which lexes as {sorted(got)}; the grammar "
                               f"expects Token::{SYN[X]}", where, ok_detail=f"{sorted(first)} -> {sorted(got)}")
        for Y in prims:
            if "PrimT:" + Y not in seen:
                chk.bad(f"prim:syntax::pp_ty:{Y}", f"syntax::pretty::pp_ty has no explicit arm for PrimT(PrimType::{Y})")
        for X in sorted(set(SYN) - seen):
            chk.bad(f"ctor:syntax::pp_ty:{X}", f"syntax::pretty::pp_ty has no explicit arm for IDLType::{X}")
        # ---- function annotations
        h = c.fn(r"pretty::candid::pp_mode$")
        chk.analysed(h["key"])
        sc = Scopes(h)
        n_modes = 0
        for r in arm_rows(the_match(h, r"FuncMode$", 2)):
            for hd in r["heads"]:
                if isinstance(hd[0], str) and hd[0].startswith(FM):
                    X = hd[0][len(FM):]
                    n_modes += 1
                    first = lm.of(r["body"], sc)
                    toks = [one_token(s) for s in first]
                    chk.expect(len(first) == 1 and all(isinstance(t, tuple) and t[0] == X for t in toks), f"mode:{X}",
                               f"pp_mode prints FuncMode::{X} as {sorted(first)}, which lexes as {toks}; the grammar's FuncMode "
                               f"production expects Token::{X}", f"{h['span']['file']}:{r['ln']}", ok_detail=f"{sorted(first)[0]!r} -> Token::{X}")
        chk.floor("FuncMode arms in pp_mode", n_modes, 3)
        # ---- every punctuation / keyword literal of the type printers is lexable
        lits = {}
        for crate, g in type_printer_fns():
            for n in walk(g["body"]):
                if n.get("k") == "call" and (re.search(DOC_CTORS, callee(n) or "") or re.search(ENCLOSERS, callee(n) or "")
                                               or re.search(r"pretty::utils::(concat|strict_concat)$", callee(n) or "")):
                    for a in n["args"]:
                        v = lit_value(a)
                        if isinstance(v, str) and not is_comment_prefix(v):
                            lits.setdefault(v, fshort(g))
                elif n.get("k") == "mcall" and n["m"] == "append" and n.get("args"):
                    v = lit_value(n["args"][0])
                    if isinstance(v, str):
                        lits.setdefault(v, fshort(g))
        for v, where in sorted(lits.items()):
            try:
                toks = model.tokenize(v)
                bad = [t for t in toks if t[0] in ("Id", "Text", "Decimal", "Hex", "Float", "Boolean", "Sign")
                       and not (t[0] == "Id" and t[1] in prim_of) and v.strip() not in ("unknown", "future")]
                err = None
            except LexError as e:
                toks, bad, err = None, None, e
            chk.expect(err is None and not bad, f"literal:{v.strip() or repr(v)}",
                       f"{where} prints the fixed text {v!r}, which the lexer reads as {err or toks}: not a sequence of "
                       f"keyword/punctuation tokens", ok_detail=f"{[t[0] for t in toks] if toks is not None else None}")
        chk.floor("fixed keyword/punctuation texts in the type printers", len(lits), 30)

    def is_comment_prefix(v):
        return v.startswith("//")

    # ------------------------------------------------------------------------------------------------ R2
    def r2():
        model, info = lexer()
        words, problems = reserved_words(model)
        for name, pat in problems:
            chk.bad(f"token-overlap:{name}", f"lexer rule Token::{name} /{pat}/ overlaps the identifier regex with an infinite "
                                             f"language: reserved words cannot be enumerated")
        chk.floor("identifier-shaped lexer tokens", len(words), 14)
        kws, kh = keywords_table(c)
        chk.analysed(kh["key"])
        for w in words:
            chk.expect(w in kws, f"keyword:{w}",
                       f"`{w}` is lexed as a keyword token and is missing from KEYWORDS in pretty/candid.rs: a field, method or "
                       f"argument named `{w}` is printed unquoted in the .did text and does not re-parse as a name",
                       f"{kh['span']['file']}:{kh['span']['lo']}", ok_detail="in KEYWORDS")
        probs, keys = check_quoting_chain(c)
        chk.analysed(*keys)
        sem, sem_detail = check_quoting_semantic(c, model, words)
        chk.analysed(c.fn(r"pretty::candid::ident_string$")["key"])
        if sem == "bad":
            chk.bad("quoting-chain", sem_detail)
        elif sem == "ok":
            chk.ok("quoting-chain", sem_detail + ("" if not probs else f" (shape differs from the reference: {probs})"))
        else:
            for pr in probs:
                chk.bad("quoting-chain", f"anchor moved: {pr} (and ident_string is not evaluable: {sem_detail})")
            if not probs:
                chk.ok("quoting-chain", "pp_text -> ident_string quotes iff !is_valid_as_id || is_keyword")
        # definition names are printed bare (the positions below), so every producer of a definition name must stay inside the lexer's
        # identifier alphabet.  Names from parsed programs were lexed as identifiers; names of exported Rust types are made by
        # TypeName::get, whose per-character map is evaluated here on ASCII and non-ASCII letters, digits and punctuation.
        from c11_util import Interp as _Interp, NotEvaluable as _NE2, RChar as _RChar
        tn = c.fn(r"^candid::types::internal::TypeName::get$")
        chk.analysed(tn["key"])
        maps = [x for x in walk(tn["body"]) if x.get("k") == "mcall" and x["m"] == "map" and x.get("args") and x["args"][0].get("k") == "closure"
                and "char" in str((x["args"][0].get("params") or [{}])[0].get("ty") or "")]
        if len(maps) != 1:
            raise AnchorMissing("TypeName::get: the per-character sanitising `.chars().map(|c| ..)` was not found")
        try:
            it_ = _Interp(c)
            badc = None
            for ch in "azAZ09_-<>:, .'\"éßöЖ日٣²ª\u00a0":
                out_ = it_.apply(("closure", maps[0]["args"][0], {}), _RChar(ch))
                if not (isinstance(out_, str) and len(out_) == 1 and re.fullmatch(r"[A-Za-z0-9_]", out_)) and badc is None:
                    badc = (ch, out_)
            chk.expect(badc is None, "export-name:ascii-identifier-alphabet",
                       f"TypeName::get keeps the character {badc and badc[0]!r} (maps it to {badc and badc[1]!r}) in the name of an exported definition: "
                       f"definition names are printed without quotes, and the lexer's identifiers are [A-Za-z_][A-Za-z0-9_]* — the exported .did "
                       f"text would not parse", where=f"{tn['span']['file']}:{maps[0].get('ln')}",
                       ok_detail="every sample character is kept only if it is in [A-Za-z0-9], otherwise replaced by `_`")
        except _NE2 as e_:
            raise AnchorMissing(f"TypeName::get: the sanitising closure is outside the evaluable fragment: {e_}")
        # ... and the name made up for the second, third, … Rust type of one name (`format!("{name}_{v}")`) must itself be looked up in, or
        # registered with, the table of names in use: otherwise it can coincide with the name of another exported type (`A`, `A`, `A_1`).
        fmts = [x for x in walk(tn["body"]) if x.get("k") == "call" and (callee(x) or "").endswith("alloc::fmt::format")]
        if not fmts:
            chk.ok("export-name:disambiguated-name-is-fresh", "no made-up name (no format! in TypeName::get)", nontrivial=False)
        else:
            def mentions(e_, names):
                return any((y.get("k") == "call" and (callee(y) or "").endswith("alloc::fmt::format")) or
                           (y.get("k") == "path" and (y.get("res") or {}).get("kind") == "Local" and y["res"]["path"] in names) for y in walk(e_))
            tainted = set()
            grew = True
            while grew:
                grew = False
                for st in nodes(tn["body"], "slet"):
                    nm = st["pat"].get("n") if st["pat"].get("k") == "bind" else None
                    if nm and nm not in tainted and st.get("init") is not None and mentions(st["init"], tainted):
                        tainted.add(nm)
                        grew = True
                for st in nodes(tn["body"], "assign"):
                    tgt = unblock(st["a"])
                    nm = tgt["res"]["path"] if tgt.get("k") == "path" and (tgt.get("res") or {}).get("kind") == "Local" else None
                    if nm and nm not in tainted and mentions(st["b"], tainted):
                        tainted.add(nm)
                        grew = True
            consulted = [x for x in walk(tn["body"]) if x.get("k") == "mcall" and x["m"] in ("contains_key", "get", "get_mut", "entry", "insert", "contains")
                         and (expr_path(x["recv"]) or "").startswith("self.") and x.get("args") and mentions(x["args"][0], tainted)]
            looked_up = [x for x in consulted if x["m"] in ("contains_key", "get", "get_mut", "entry", "contains")]
            entered = [x for x in consulted if x["m"] in ("insert", "entry")]
            chk.expect(bool(looked_up) and bool(entered), "export-name:disambiguated-name-is-fresh",
                       "TypeName::get makes up `<name>_<n>` for a further Rust type of the same name but does not both look that string up in and enter it "
                       "into its table of names: with Rust types `m1::A`, `m2::A` and `A_1` the second `A` and `A_1` are both exported as `A_1`, one "
                       "definition overwrites the other and the exported interface is not the program's",
                       where=f"{tn['span']['file']}:{fmts[0].get('ln')}",
                       ok_detail=f"the made-up name is checked against / entered into {sorted({expr_path(x['recv']) for x in consulted})}")
        # names in the document: quoted through pp_text, or a type identifier at one of the known positions
        ALLOWED_RAW = {("pp_ty_inner", TI + "Var"), ("pp_class", TI + "Var"), ("pp_defs_plain", "closure"), ("pp_defs", "closure"),
                       ("pp_docs", "closure"), ("syntax::pp_ty", IT + "VarT"), ("syntax::pp_class", IT + "VarT"),
                       ("syntax::pp_defs", "closure"), ("pp_ty_inner", TI + "Knot")}
        n_quoted = 0
        n_raw = 0
        used = {}
        for crate, h in type_printer_fns():
            sc = Scopes(h)
            fs = fshort(h)
            if fs in ("ident_string", "pp_text"):
                continue
            for n in walk(h["body"]):
                arg = None
                sink = None
                if n.get("k") == "call" and re.search(DOC_CTORS, callee(n) or "") and n.get("args"):
                    arg, sink = n["args"][0], short(callee(n))
                elif n.get("k") == "mcall" and n["m"] == "append" and n.get("args") and is_str_ty(n["args"][0].get("ty") or ""):
                    arg, sink = n["args"][0], "append"
                elif n.get("k") == "call" and re.search(r"pretty::candid::(pp_text|ident_string)$", callee(n) or ""):
                    n_quoted += 1
                    continue
                if arg is None:
                    continue
                aty = strip_ty(arg.get("ty") or "")
                if aty.endswith("internal::Label") or (n.get("k") == "call" and any(strip_ty(g).endswith("internal::Label") for g in (n.get("ga") or []))):
                    continue        # numeric labels through Display for Label: judged by C11.R2 (label-display)
                org, desc = origin_of(arg, sc)
                if org == "literal":
                    continue
                if org == "format":
                    # format!("{id}") of a Knot TypeId and the like: judged by the binding inside
                    continue
                n_raw += 1
                key = f"raw-name:{fs}:{short(org) if '::' in org else org}:{sink}"
                used[key] = used.get(key, 0) + 1
                if used[key] > 1:
                    key += f"~{used[key]}"
                chk.expect((fs, org) in ALLOWED_RAW, key,
                           f"{fs}: {desc} is put into the document by {sink}(..) without pp_text: a label, method or argument name "
                           f"that is a keyword or not an identifier would be printed unquoted (only type identifiers at the known "
                           f"positions may be printed raw)", f"{h['span']['file']}:{n.get('ln')}", ok_detail=f"known raw position ({desc})")
        chk.floor("names printed through pp_text/ident_string in the type printers", n_quoted, 4)
        chk.floor("type identifiers printed raw at known positions", n_raw, 6)
        chk.assume("type identifiers (TypeInner::Var, IDLType::VarT, keys of TypeEnv, Binding ids of type definitions) are "
                   "identifier tokens: they come from the grammar's \"id\" terminal or from TypeContainer's sanitised Rust names")

    def origin_of(e, sc):
        """('literal' | 'format' | constructor path | 'closure' | 'param' | 'let' | 'unknown', description)"""
        e = unblock(e)
        while e.get("k") == "ref" or (e.get("k") == "un" and e.get("op") == "Deref") or \
                (e.get("k") == "mcall" and e["m"] in ("as_str", "as_ref", "clone", "to_string", "to_owned", "deref")):
            e = unblock(e["e"] if e.get("k") == "ref" else (e["a"] if e.get("k") == "un" else e["recv"]))
        k = e.get("k")
        if k == "lit":
            return "literal", None
        if k == "call" and ((callee(e) or "").endswith("hint::must_use") or (callee(e) or "").endswith("alloc::fmt::format")):
            return "format", None
        if k == "field":
            o, d = origin_of(e["e"], sc)
            return o, f"{d}.{e['n']}"
        if k == "path":
            r = e.get("res") or {}
            if r.get("kind") == "Local":
                b = sc.use.get(id(e))
                if b is None:
                    return "unknown", f"`{r['path']}`"
                if b.get("init") is not None:
                    return origin_of(b["init"], sc)
                return b["origin"], f"`{r['path']}` ({short(b['origin']) if '::' in (b['origin'] or '') else b['origin']} binding)"
            return "unknown", f"{r.get('path')}"
        return "unknown", f"expression {k}"

    # ------------------------------------------------------------------------------------------------ R3
    def r3():
        # (a) is_tuple: every field id equals its position
        for crate, rx, name, ctor, fld in ((c, r"internal::TypeInner::is_tuple$", "TypeInner::is_tuple", TI + "Record", "id"),
                                           (p, r"syntax::IDLType::is_tuple$", "IDLType::is_tuple", IT + "RecordT", "label"),
                                           (c, r"pretty::candid::value::is_tuple$", "value::is_tuple", IV + "Record", "id")):
            h = crate.fn(rx)
            chk.analysed(h["key"])
            ok, why = is_tuple_shape(h, ctor, crate, fld)
            chk.expect(ok, f"is_tuple:{name}",
                       f"{name} is not `the field ids are exactly 0, 1, .., n-1 in order` ({why}): the tuple shorthand would drop "
                       f"labels that the grammar's numbering does not re-create",
                       f"{h['span']['file']}:{h['span']['lo']}", ok_detail="true exactly for ids 0..n-1 (30 id sequences over {0..3}, Id and Unnamed)")
        # (a'') a field is printed without its label (the positional shorthand `record { nat; text }`) only on behalf of a *record*: the
        #       grammar re-creates ids 0..n-1 for unlabelled record fields, while an unlabelled variant field `variant { nat }` is the tag `nat`
        def positional_sites(g):
            out = []
            for x in walk(g["body"]):
                if x.get("k") == "mcall" and x["m"] == "map" and x.get("args") and x["args"][0].get("k") == "closure":
                    cl = x["args"][0]
                    body = unblock(cl["body"])
                    fields_used = {y["n"] for y in walk(body) if y.get("k") == "field" and ("Field" in str(y.get("bty") or ""))}
                    prints_ty = body.get("k") == "call" and re.search(r"pretty::candid::pp_ty\w*$", callee(body) or "")
                    if prints_ty and fields_used == {"ty"}:
                        out.append(x)
            return out

        def record_only(g, node, depth=0):
            """is `node` (inside function g) reached only on behalf of a Record?"""
            arms = [(m, a) for m in nodes(g["body"], "match") if m.get("src") == "Normal" and "TypeInner" in str(m.get("sty"))
                    for a in m["arms"] if any(y is node for y in walk(a["body"]))]
            if arms:
                return all(set(v.rsplit("::", 1)[-1] for v in pat_variants(a["pat"]) if "TypeInner::" in v) == {"Record"} for _m, a in arms)
            if depth >= 2:
                return False
            callers = []
            for k2, g2 in c.hir.items():
                if not k2.startswith("candid::pretty::candid::") or "value::" in k2:
                    continue
                for y in walk(g2["body"]):
                    if y.get("k") == "call" and callee(y) == g["key"]:
                        callers.append((g2, y))
            return bool(callers) and all(record_only(g2, y, depth + 1) for g2, y in callers)
        nsites = 0
        for k2, g in sorted(c.hir.items()):
            if not k2.startswith("candid::pretty::candid::") or "::value::" in k2 or g.get("kind") not in ("Fn", "AssocFn"):
                continue
            for site in positional_sites(g):
                nsites += 1
                chk.expect(record_only(g, site), f"positional-shorthand:only-for-records:{fshort(g)}",
                           f"{k2} prints fields without their labels (`fs.iter().map(|f| pp_ty(&f.ty))`) on a path that is not confined to `TypeInner::Record`: "
                           f"`variant {{ 0 : nat; 1 : text }}` is then printed as `variant {{ nat; text }}`, which re-checks as the tags `nat` and `text`",
                           where=f"{g['span']['file']}:{site.get('ln')}", ok_detail="inside / called only from the Record arm")
        chk.floor("positional (label-less) field printing sites in the type printer", nsites, 2)
        # Debug for IDLValue::Record elides a label exactly when its id equals the position
        h = c.fn(r"Debug for candid::types::value::IDLValue>::fmt$")
        rows = [r for r in arm_rows(the_match(h, r"IDLValue$", 20)) if any(hd[0] == IV + "Record" for hd in r["heads"])]
        if len(rows) != 1:
            raise AnchorMissing("Debug for IDLValue: Record arm not found")
        ok, why = elision_shape(rows[0]["body"])
        chk.expect(ok, "is_tuple:Debug<IDLValue>::Record",
                   f"Debug for IDLValue::Record must omit a label exactly when `e.id.get_id() == i` over `fs.iter().enumerate()` ({why})",
                   f"{h['span']['file']}:{rows[0]['ln']}", ok_detail="label omitted iff id == position")
        # (a') a service constructor keeps its `(args) ->`, also when the argument list is empty: `service : () -> {..}` is a Class and
        #      re-reads as a Class only with the arrow; both printers must print it unconditionally in pp_class
        for crate_, key_re in ((c, r"^candid::pretty::candid::pp_class$"), (p, r"^candid_parser::syntax::pretty::pp_class$")):
            g = crate_.fn(key_re)
            chk.analysed(g["key"])
            arrows = [x for x in walk(g["body"]) if x.get("k") == "lit" and isinstance(x["v"].get("str"), str) and "->" in x["v"]["str"]]
            cond = []
            for x in arrows:
                under = [i for i in nodes(g["body"], "if") if any(y is x for y in walk(i["t"])) or (i.get("e") and any(y is x for y in walk(i["e"])))]
                under += [m for m in nodes(g["body"], "match") if m.get("src") == "Normal" and any(any(y is x for y in walk(a["body"])) for a in m["arms"])
                          and not all(any(isinstance(z, dict) and z.get("k") == "lit" and "->" in str(z["v"].get("str")) for z in walk(a["body"])) or panics_in(a["body"]) for a in m["arms"])]
                if under:
                    cond.append(x)
            chk.expect(bool(arrows) and not cond, f"class-arrow:{g['key'].split('::')[0]}",
                       f"{g['key']} prints the `->` of a service constructor only under a condition (or not at all): a constructor with an empty "
                       f"argument list would be printed as a plain service and re-read as a different actor type",
                       where=f"{g['span']['file']}:{(cond or arrows or [{}])[0].get('ln')}", ok_detail="`(args) ->` printed on every path")
        # (b) the grammar numbers unnamed fields from 0, step 1, restarting after an explicit id
        n_rec = 0
        for k, g in sorted(p.hir.items()):
            if not re.search(r"grammar::__action\d+$", k):
                continue
            builds = set(variant_paths(g["body"], IT)) | {("V:" + v) for v in variant_paths(g["body"], IV)}
            has_unnamed = any(v == LB + "Unnamed" for a in nodes(g["body"], "match") for arm in a["arms"] for v in pat_variants(arm["pat"]))
            if not has_unnamed or not ({"RecordT", "V:Record"} & builds):
                continue
            n_rec += 1
            what = "type" if "RecordT" in builds else "value"
            chk.analysed(k)
            ok, why = numbering_shape(g)
            chk.expect(ok, f"grammar-numbering:{what}",
                       f"the grammar's record {what} action no longer numbers unnamed fields `0, 1, 2, ..` restarting at id+1 after an "
                       f"explicit label ({why}): tuple-shorthand output would be re-read with other field ids",
                       ok_detail="start 0, unnamed = counter then counter+1, explicit id resets counter to id+1")
        chk.floor("grammar record actions with unnamed-field numbering", n_rec, 2)
        # (c) blob <=> vec nat8
        h = c.fn(r"pretty::candid::pp_ty_inner$")
        m = the_match(h, r"TypeInner$", 20)
        rows = arm_rows(m)
        vec_rows = [r for r in rows if any(hd[0] == TI + "Vec" for hd in r["heads"])]
        lm = Leftmost([c, p])
        sc = Scopes(h)
        ok = False
        why = "no guarded Vec arm"
        if len(vec_rows) == 2 and vec_rows[0]["guard"] is not None and vec_rows[1]["guard"] is None:
            gh = guard_heads(vec_rows[0]["guard"])
            if not gh:
                raise AnchorMissing("pp_ty_inner: the guard of the `blob` arm is not a `matches!(t.as_ref(), <pattern>)`")
            ok = gh == {TI + "Nat8"} and lm.of(vec_rows[0]["body"], sc) == {"blob"}
            why = f"guard accepts {sorted(short(x) for x in gh)}, prints {sorted(lm.of(vec_rows[0]['body'], sc))}"
        chk.expect(ok, "blob:pp_ty_inner", f"pp_ty_inner must print `blob` exactly for Vec(t) with t = Nat8 and `vec t` otherwise ({why})",
                   f"{h['span']['file']}:{vec_rows[0]['ln'] if vec_rows else h['span']['lo']}", ok_detail="Vec(Nat8) -> blob, other Vec -> vec")
        h = p.fn(r"syntax::pretty::pp_vec$")
        chk.analysed(h["key"])
        ifs = [n for n in nodes(h["body"], "if")]
        ok = False
        why = "no if"
        if len(ifs) == 1:
            gh = guard_heads(ifs[0]["c"])
            if not gh:
                raise AnchorMissing("syntax::pretty::pp_vec: the `blob` condition is not a `matches!(ty, <pattern>)`")
            t_first = lm.of(ifs[0]["t"], Scopes(h))
            e_first = lm.of(ifs[0]["e"], Scopes(h)) if ifs[0].get("e") else set()
            ok = gh == {IT + "PrimT", PT + "Nat8"} and t_first == {"blob"} and e_first == {"vec"}
            why = f"condition matches {sorted(short(x) for x in gh)}; then {sorted(t_first)}, else {sorted(e_first)}"
        chk.expect(ok, "blob:syntax::pp_vec", f"syntax::pretty::pp_vec must print `blob` exactly for PrimT(Nat8) and `vec t` otherwise ({why})",
                   f"{h['span']['file']}:{h['span']['lo']}", ok_detail="VecT(PrimT(Nat8)) -> blob, other -> vec")
        # (d) variant-null shorthand only for variants
        elision_fns = {}
        n_elide = 0
        for crate, h in type_printer_fns() + [(c, c.fn(r"pretty::candid::value::pp_field$"))]:
            for n in nodes(h["body"], "if"):
                t = peel(unblock(n["t"]))
                if not (isinstance(t, dict) and t.get("k") == "call" and re.search(r"RcDoc(::<[^>]*>)?::nil$", callee(t) or "")):
                    continue
                nulls = [v for v in (variant_paths(n["c"], TI) + variant_paths(n["c"], PT) + variant_paths(n["c"], IV)) if v == "Null"]
                if not nulls:
                    continue
                n_elide += 1
                # the condition must be `<bool parameter> && <.. == Null>`
                cond = unblock(n["c"])
                params = {q["n"]: i for i, q in enumerate(h["params"]) if q.get("k") == "bind" and q.get("ty") == "bool"}
                conj = conjuncts(cond)
                flag = [x for x in conj if x.get("k") == "path" and (x.get("res") or {}).get("kind") == "Local"
                        and x["res"]["path"] in params]
                key = f"null-shorthand:{fshort(h) if not h['key'].startswith(VALUE_MOD) else 'value::' + h['name']}"
                chk.expect(len(flag) == 1 and len(conj) == 2, key,
                           f"{h['key']}: the `: null` / `= null` part is dropped under the condition {describe(cond)}, which is not "
                           f"`is_variant && <type is null>`: record fields of type null would be printed without their type and "
                           f"re-read as something else", f"{h['span']['file']}:{n.get('ln')}",
                           ok_detail="dropped only if the bool parameter holds and the type is null")
                if len(flag) == 1:
                    elision_fns[h["key"]] = (h, params[flag[0]["res"]["path"]])
        chk.floor("printers with the variant-null shorthand", n_elide, 4)
        # every chain of callers passes `true` only under a Variant constructor
        all_fns = {h["key"]: (crate, h) for crate, h in type_printer_fns()}
        for k, h in c.hir.items():
            if k.startswith(VALUE_MOD) and h.get("kind") in ("Fn", "AssocFn"):
                all_fns[k] = (c, h)
        VARIANT_CTX = {"Variant", "VariantT"}

        def ctx_of_call(h, node, seen):
            """set of constructor contexts under which `node` (inside h) is evaluated"""
            sc = Scopes(h)
            ctx = sc.ctx.get(id(node), "")
            names = set(ctx.split("|")) if ctx else set()
            known = names & {"Variant", "VariantT", "Record", "RecordT"}
            if known:
                return known
            # inherit from the callers of h
            out = set()
            callers = [(g, n) for _, g in all_fns.values() for n in walk(g["body"])
                       if n.get("k") == "call" and callee(n) == h["key"]]
            if not callers or h["key"] in seen:
                return {"<entry>"}
            for g, n in callers:
                out |= ctx_of_call(g, n, seen | {h["key"]})
            return out

        def flag_values(h, idx, seen):
            """[(value, contexts, where)] of the bool argument at position idx over all transitive call sites"""
            out = []
            for _, g in all_fns.values():
                gsc = None
                for n in walk(g["body"]):
                    if n.get("k") == "call" and callee(n) == h["key"] and len(n["args"]) > idx:
                        a = unblock(n["args"][idx])
                        v = lit_value(a)
                        where = f"{g['span']['file']}:{n.get('ln')}"
                        if isinstance(v, bool):
                            out.append((v, ctx_of_call(g, n, set()), where, g))
                        elif a.get("k") == "path" and (a.get("res") or {}).get("kind") == "Local":
                            gp = {q["n"]: i for i, q in enumerate(g["params"]) if q.get("k") == "bind" and q.get("ty") == "bool"}
                            if a["res"]["path"] in gp and g["key"] not in seen:
                                out.extend(flag_values(g, gp[a["res"]["path"]], seen | {g["key"]}))
                            else:
                                out.append((None, {"<?>"}, where, g))
                        else:
                            out.append((None, {"<?>"}, where, g))
            return out

        n_sites = 0
        for k, (h, idx) in sorted(elision_fns.items()):
            for v, ctxs, where, g in flag_values(h, idx, {k}):
                n_sites += 1
                name = (fshort(g) if not g["key"].startswith(VALUE_MOD) else "value::" + g["name"])
                key = f"null-shorthand-call:{name}:{'true' if v else ('false' if v is False else 'dynamic')}"
                if v is False:
                    chk.ok(key, "shorthand disabled", nontrivial=False)
                else:
                    chk.expect(v is True and ctxs <= VARIANT_CTX, key,
                               f"{name} enables the null shorthand (is_variant = {v}) in a position reached under {sorted(ctxs)}: "
                               f"only variant fields may omit `: null`; the grammar reads a bare record field as an unnamed field whose "
                               f"type is the label", where, ok_detail=f"only under {sorted(ctxs)}")
        chk.floor("call sites fixing is_variant", n_sites, 6)

    def conjuncts(e):
        e = unblock(e)
        if e.get("k") == "bin" and e.get("op") == "And":
            return conjuncts(e["a"]) + conjuncts(e["b"])
        return [e]

    def describe(e):
        e = unblock(e)
        k = e.get("k")
        if k == "bin":
            return f"({describe(e['a'])} {e['op']} {describe(e['b'])})"
        if k == "path":
            return short((e.get("res") or {}).get("path", "?"))
        if k == "un":
            return f"{e['op']}({describe(e['a'])})"
        if k == "field":
            return f"{describe(e['e'])}.{e['n']}"
        if k == "call":
            return f"{short(callee(e) or '?')}(..)"
        if k == "mcall":
            return f"{describe(e['recv'])}.{e['m']}(..)"
        return k or "?"

    def guard_heads(g):
        """constructor paths accepted by a `matches!(x, P)` guard/condition (all paths of the `true` arm's pattern)"""
        for m in nodes(g, "match"):
            if len(m["arms"]) == 2 and lit_value(m["arms"][0]["body"]) is True and lit_value(m["arms"][1]["body"]) is False:
                return {v for v in pat_variants(m["arms"][0]["pat"]) if isinstance(v, str)}
        return set()

    def enumerate_loop(body):
        """(index name, element name, loop body) of `for (i, x) in <..>.iter().enumerate()` found under body"""
        for m in nodes(body, "match"):
            if m.get("src") != "ForLoopDesugar":
                continue
            sc = m["scrut"]
            if not (sc.get("k") == "call" and (callee(sc) or "").endswith("into_iter")):
                continue
            it = unblock(sc["args"][0])
            if not (it.get("k") == "mcall" and it["m"] == "enumerate" and unblock(it["recv"]).get("k") == "mcall"
                    and unblock(it["recv"])["m"] in ("iter", "into_iter")):
                continue
            for inner in nodes(m["arms"][0]["body"], "match"):
                if inner.get("src") != "ForLoopDesugar":
                    continue
                for a in inner["arms"]:
                    tups = [t for t in walk(a["pat"]) if t.get("k") == "tuple" and len(t.get("subs", [])) == 2]
                    if tups and all(s_.get("k") == "bind" for s_ in tups[0]["subs"]):
                        return tups[0]["subs"][0]["n"], tups[0]["subs"][1]["n"], a["body"]
        return None

    def id_vs_index(cond, iname, xname):
        """'Eq' / 'Ne' if cond compares `<x>.<field>.get_id()` with `i as u32`, else None"""
        cond = unblock(cond)
        if cond.get("k") != "bin" or cond.get("op") not in ("Eq", "Ne"):
            return None
        sides = [unblock(cond["a"]), unblock(cond["b"])]
        ids = [s_ for s_ in sides if s_.get("k") == "mcall" and s_["m"] == "get_id"]
        idx = [s_ for s_ in sides if s_.get("k") in ("cast", "path")]
        if len(ids) != 1 or len(idx) != 1:
            return None
        r = peel(ids[0]["recv"])
        root = r
        while isinstance(root, dict) and root.get("k") == "field":
            root = peel(root["e"])
        if not (isinstance(root, dict) and root.get("k") == "path" and (root.get("res") or {}).get("path") == xname):
            return None
        i = idx[0]
        while i.get("k") == "cast":
            i = unblock(i["e"])
        if not (i.get("k") == "path" and (i.get("res") or {}).get("path") == iname):
            return None
        return cond["op"]

    def is_tuple_shape(h, ctor, crate, field_name):
        """decide is_tuple on every strictly increasing id sequence over {0..3} (length <= 3) and on non-records"""
        from itertools import combinations
        from c11_util import Interp, NotEvaluable
        interp = Interp(crate)
        OPQ = ("opaque",)

        def record(ids, kind):
            fs = [("struct", {field_name: ("enum", LB + kind, [i]), "ty": OPQ, "typ": OPQ, "val": OPQ, "docs": []}) for i in ids]
            return ("enum", ctor, [fs])
        try:
            for n in range(0, 4):
                for ids in combinations(range(4), n):
                    for kind in ("Id", "Unnamed"):
                        got = interp.call_fn(h, [record(ids, kind)])
                        want = list(ids) == list(range(n))
                        if got is not want:
                            return False, f"field ids {list(ids)} give {got}, expected {want}"
            other = ctor.rsplit("::", 1)[0] + "::" + ("Null" if not ctor.endswith("RecordT") else "PrincipalT")
            if interp.call_fn(h, [("enum", other, [])]) is not False:
                return False, "a non-record is reported as a tuple"
        except NotEvaluable as e:
            raise AnchorMissing(f"{h['key']} is outside the evaluable fragment: {e}")
        return True, ""

    def elision_shape(body):
        lp = enumerate_loop(body)
        if lp is None:
            return False, "no loop over fs.iter().enumerate()"
        iname, xname, lbody = lp
        ifs = nodes(lbody, "if")
        if len(ifs) != 1 or ifs[0].get("e") is None:
            return False, "loop body is not a single if/else"
        if id_vs_index(ifs[0]["c"], iname, xname) != "Eq":
            return False, "condition is not `e.id.get_id() == i as u32`"
        t_ph = [ph for fc in fmt_calls(ifs[0]["t"]) for ph in fc.placeholders()]
        e_ph = [ph for fc in fmt_calls(ifs[0]["e"]) for ph in fc.placeholders()]
        if len(t_ph) != 1 or len(e_ph) != 1:
            return False, "branches do not print exactly one thing each"
        if not strip_ty(t_ph[0].ty).endswith("IDLValue") or not strip_ty(e_ph[0].ty).endswith("IDLField"):
            return False, f"then prints {strip_ty(t_ph[0].ty)}, else prints {strip_ty(e_ph[0].ty)}"
        return True, ""

    def numbering_shape(g):
        body = g["body"]
        inits = [n for n in walk(body) if n.get("k") == "slet" and n["pat"].get("k") == "bind" and lit_value(n.get("init") or {}) == 0
                 and isinstance(lit_value(n.get("init") or {}), int) and not isinstance(lit_value(n.get("init") or {}), bool)]
        if len(inits) != 1:
            return False, f"{len(inits)} counters initialised to 0"
        cnt = inits[0]["pat"]["n"]
        ms = [m for m in nodes(body, "match") if any(LB + "Unnamed" in pat_variants(a["pat"]) for a in m["arms"])]
        if len(ms) != 1 or len(ms[0]["arms"]) != 2:
            return False, "no two-arm match on Label::Unnamed"
        un = [a for a in ms[0]["arms"] if LB + "Unnamed" in pat_variants(a["pat"])][0]
        ot = [a for a in ms[0]["arms"] if LB + "Unnamed" not in pat_variants(a["pat"])][0]

        def is_cnt(e):
            e = unblock(e)
            return e.get("k") == "path" and (e.get("res") or {}).get("path") == cnt

        CONV_CALLS = ("Try::branch", "TryFrom::try_from", "From::from", "Into::into", "TryInto::try_into", "Result::Ok",
                      "Option::Some")
        CONV_METHODS = {"map_err", "unwrap", "expect", "into", "try_into", "clone", "ok_or", "ok_or_else", "unwrap_or",
                        "unwrap_or_else", "unwrap_or_default", "to_owned", "min", "checked_add"}

        def sym(e, env):
            """symbolic value: ('cnt', k) = counter at arm entry + k, ('id', k) = explicit field id + k, ('const', v), None"""
            if not isinstance(e, dict):
                return None
            e = unblock(e)
            k = e.get("k")
            if k == "lit":
                v = lit_value(e)
                return ("const", v) if isinstance(v, int) and not isinstance(v, bool) else None
            if k == "path":
                return env.get((e.get("res") or {}).get("path"))
            if k in ("cast", "ref"):
                return sym(e["e"], env)
            if k == "un" and e.get("op") == "Deref":
                return sym(e["a"], env)
            if k == "bin" and e.get("op") in ("Add", "Sub"):
                a, b_ = sym(e["a"], env), sym(e["b"], env)
                if a and b_ and b_[0] == "const":
                    return (a[0], a[1] + (b_[1] if e["op"] == "Add" else -b_[1]))
                if a and b_ and a[0] == "const" and e["op"] == "Add":
                    return (b_[0], b_[1] + a[1])
                return None
            if k == "match" and e.get("src") == "TryDesugar":
                return sym(e["scrut"], env)
            if k == "call":
                cal = callee(e) or ""
                if any(cal.endswith(x) for x in CONV_CALLS) or re.search(r"::(try_from|from)$", cal):
                    return sym(e["args"][0], env) if e.get("args") else None
                return None
            if k == "mcall":
                if e["m"] == "get_id":
                    return ("id", 0)
                if e["m"] in CONV_METHODS:
                    return sym(e["recv"], env)
                return None
            return None

        def run_arm(body):
            env = {cnt: ("cnt", 0)}
            labels = []

            def visit(n):
                if isinstance(n, list):
                    for x in n:
                        visit(x)
                    return
                if not isinstance(n, dict):
                    return
                k = n.get("k")
                if k == "closure":
                    return
                if k == "slet":
                    if n.get("init") is not None:
                        visit(n["init"])
                        if n["pat"].get("k") == "bind":
                            env[n["pat"]["n"]] = sym(n["init"], env)
                    return
                if k == "assign" and is_cnt(n["a"]):
                    visit(n["b"])
                    env[cnt] = sym(n["b"], env)
                    return
                if k == "assignop" and is_cnt(n["a"]):
                    d = sym(n["b"], env)
                    cur = env.get(cnt)
                    op = str(n.get("op") or "")
                    if cur and d and d[0] == "const" and op.startswith(("Add", "Sub")):
                        env[cnt] = (cur[0], cur[1] + (d[1] if op.startswith("Add") else -d[1]))
                    else:
                        env[cnt] = None
                    return
                if k == "call" and callee(n) == LB + "Unnamed":
                    labels.append(sym(n["args"][0], env))
                    return
                for key, v in n.items():
                    if key in ("res", "callee", "v", "mac", "ga", "pat"):
                        continue
                    if isinstance(v, (dict, list)):
                        visit(v)
            visit(body)
            return env.get(cnt), labels

        end_u, labels_u = run_arm(un["body"])
        if labels_u != [("cnt", 0)] or end_u != ("cnt", 1):
            return False, (f"unnamed arm gives the label {labels_u} and leaves the counter at {end_u}; expected label = counter, "
                           f"counter + 1 afterwards")
        end_o, labels_o = run_arm(ot["body"])
        if labels_o or end_o != ("id", 1):
            return False, f"explicit-label arm leaves the counter at {end_o}; expected id + 1"
        return True, ""

    # ------------------------------------------------------------------------------------------------ R4
    def r4():
        # no wildcard arm in the two top-level printers; all variants named
        for crate, fn_re, sty, enum_re, pre, name in ((c, r"pretty::candid::pp_ty_inner$", r"TypeInner$", r"internal::TypeInner$", TI, "pp_ty_inner"),
                                                      (p, r"syntax::pretty::pp_ty$", r"IDLType$", r"syntax::IDLType$", IT, "syntax::pp_ty")):
            h = crate.fn(fn_re)
            chk.analysed(h["key"])
            m = the_match(h, sty, 10)
            variants = crate.enum_variants(enum_re)
            named = set()
            wild = []
            prim_named = set()
            for a in m["arms"]:
                for alt in pat_alternatives(a["pat"]):
                    hd = pat_head(alt)
                    if isinstance(hd, str) and hd.startswith(pre):
                        X = hd[len(pre):]
                        if X == "PrimT":
                            subs = [v[len(PT):] for v in pat_variants(alt) if isinstance(v, str) and v.startswith(PT)]
                            if subs:
                                prim_named.update(subs)
                                continue
                            wild.append(("PrimT(_)", a))
                            continue
                        named.add(X)
                    elif hd == "_":
                        wild.append(("_", a))
            for X in variants:
                if X == "PrimT":
                    for Y in p.enum_variants(r"syntax::PrimType$"):
                        chk.expect(Y in prim_named, f"total:{name}:PrimT({Y})",
                                   f"{name} has no explicit arm for PrimT(PrimType::{Y}); it falls into {[w for w, _ in wild]}",
                                   f"{h['span']['file']}:{h['span']['lo']}", ok_detail="explicit arm")
                    continue
                chk.expect(X in named, f"total:{name}:{X}",
                           f"{name} has no explicit arm for {short(pre[:-2])}::{X}; it falls into a wildcard arm {[w for w, _ in wild]}",
                           f"{h['span']['file']}:{h['span']['lo']}", ok_detail="explicit arm")
            for w, a in wild:
                chk.bad(f"wildcard:{name}:{w}", f"{name} has a wildcard arm `{w}`: a constructor added or forgotten is printed by the fallback "
                                                f"instead of being a compile error", f"{h['span']['file']}:{a.get('ln')}")
        # unreachable!/panic! sites: exactly the known positions, each handling at least the constructors a checked program has there
        EXPECT = {"pp_service": {"Func", "Var"}, "pp_class": {"Service", "Var"}, "pp_actor": {"Service", "Class", "Var"},
                  "syntax::pp_service_methods": {"FuncT", "VarT"}, "syntax::pp_class": {"ServT", "VarT"},
                  "syntax::pp_actor": {"ServT", "VarT", "ClassT"}}
        found = set()
        for crate, h in type_printer_fns():
            pans = panics_in(h["body"])
            if not pans:
                continue
            fs = fshort(h)
            # matches with a panicking wildcard arm
            sites = []
            for m in nodes(h["body"], "match"):
                if m.get("src") != "Normal":
                    continue
                for a in m["arms"]:
                    if panics_in(a["body"]) and not any(panics_in(x["body"]) for x in nodes(a["body"], "match") for x in x["arms"]):
                        handled = set()
                        for b in m["arms"]:
                            if b is a:
                                continue
                            for alt in pat_alternatives(b["pat"]):
                                hd = pat_head(alt)
                                if isinstance(hd, str):
                                    handled.add(short(hd))
                        sites.append((pat_head(a["pat"]), handled, a))
            n_arm_pan = sum(len(panics_in(a["body"])) for _, _, a in sites)
            if fs not in EXPECT or len(sites) != 1 or n_arm_pan != len(pans):
                chk.bad(f"panic:{fs}", f"{fs} contains {len(pans)} panic/unreachable site(s) {pans} outside the three known positions "
                                       f"(method type, class result, actor type): printing a checked program could panic",
                        f"{h['span']['file']}:{pans[0][1]}")
                continue
            hd, handled, a = sites[0]
            found.add(fs)
            chk.expect(hd == "_" and EXPECT[fs] <= handled, f"unreachable:{fs}",
                       f"{fs}: the unreachable! arm must be the wildcard after arms for {sorted(EXPECT[fs])}; found head {hd}, handled {sorted(handled)}",
                       f"{h['span']['file']}:{a.get('ln')}", ok_detail=f"handles {sorted(handled)}")
        for fs in sorted(set(EXPECT) - found):
            chk.bad(f"unreachable:{fs}", f"anchor moved: {fs} no longer has its unreachable! arm (table of known positions is stale)")

    # ------------------------------------------------------------------------------------------------ R5
    def r5():
        n = 0
        bad = 0
        for crate, pre in ((c, CPR), (c, "candid::pretty::utils::"), (p, SPR)):
            for b in crate.bodies.values():
                if not b.key.startswith(pre) or b.key.startswith(VALUE_MOD):
                    continue
                n += 1
                chk.analysed(b.key)
                sites = hash_iteration_sites(b)
                if sites:
                    bad += 1
                    chk.bad(f"hash-iter:{b.key}", f"{b.key} iterates a HashMap/HashSet ({sites[0][0]}): the printed .did text would depend on the hasher",
                            where=f"{b.span['file']}:{sites[0][1]}")
        if not bad:
            chk.ok("no-hash-iteration", f"{n} bodies of pretty/candid.rs, pretty/utils.rs and syntax/pretty.rs contain no HashMap/HashSet iteration")
        chk.floor("type-printer bodies scanned for unordered iteration", n, 60)
        te = c.item("struct", r"type_env::TypeEnv$")
        ty0 = te["variants"][0]["fields"][0]["ty"]
        chk.expect("btree::map::BTreeMap<" in ty0, "env-ordered", f"TypeEnv.0 must be an ordered map (pp_defs iterates it), found {ty0}",
                   ok_detail="BTreeMap")
        mp = p.item("struct", r"syntax::IDLMergedProg$")
        tys = {f["name"]: f["ty"] for f in mp["variants"][0]["fields"]}
        chk.expect(tys.get("typ_decs", "").startswith("alloc::vec::Vec<"), "decs-ordered",
                   f"IDLMergedProg.typ_decs must be an ordered sequence (syntax pp_defs iterates it), found {tys.get('typ_decs')}", ok_detail="Vec")
        dc = c.item("struct", r"pretty::candid::DocComments$")
        hm = [f["name"] for f in dc["variants"][0]["fields"] if "HashMap" in f["ty"]]
        # the HashMaps of DocComments are only looked up (get/insert) in the whole candid crate's printers
        chk.ok("doccomments-lookup-only", f"DocComments fields {hm} are hash maps; no body above iterates them")

    # ------------------------------------------------------------------------------------------------ R6
    def r6():
        h = c.fn(r"internal::TypeContainer::go$")
        chk.analysed(h["key"])
        m = the_match(h, r"TypeInner$", 5)
        en = c.item("enum", r"internal::TypeInner$")
        composite = {}
        for v in en["variants"]:
            n_types = sum(1 for f in v["fields"] if re.search(r"internal::(Type|Field|Function)\b", f["ty"]))
            if n_types or v["name"] == "Knot":
                composite[v["name"]] = v
        chk.floor("TypeInner constructors that contain types", len(composite), 8)
        rows = arm_rows(m)
        handled = {}
        for r in rows:
            for hd in r["heads"]:
                if isinstance(hd[0], str) and hd[0].startswith(TI):
                    handled[hd[0][len(TI):]] = r
        NEED_GO = {"Opt": 1, "Vec": 1, "Record": 1, "Variant": 1, "Func": 2, "Service": 1, "Class": 2}
        for X in sorted(composite):
            r = handled.get(X)
            where = f"{h['span']['file']}:{r['ln'] if r else h['span']['lo']}"
            if r is None:
                chk.bad(f"go:{X}", f"TypeContainer::go has no arm for TypeInner::{X}: it is cloned as is by the fallback arm, so nested "
                                   f"Knot/record types below it are never named or registered in env", where)
                continue
            gos = [n for n in walk(r["body"]) if n.get("k") == "mcall" and n["m"] == "go"]
            if X == "Knot":
                pass
            else:
                chk.expect(len(gos) >= NEED_GO.get(X, 1) and X in variant_paths(r["body"], TI), f"go:{X}",
                           f"TypeContainer::go arm for {X} must rebuild {X} from recursively converted components "
                           f"({NEED_GO.get(X, 1)} self.go call(s) expected, {len(gos)} found; rebuilds {sorted(set(variant_paths(r['body'], TI)))})",
                           where, ok_detail=f"{len(gos)} recursive call(s), rebuilds {X}")
        # every arm producing a Var inserts the definition first (in the same block, earlier)
        n_var = 0
        for X, r in sorted(handled.items()):
            blocks = [b for b in walk(r["body"]) if b.get("k") == "block"]
            for b in blocks:
                items = list(b.get("stmts") or []) + ([b["e"]] if b.get("e") else [])
                var_at = None
                ins_at = None
                for i, st in enumerate(items):
                    direct = st
                    # only statements of this block, not nested blocks that have their own check
                    def shallow(n):
                        stack = [n]
                        while stack:
                            x = stack.pop()
                            if isinstance(x, dict):
                                if x is not n and x.get("k") == "block":
                                    continue
                                yield x
                                stack.extend(v for v in x.values() if isinstance(v, (dict, list)))
                            elif isinstance(x, list):
                                stack.extend(x)
                    for n in shallow(direct):
                        if n.get("k") == "call" and callee(n) == TI + "Var" and var_at is None:
                            var_at = i
                        if n.get("k") == "mcall" and n["m"] == "insert" and ins_at is None:
                            rp = n.get("recv")
                            path = []
                            q = peel(rp)
                            while isinstance(q, dict) and q.get("k") == "field":
                                path.append(q["n"])
                                q = peel(q["e"])
                            if "env" in path:
                                ins_at = i
                if var_at is not None:
                    n_var += 1
                    chk.expect(ins_at is not None and ins_at < var_at, f"go:{X}:insert-before-var",
                               f"TypeContainer::go arm for {X} returns TypeInner::Var(name) without first inserting `name` into self.env "
                               f"in the same block: the exported environment would have a dangling type variable",
                               f"{h['span']['file']}:{r['ln']}", ok_detail="self.env.0.insert precedes Var(name)")
        chk.floor("TypeContainer::go arms that return a Var", n_var, 3)
        # fallback arm clones only leaves
        fb = [r for r in rows if any(hd[0] == "_" for hd in r["heads"])]
        chk.expect(len(fb) == 1 and not (set(composite) - set(handled)), "go:fallback",
                   f"the fallback arm of TypeContainer::go must only see leaf types; composites without their own arm: "
                   f"{sorted(set(composite) - set(handled))}", ok_detail="fallback sees primitives, Var, Unknown, Future, Principal only")

    for rid, desc, fn in (("C12.R1", "primitive and constructor keywords of both type printers lex to the like-named token and close back through str_to_enum/check_prim", r1),
                          ("C12.R2", "identifier-shaped lexer tokens are in KEYWORDS; labels, method and argument names are printed only through pp_text", r2),
                          ("C12.R3", "tuple / blob / variant-null shorthands coincide with the grammar's numbering and productions", r3),
                          ("C12.R4", "both type printers name every constructor; unreachable! only at the known actor/method positions", r4),
                          ("C12.R5", "no unordered (hash) iteration in the type printers; environments are ordered containers", r5),
                          ("C12.R6", "TypeContainer::go rebuilds every composite constructor and registers a definition before returning a Var", r6)):
        if only and only != rid:
            continue
        chk.run_rule(rid, desc, fn)
    if only is None:
        import c11
        # names in a printed interface go through the same escape_text / ident_string / is_valid_as_id as names in printed values
        chk.include(c11, "C11.R1", "C12.R7", facts)
        chk.include(c11, "C11.R2", "C12.R8", facts)
        import c15
        chk.include(c15, "C15.R3", "C12.R9", facts)     # exported Rust types: the derive sorts fields by the id of the label it emits
        chk.include(c11, "C11.R3", "C12.R10", facts)    # numeric labels and numbers are printed in a form that re-lexes to the same number
        import c14
        # the printer emits definitions in name order: the checker's verdict on a program must not depend on the order of its definitions
        chk.include(c14, "C14.R4", "C12.R11", facts)
