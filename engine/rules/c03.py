"""C03 — every encoded message is well-formed per the spec's binary format (structural clauses)."""
import re

from facts import unblock, AnchorMissing, callee, calls, expr_path, lit_value, nodes, peel, short, walk
from shared import TI, Matrix, Spec, arm_rows, heads_of, matches_on, method_calls, the_match, variant_paths
import sorted_unique

TITLE = ("C03: opcode/annotation tables of encoder, header parser and spec agree; only composite types enter the "
         "type table; per-element writers are little-endian of the right width; length/tag prefixes precede payloads; "
         "no unordered iteration on the encoding path.")

OP = "candid::types::internal::Opcode::"
FM = "candid::types::internal::FuncMode::"


def sleb_byte(n):
    """single-byte sleb128 of a small negative number"""
    assert -64 <= n < 0
    return n & 0x7F


def run(chk, facts, tier, only=None):
    c = facts.crate("candid")
    spec = Spec()
    mx = Matrix(facts)

    def r1():
        want = {Spec.variant_name(k): v for k, v in spec.opcodes.items()}
        en = c.item("enum", r"types::internal::Opcode$")
        got = {v["name"]: int(v["discr"]) for v in en["variants"]}
        chk.analysed(en["key"])
        for name in sorted(set(want) | set(got)):
            chk.expect(want.get(name) == got.get(name), f"opcode:{name}",
                       f"Opcode::{name} = {got.get(name)} but spec/Candid.md says {want.get(name)}",
                       ok_detail=f"Opcode::{name} = {got.get(name)} = spec")
        # encode(): TypeInner::X => Opcode::X
        h = c.fn(r"ser::TypeSerialize::encode$")
        chk.analysed(h["key"])
        m = the_match(h, r"TypeInner$", 10)
        seen = set()
        for r in arm_rows(m):
            ops = variant_paths(r["body"], OP)
            for hd in r["heads"]:
                if isinstance(hd[0], str) and hd[0].startswith(TI):
                    X = hd[0][len(TI):]
                    if ops:
                        seen.add(X)
                        chk.expect(ops == [X], f"encode:{X}", f"TypeSerialize::encode writes Opcode::{ops} for TypeInner::{X}",
                                   ok_detail=f"TypeInner::{X} -> Opcode::{X}")
        prims = {Spec.variant_name(k) for k in spec.opcodes} - {"Opt", "Vec", "Record", "Variant", "Func", "Service"}
        for X in sorted(prims - seen):
            chk.bad(f"encode:{X}", f"TypeSerialize::encode has no arm writing an opcode for primitive TypeInner::{X}")
        # build_type(): composite constructors
        h = c.fn(r"ser::TypeSerialize::build_type$")
        chk.analysed(h["key"])
        m = the_match(h, r"TypeInner$", 5)
        seen = set()
        for r in arm_rows(m):
            ops = variant_paths(r["body"], OP)
            for hd in r["heads"]:
                if isinstance(hd[0], str) and hd[0].startswith(TI) and ops:
                    X = hd[0][len(TI):]
                    seen.add(X)
                    chk.expect(ops == [X], f"build_type:{X}", f"build_type writes Opcode::{ops} for TypeInner::{X}",
                               ok_detail=f"TypeInner::{X} -> Opcode::{X}")
        for X in sorted({"Opt", "Vec", "Record", "Variant", "Func", "Service"} - seen):
            chk.bad(f"build_type:{X}", f"build_type has no arm writing the opcode of TypeInner::{X}")
        # function annotations in the encoder
        fm = matches_on(h, r"FuncMode$", 2)
        if not fm:
            raise AnchorMissing("build_type: match on FuncMode not found")
        got = {}
        for r in arm_rows(fm[0]):
            for hd in r["heads"]:
                if isinstance(hd[0], str) and hd[0].startswith(FM):
                    got[hd[0][len(FM):]] = lit_value(r["body"])
        wantfm = {Spec.variant_name(k): v for k, v in spec.funcann.items()}
        for k in sorted(set(got) | set(wantfm)):
            chk.expect(got.get(k) == wantfm.get(k), f"funcmode-enc:{k}",
                       f"encoder writes annotation {k} as {got.get(k)}, spec says {wantfm.get(k)}")
        # header parser: IndexType::to_type literal arms
        h = c.fn(r"binary_parser::IndexType::to_type$")
        chk.analysed(h["key"])
        m = the_match(h, r"^i64$", 10)
        got = {}
        for r in arm_rows(m):
            vs = variant_paths(r["body"], TI)
            for hd in r["heads"]:
                if isinstance(hd[0], tuple) and hd[0][0] == "lit":
                    got[hd[0][1]] = vs
        for name, code in sorted(spec.opcodes.items(), key=lambda kv: -kv[1]):
            X = Spec.variant_name(name)
            if X in ("Opt", "Vec", "Record", "Variant", "Func", "Service"):
                chk.expect(code not in got, f"index:{X}", f"IndexType::to_type maps the constructor opcode {code} to a primitive {got.get(code)}")
                continue
            chk.expect(got.get(code) == [X], f"index:{X}",
                       f"IndexType::to_type maps opcode {code} to {got.get(code)}, spec says {name}",
                       ok_detail=f"{code} -> TypeInner::{X}")
        for code in sorted(set(got) - set(spec.opcodes.values())):
            chk.bad(f"index:{code}", f"IndexType::to_type accepts opcode {code} ({got[code]}) which the spec does not define")
        # header parser: binread magic bytes and range asserts (derive-helper attributes from the expanded AST)
        cons = c.attr_item(r"binary_parser::ConsType$")
        for v in cons["variants"]:
            mg = [re.search(r"magic\s*=\s*(0x[0-9a-fA-F]+|\d+)u8", a) for a in v["attrs"]]
            mg = [int(x.group(1), 0) for x in mg if x]
            if v["name"] == "Future":
                chk.expect(not mg, "magic:Future", f"ConsType::Future must not have a magic byte, found {mg}")
                continue
            code = spec.opcodes.get(v["name"].lower())
            chk.expect(code is not None and mg == [sleb_byte(code)], f"magic:{v['name']}",
                       f"ConsType::{v['name']} magic {mg} != sleb128({code}) = {code is not None and hex(sleb_byte(code))}",
                       ok_detail=f"magic {mg} = sleb128({code})")
        chk.floor("ConsType variants with magic", len(cons["variants"]), 7)
        idx = c.attr_item(r"binary_parser::IndexType$")
        txt = " ".join(a for f in idx["fields"] for a in f["attrs"])
        m2 = re.search(r"assert\(index >= (-\d+) \|\| index == (-\d+)", txt)
        primcodes = sorted(v for k, v in spec.opcodes.items() if Spec.variant_name(k) in prims)
        if not m2:
            chk.bad("index-range", f"IndexType: range assertion of the form `index >= A || index == B` not found in {txt!r}")
        else:
            lo, iso = int(m2.group(1)), int(m2.group(2))
            accepted = sorted(set(range(lo, 0)) | {iso})
            chk.expect(accepted == primcodes, "index-range",
                       f"IndexType accepts negative indices {accepted} but the spec's primitive opcodes are {primcodes}",
                       ok_detail=f"negative indices accepted = primitive opcodes {primcodes[0]}..{primcodes[-1]}")
        fut = c.attr_item(r"binary_parser::FutureType$")
        txt = " ".join(a for f in fut["fields"] for a in f["attrs"])
        m3 = re.search(r"assert\(opcode < (-\d+)", txt)
        chk.expect(bool(m3) and int(m3.group(1)) == min(spec.opcodes.values()), "future-range",
                   f"FutureType must accept only opcodes below the smallest defined opcode {min(spec.opcodes.values())}: {txt!r}")
        mode = c.attr_item(r"binary_parser::Mode$")
        txt = " ".join(a for f in mode["fields"] for a in f["attrs"])
        got = {m.group(2): int(m.group(1)) for m in re.finditer(r"(\d+)u8\s*=>\s*Ok\(FuncMode::(\w+)\)", txt)}
        for k in sorted(set(got) | set(wantfm)):
            chk.expect(got.get(k) == wantfm.get(k), f"funcmode-dec:{k}",
                       f"header parser reads annotation {k} from {got.get(k)}, spec says {wantfm.get(k)}")

    def r2():
        h = c.fn(r"ser::TypeSerialize::build_type$")
        body = h["body"]
        stmts = body["stmts"] if body.get("k") == "block" else []
        prim_at = push_at = insert_at = None
        for i, st in enumerate(stmts):
            s = st["e"] if st.get("k") == "semi" else st
            if s.get("k") == "if" and any((callee(n) or "").endswith("internal::is_primitive") for n in walk(s["c"])):
                t = peel(s["t"])
                rets = nodes(s["t"], "ret")
                if rets and prim_at is None:
                    prim_at = i
            for n in walk(st):
                if n.get("k") == "mcall" and n["m"] == "push" and (expr_path(n["recv"]) or "").endswith("type_table"):
                    push_at = i if push_at is None else push_at
                if n.get("k") == "mcall" and n["m"] == "insert" and (expr_path(n["recv"]) or "").endswith("type_map"):
                    insert_at = i if insert_at is None else insert_at
        if prim_at is None or push_at is None or insert_at is None:
            raise AnchorMissing(f"build_type: is_primitive early return ({prim_at}), type_table.push ({push_at}) or "
                                f"type_map.insert ({insert_at}) not found at the top level of the function body")
        chk.expect(prim_at < push_at and prim_at < insert_at, "build_type:primitive-return-first",
                   "build_type reserves a type-table slot before the `is_primitive` early return: primitives would enter the table",
                   ok_detail="is_primitive early return precedes type_map.insert and type_table.push")
        # encode(): non-negative indices come only from type_map lookups.  The scope is encode and the private helpers it calls (the three
        # lookups may be folded into one helper); an index is *any* binding whose initialiser contains a type_map.get
        h = c.fn(r"ser::TypeSerialize::encode$")
        from shared import with_local_callees
        scope = [g for g, _ in with_local_callees(c, h, depth=2)]
        for g in scope:
            chk.analysed(g["key"])
        getters, idx_names = [], set()
        for g in scope:
            gs = [n for n in method_calls(g["body"], r"^get$") if (expr_path(n["recv"]) or "").endswith("type_map")]
            getters += gs
            for st in nodes(g["body"], "slet"):
                if st.get("init") is not None and any(x is y for x in walk(st["init"]) for y in gs) and st["pat"].get("k") == "bind":
                    idx_names.add(st["pat"]["n"])
        def mentions_idx(n):
            return any(expr_path(x) in idx_names for a in n.get("args", []) for x in walk(a))
        bad = []
        for g in scope:
            for n in calls(g["body"], r"leb128::write::signed$"):
                if variant_paths(n, OP):
                    continue
                arg = n["args"][1] if len(n["args"]) > 1 else None
                srcs = {expr_path(x) for x in walk(arg)} & idx_names if arg is not None else set()
                chk.expect(bool(srcs), f"encode:index-source:site{len(bad)}",
                           f"encode writes a type index that is not the result of a type_map lookup",
                           where=f"{g['span']['file']}:{n.get('ln')}", ok_detail=f"index operand is `{sorted(srcs)}` bound from type_map.get")
                bad.append(n)
        chk.floor("type_map lookups in encode", len(getters), 1)
        # ... and each looked-up index is written as a *signed* LEB128 (the reader takes the same position as a signed number: an unsigned
        # 64..127 would read back as a negative opcode)
        uses = []
        for g in scope:
            us = [n for n in walk(g["body"]) if n.get("k") in ("call", "mcall") and mentions_idx(n)
                  and not (callee(n) or "").endswith("::from") and not (callee(n) or "").endswith("::deref")]
            uses += [n for n in us if not any(u is not n and any(x is u for a in n.get("args", []) for x in walk(a)) for u in us)]
        chk.floor("uses of a looked-up type index in encode", len(uses), len(getters))
        for i, n in enumerate(uses):
            cal = callee(n) or ""
            okw = cal.endswith("leb128::write::signed")
            if not okw and cal in c.hir:
                inner = [callee(x) or "" for x in walk(c.hir[cal]["body"]) if x.get("k") == "call"]
                okw = any(x.endswith("leb128::write::signed") for x in inner) and not any(x.endswith("leb128::write::unsigned") for x in inner)
            chk.expect(okw, f"encode:index-signed:{i}",
                       f"TypeSerialize::encode hands a type-table index to `{cal}`, which does not write it as a signed LEB128: indices 64..127 would be "
                       f"read back as negative (primitive / future) opcodes and tables with more than 64 entries become unreadable",
                       where=f"rust/candid/src/ser.rs:{n.get('ln')}", ok_detail="sleb128")
        # type_map caches table indices under the *name* of a type variable, so over the life of one builder a name must keep denoting one
        # definition: the serializer's environment may only grow through TypeEnv::merge, which refuses to rebind a name differently
        muts = []
        reads = 0
        for k, hh in c.hir.items():
            if not k.startswith("candid::ser::"):
                continue
            for n in walk(hh["body"]):
                if n.get("k") == "mcall" and "type_env::TypeEnv" in (n.get("recv_ty") or "") and (expr_path(n["recv"]) or "").endswith("env"):
                    if (n.get("recv_ty") or "").startswith("&mut"):
                        muts.append((k, n["m"], n.get("ln")))
                    else:
                        reads += 1
                if n.get("k") == "assign" and (expr_path(n["a"]) or "").endswith(".env"):
                    muts.append((k, "=", n.get("ln")))
        other = [m for m in muts if m[1] != "merge"]
        chk.expect(bool(muts) and not other, "serializer-env:grows-by-merge-only",
                   f"the environment of the type serializer is changed by {sorted({m[1] for m in other})} (in {sorted({m[0] for m in other})}): type_map "
                   f"memoises table indices by type-variable name, so rebinding or renaming a name already used by an earlier argument makes a later "
                   f"argument's type index point at the earlier definition (type and value sections disagree); only TypeEnv::merge, which rejects "
                   f"inconsistent rebinding, may extend it", where=f"rust/candid/src/ser.rs:{other[0][2]}" if other else None,
                   ok_detail=f"{len(muts)} mutation(s), all TypeEnv::merge; {reads} read-only use(s)")

    def r3():
        sorted_unique.run_rule(chk, facts, spec)

    def r4():
        mx.check_rust_impls(chk)
        mx.check_encoder(chk)
        mx.check_bulk(chk)
        # length / tag prefixes: first effect of each compound serializer
        exp = {
            "serialize_text": ["write_leb128"], "serialize_blob": ["write_leb128", "write"],
            "serialize_vec": ["write_leb128"], "serialize_variant": ["write_leb128"],
            "serialize_principal": ["write", "write_leb128", "write"],
            "serialize_function": ["write", "serialize_principal", "serialize_text"],
            "serialize_bool": ["write"], "serialize_null": [], "serialize_struct": [],
        }
        for name, want in sorted(exp.items()):
            h = c.method(r"ValueSerializer", name, r"types::Serializer$")
            seq = [n["m"] for n in sorted(method_calls(h["body"], r"^(write|write_leb128|serialize_\w+|extend_from_slice)$"),
                                          key=lambda n: 0)]
            # walk() is pre-order, which for these straight-line bodies is source order
            seq = [m for m in seq if m != "extend_from_slice"]
            chk.expect(seq == want, f"prefix:{name}", f"{name}: expected write sequence {want}, found {seq}",
                       ok_detail=f"{name}: {seq}")
        h = c.method(r"ValueSerializer", "serialize_option", r"types::Serializer$")
        m = the_match(h, r"Option<&T>$", 2)
        tags = {}
        for r in arm_rows(m):
            w = [lit_value(n["args"][0]) for n in method_calls(r["body"], r"^write_leb128$")]
            tags[short(r["heads"][0][0])] = w
        chk.expect(tags == {"None": [0], "Some": [1]}, "prefix:serialize_option",
                   f"serialize_option must write tag 0 for None and 1 for Some, found {tags}")
        # the reference flag byte is 1 (spec: `i8(1)` for transparent references)
        for name in ("serialize_principal", "serialize_function"):
            h = c.method(r"ValueSerializer", name, r"types::Serializer$")
            first = method_calls(h["body"], r"^write$")[0]
            arr = [lit_value(x) for x in nodes(first, "lit")]
            chk.expect(arr == [1], f"refflag:{name}", f"{name} must start with the reference flag byte 1, found {arr}")

    def r5():
        bad = 0
        n = 0
        for b in c.bodies.values():
            f = b.span["file"]
            if not (f.endswith("/ser.rs") or f.endswith("types/value.rs") or f.endswith("types/internal.rs")
                    or f.endswith("types/type_env.rs")):
                continue
            n += 1
            chk.analysed(b.key)
            for bb, t, cal in b.call_sites():
                if cal and re.search(r"hash::(map::HashMap|set::HashSet)(::)?<.*>::(iter|keys|values|into_iter|drain|iter_mut|values_mut|into_keys|into_values|retain|extract_if)$", cal) \
                        or (cal and "IntoIterator" in cal and any("HashMap" in (g or "") or "HashSet" in (g or "")
                                                                   for g in ((t["f"].get("k") or {}).get("ga") or []))):
                    if b.key.endswith("annotate_type_with_depth"):
                        pass
                    chk.bad(f"hash-iter:{b.key}", f"{b.key} iterates a HashMap/HashSet ({cal}): encoding order would depend on the hasher", where=f"{f}:{t.get('ln')}")
                    bad += 1
        if not bad:
            chk.ok("no-hash-iteration", f"{n} bodies of ser.rs/value.rs/internal.rs/type_env.rs contain no HashMap/HashSet iteration")
        chk.floor("bodies scanned for unordered iteration", n, 100)
        ts = c.item("struct", r"ser::TypeSerialize$")
        tys = {f["name"]: f["ty"] for f in ts["variants"][0]["fields"]}
        chk.expect("BTreeMap" in tys.get("type_map", "") and "Vec" in tys.get("type_table", ""), "type_map-ordered",
                   f"TypeSerialize.type_map/type_table must be ordered containers, found {tys.get('type_map')}, {tys.get('type_table')}")

    def r6():
        # message layout: magic, type table, argument types, values — in that order
        h = c.fn(r"ser::IDLBuilder::serialize$")
        chk.analysed(h["key"])
        seq = []
        for n in walk(h["body"]):
            if n.get("k") == "mcall" and n["m"] == "write_all":
                arg = n["args"][0]
                lit = [x for x in walk(arg) if x.get("k") == "lit" and "bytes" in (x.get("v") or {})]
                if lit:
                    seq.append("magic:" + bytes(lit[0]["v"]["bytes"]).decode("latin1"))
                else:
                    seq.append("write:" + ".".join((expr_path(x["recv"]) or "?").split(".")[-1] for x in walk(arg) if x.get("k") == "mcall" and x["m"] == "get_result"))
            elif n.get("k") == "mcall" and n["m"] == "serialize" and (expr_path(n["recv"]) or "").endswith("type_ser"):
                seq.append("build-type-section")
        chk.expect(seq == ["magic:DIDL", "build-type-section", "write:type_ser", "write:value_ser"], "layout:message",
                   f"IDLBuilder::serialize must write the magic `DIDL`, then the type section, then the value section; found {seq}",
                   ok_detail=str(seq))
        h = c.fn(r"ser::TypeSerialize::serialize$")
        chk.analysed(h["key"])
        seq = []
        for n in walk(h["body"]):
            if n.get("k") == "call" and (callee(n) or "").endswith("leb128::write::unsigned"):
                src = [expr_path(x["recv"]) for x in walk(n["args"][1]) if x.get("k") == "mcall" and x["m"] == "len"]
                seq.append("count:" + (src[0] or "?").split(".")[-1] if src else "count:?")
            elif n.get("k") == "mcall" and n["m"] == "append" and (expr_path(n["recv"]) or "").endswith("result"):
                inner = [expr_path(x["recv"]) for x in walk(n["args"][0]) if x.get("k") == "mcall" and x["m"] == "concat"]
                seq.append("append:" + ((inner[0] or "?").split(".")[-1] if inner else (expr_path(n["args"][0]) or "?").split(".")[-1]))
        chk.expect(seq == ["count:type_table", "append:type_table", "count:args", "append:ty_encode"], "layout:type-section",
                   f"TypeSerialize::serialize must write the table length, the table entries, the argument count and the argument types; found {seq}",
                   ok_detail=str(seq))
        # the type section is built into a buffer that lives as long as the builder: a second serialize()/serialize_to_vec() on the same
        # builder must not append a second header to the first
        first = None
        for n in walk(h["body"]):
            if first is not None:
                break
            if n.get("k") == "mcall" and (expr_path(n["recv"]) or "").startswith("self.") and "." in (expr_path(n["recv"]) or ""):
                fld = expr_path(n["recv"])
                if fld.endswith(".result"):
                    first = ("fresh" if n["m"] in ("clear", "truncate") else "write" if n["m"] in ("append", "extend", "extend_from_slice", "push", "write_all") else None)
            elif n.get("k") == "assign" and (expr_path(n["a"]) or "").endswith(".result") and (expr_path(n["a"]) or "").startswith("self."):
                first = "fresh"
            elif n.get("k") == "call" and any(a.get("k") == "ref" and a.get("mut") and (expr_path(a["e"]) or "").startswith("self.") and (expr_path(a["e"]) or "").endswith(".result")
                                              for a in n.get("args") or []):
                first = "write"
        chk.expect(first != "write", "layout:type-section:fresh-buffer",
                   "TypeSerialize::serialize appends the table and the argument types to `self.result` without emptying it first: a second "
                   "`IDLBuilder::serialize_to_vec()` on the same builder returns `DIDL` + two type sections + the values, which is not a Candid message",
                   where=f"{h['span']['file']}:{h['span']['lo']}", ok_detail="the buffer is emptied (or local) before the section is written")
        # one type and one value per argument, type first
        for fname in ("arg", "value_arg"):
            h = c.fn(r"ser::IDLBuilder::%s$" % fname)
            seq = [n["m"] for n in method_calls(h["body"], r"^(push_type|idl_serialize)$")]
            chk.expect(seq == ["push_type", "idl_serialize"], f"layout:{fname}", f"IDLBuilder::{fname} must push the argument's type and then serialise the value; found {seq}")

    for rid, desc, fn in (("C03.R1", "opcode and annotation tables of encoder and header parser equal spec/Candid.md", r1),
                          ("C03.R2", "only composite types enter the type table; indices come from type_map", r2),
                          ("C03.R3", "fields/methods are sorted and checked unique at every constructor", r3),
                          ("C03.R4", "primitive writers: little-endian of the right width; prefixes precede payloads", r4),
                          ("C03.R5", "no unordered (hash) iteration on the encoding path", r5),
                          ("C03.R6", "message layout: magic, type table, argument types, values", r6)):
        if only and only != rid:
            continue
        chk.run_rule(rid, desc, fn)
    if only is None:
        import c09
        import c15
        chk.include(c09, "C09.R1", "C03.R7", facts)     # number writers: the (S)LEB128 encoders lose no significant bit (and cannot trap)
        chk.include(c09, "C09.R3", "C03.R8", facts)     # ... and use the LEB128 byte masks
        chk.include(c15, "C15.R3", "C03.R9", facts)     # field ids written on the wire come from the label the type declares (derive / field! provenance)
        import c01
        import c10
        chk.include(c10, "C10.R4", "C03.R10", facts)    # typed encoding of untyped values: the record written is the record given (fields found by label id, whatever their order)
        chk.include(c01, "C01.R4", "C03.R11", facts)    # the same arguments encode to the same bytes whatever was encoded before (type memo cleared per builder)
