"""Private helpers of c15.py / c16.py: small MIR def-use kit (single-definition tracing, backward slices, edge
dominance) and a scoped HIR walk. Nothing here looks at source text, line numbers or local names."""
import re

from facts import AnchorMissing, callee, op_const, op_int, op_place, term_callee, walk


# --------------------------------------------------------------------------- MIR: definitions
class DefUse:
    """definitions of every local of one MIR body: ('assign', block, rvalue) | ('call', block, terminator)"""

    def __init__(self, body):
        self.b = body
        self.defs = {}
        for bi, blk in enumerate(body.blocks):
            if blk.get("c"):
                continue
            for st in blk["s"]:
                if st["k"] == "assign":
                    self.defs.setdefault(st["p"]["l"], []).append(("assign", bi, st["r"], st["p"]))
            t = blk["t"]
            if t["k"] == "call" and t.get("dest") is not None:
                self.defs.setdefault(t["dest"]["l"], []).append(("call", bi, t, t["dest"]))

    def is_param(self, l):
        return 1 <= l <= self.b.j.get("argc", 0)

    def single(self, l):
        """the only whole-local definition of l, or None"""
        ds = [d for d in self.defs.get(l, []) if not (d[3].get("p"))]
        allds = self.defs.get(l, [])
        if len(ds) == 1 and len(allds) == 1:
            return ds[0]
        return None

    def trace(self, operand, through=None, max_steps=64):
        """Follow copies / moves / shared or mutable borrows / integer casts / field and deref projections of
        single-definition temporaries back to where the value comes from.
        Returns dict(root=('const', value, ty) | ('call', callee, terminator, block) | ('local', l) | ('param', l)
        | ('other', rvalue-kind), casts=[(from_ty, to_ty)], via=[callee...]) — `through` is a regex of callees whose
        first argument is followed further (as_bytes, into_iter, ...)."""
        casts, via = [], []
        cur = operand
        for _ in range(max_steps):
            k = op_const(cur)
            if k is not None:
                return {"root": ("const", k.get("int", k.get("str")), k.get("ty"), k.get("def")), "casts": casts, "via": via}
            pl = op_place(cur) if ("c" in cur or "m" in cur) else cur   # operand or bare place
            l = pl["l"]
            if self.is_param(l):
                return {"root": ("param", l), "casts": casts, "via": via}
            d = self.single(l)
            if d is None:
                return {"root": ("local", l), "casts": casts, "via": via}
            if d[0] == "call":
                t = d[2]
                decl, res = term_callee(t)
                name = res or decl or "?"
                if through and re.search(through, name) and t["args"]:
                    via.append(name)
                    cur = t["args"][0]
                    continue
                return {"root": ("call", name, t, d[1]), "casts": casts, "via": via}
            r = d[2]
            rk = r.get("k")
            if rk == "use":
                cur = r["o"]
            elif rk == "ref":
                cur = {"c": r["p"]}
            elif rk == "cast" and r.get("ck") in ("IntToInt", None):
                src = r["o"]
                sp = op_place(src) if ("c" in src or "m" in src) else None
                casts.append((self.b.local_ty(sp["l"]) if sp else None, r.get("ty")))
                cur = src
            else:
                return {"root": ("other", rk, r, d[1]), "casts": casts, "via": via}
        return {"root": ("other", "too-deep"), "casts": casts, "via": via}

    def backslice(self, operand):
        """flow-insensitive backward slice: (locals, callee names, constants' def paths) the operand may depend on"""
        seen, calls, consts = set(), set(), set()
        work = []

        def push_op(o):
            if not isinstance(o, dict):
                return
            k = op_const(o)
            if k is not None:
                if k.get("def"):
                    consts.add(k["def"])
                if k.get("closure"):
                    calls.add(k["closure"])
                return
            p = op_place(o) if ("c" in o or "m" in o) else (o if "l" in o else None)
            if p is not None:
                work.append(p["l"])
                for e in p.get("p") or []:
                    if isinstance(e, dict) and "i" in e:
                        work.append(e["i"])
        push_op(operand)
        while work:
            l = work.pop()
            if l in seen:
                continue
            seen.add(l)
            for d in self.defs.get(l, []):
                if d[0] == "call":
                    t = d[2]
                    decl, res = term_callee(t)
                    calls.add(res or decl or "?")
                    if decl:
                        calls.add(decl)
                    for a in t["args"]:
                        push_op(a)
                else:
                    r = d[2]
                    for key in ("o", "a", "b"):
                        if key in r:
                            push_op(r[key])
                    if "p" in r:
                        push_op({"c": r["p"]})
                    for o in r.get("ops", []) or []:
                        push_op(o)
                    if r.get("k") == "agg" and r.get("closure"):
                        calls.add(r["closure"])
        return seen, calls, consts


def switch_guards(body, du):
    """Every boolean two-way switch of the body with what it tests:
    dict(block, true, false, kind='bin'|'call', op | callee, operands=[operand,...])"""
    out = []
    for bi, blk in enumerate(body.blocks):
        t = blk["t"]
        if blk.get("c") or t["k"] != "switch" or t.get("dty") != "bool" or t.get("vals") != [0]:
            continue
        g = {"block": bi, "false": t["ts"][0], "true": t["o"]}
        p = op_place(t["d"])
        if p is None:
            continue
        d = du.single(p["l"])
        neg = False
        # look through `!x`
        while d and d[0] == "assign" and d[2].get("k") == "un" and d[2].get("op") == "Not":
            neg = not neg
            q = op_place(d[2]["a"])
            d = du.single(q["l"]) if q else None
        if d is None:
            continue
        if neg:
            g["true"], g["false"] = g["false"], g["true"]
        if d[0] == "assign" and d[2].get("k") == "bin":
            g.update(kind="bin", op=d[2]["op"], operands=[d[2]["a"], d[2]["b"]])
        elif d[0] == "call":
            decl, res = term_callee(d[2])
            g.update(kind="call", callee=res or decl or "?", decl=decl, operands=list(d[2]["args"]))
        else:
            continue
        out.append(g)
    return out


def edge_dominates(body, switch_block, target, block):
    """does taking the edge switch_block -> target dominate `block`? (target has no other predecessor and
    dominates block)"""
    preds = body.preds()
    if [p for p in preds[target] if not body.is_cleanup(p)] != [switch_block]:
        return False
    return target in body.dominators().get(block, set())


def canonical_mir(body):
    """MIR with locals renumbered by first appearance and all positional / debug information removed"""
    ren = {}

    def loc(l):
        if l not in ren:
            ren[l] = len(ren)
        return ren[l]

    def cv(n):
        if isinstance(n, dict):
            out = {}
            for k, v in n.items():
                if k in ("ln", "fln", "mac", "dbg", "name"):
                    continue
                if k in ("l", "i") and isinstance(v, int):
                    out[k] = loc(v)
                else:
                    out[k] = cv(v)
            return out
        if isinstance(n, list):
            return [cv(x) for x in n]
        return n
    return [cv(blk) for blk in body.blocks], [body.local_ty(l) for l, _ in sorted(ren.items(), key=lambda kv: kv[1])]


# --------------------------------------------------------------------------- HIR: scoped walk
def pat_binders(p):
    return [n["n"] for n in walk(p) if isinstance(n, dict) and n.get("k") == "bind"]


def scoped_calls(fn_hir, callee_re):
    """Calls matching callee_re with their lexical context:
    yields (call node, env: local name -> init expr of the nearest enclosing `let`, arms: [(match node, arm)] outermost
    first). Shadowing is respected (an inner `let id = f(id)` hides the outer `id`)."""
    rx = re.compile(callee_re)
    out = []

    def visit(n, env, arms):
        if isinstance(n, list):
            for x in n:
                visit(x, env, arms)
            return
        if not isinstance(n, dict):
            return
        k = n.get("k")
        if k == "block":
            env2 = dict(env)
            for st in n.get("stmts") or []:
                if st.get("k") == "slet":
                    if st.get("init") is not None:
                        visit(st["init"], env2, arms)
                    if st.get("els") is not None:
                        visit(st["els"], env2, arms)
                    for b in pat_binders(st.get("pat")):
                        env2[b] = st.get("init") if (st.get("pat") or {}).get("k") == "bind" else ("pattern", st)
                else:
                    visit(st, env2, arms)
            if n.get("e") is not None:
                visit(n["e"], env2, arms)
            return
        if k == "match":
            visit(n["scrut"], env, arms)
            for a in n["arms"]:
                env2 = dict(env)
                for b in pat_binders(a["pat"]):
                    env2[b] = ("arm", n, a)
                if a.get("guard") is not None:
                    visit(a["guard"], env2, arms + [(n, a)])
                visit(a["body"], env2, arms + [(n, a)])
            return
        if k == "closure":
            env2 = dict(env)
            for p in n.get("params") or []:
                for b in pat_binders(p):
                    env2[b] = ("param", n)
            visit(n["body"], env2, arms)
            return
        if k in ("call", "mcall") and rx.search(callee(n) or ""):
            out.append((n, env, arms))
        for key, v in n.items():
            if isinstance(v, (dict, list)) and key not in ("pat",):
                visit(v, env, arms)

    env0 = {}
    for p in fn_hir.get("params") or []:
        for b in pat_binders(p):
            env0[b] = ("param", fn_hir)
    visit(fn_hir["body"], env0, [])
    return out


def strip_refs(e):
    """strip only reference / dereference / tail-only blocks (not clones, not conversions)"""
    while isinstance(e, dict):
        if e.get("k") == "ref":
            e = e["e"]
        elif e.get("k") == "un" and e.get("op") == "Deref":
            e = e["a"]
        elif e.get("k") == "block" and not e.get("stmts") and e.get("e"):
            e = e["e"]
        else:
            break
    return e


def local_name(e):
    e = strip_refs(e)
    if isinstance(e, dict) and e.get("k") == "path" and (e.get("res") or {}).get("kind") == "Local":
        return e["res"]["path"]
    return None
