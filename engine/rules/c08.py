"""C08 — native decoding agrees with untyped decoding at the same Candid type (structural clauses)."""
import re

from facts import AnchorMissing, callee, calls, expr_path, lit_value, nodes, pat_alternatives, pat_head, short, unblock, walk
from shared import TI, Matrix, arm_rows, heads_of, method_calls, the_match, variant_paths
from sides import Sides
import de_rules

TITLE = ("C08: specialised decoding paths never read without the generic path's type tests: check-before-read on every "
         "wire read; fast paths armed only after both component types were tested, for the diagonal pairs plus (int,nat), "
         "and re-scoped per component; tagged byte-buffer protocol between decoder and visitors; primitive matrix and dispatch.")

IV = "candid::types::value::IDLValue::"
BN = "candid::de::BigNumFastPath::"
SEEDS = {"expect_type": 1, "wire_type": 2}


def first_byte_of_buffer(fn_hir):
    """tag byte the function puts first into the buffer it hands to visit_byte_buf"""
    vb = method_calls(fn_hir["body"], r"^visit_byte_buf$")
    if len(vb) != 1:
        return None
    var = expr_path(vb[0]["args"][0])
    for st in nodes(fn_hir["body"], "slet"):
        if (st.get("pat") or {}).get("n") == var and st.get("init") is not None:
            arr = nodes(st["init"], "array")
            if arr and arr[0].get("es"):
                return lit_value(arr[0]["es"][0])
            # Vec::with_capacity + push(tag)
            for n in method_calls(fn_hir["body"], r"^push$"):
                if expr_path(n["recv"]) == var:
                    return lit_value(n["args"][0])
    return None


def tag_tests(fn_hir):
    """integer literals the visitor compares the first byte of its buffer with: {tag: [constructed IDLValue ctor...]}"""
    out = {}
    body = fn_hir["body"]
    for m in nodes(body, "match"):
        sc = m["scrut"]
        is_first = any((n.get("k") == "index" and lit_value(n["b"]) == 0) or (n.get("k") == "mcall" and n["m"] == "first")
                       for n in walk(sc))
        if not is_first:
            continue
        for a in m["arms"]:
            for alt in pat_alternatives(a["pat"]):
                cur = alt
                while isinstance(cur, dict) and cur.get("k") == "ts" and cur.get("subs"):
                    cur = cur["subs"][0]
                v = lit_value_pat(cur)
                if v is not None:
                    out.setdefault(v, []).extend(variant_paths(a["body"], IV))
    for n in walk(body):
        if n.get("k") == "bin" and n.get("op") in ("Eq", "Ne"):
            for x, y in ((n["a"], n["b"]), (n["b"], n["a"])):
                if x.get("k") == "index" and lit_value(x["b"]) == 0 and lit_value(y) is not None:
                    out.setdefault(lit_value(y), [])
    return out


def lit_value_pat(p):
    if isinstance(p, dict) and p.get("k") == "lit":
        v = p.get("v") or {}
        return v.get("int")
    return None


def run(chk, facts, tier, only=None):
    c = facts.crate("candid")
    mx = Matrix(facts)

    def r1():
        de_rules.rule_check_before_read(chk, facts)
        de_rules.rule_mismatch_is_subtype_error(chk, facts)

    def r2():
        de_rules.rule_flag_sources(chk, facts)
        de_rules.rule_context(chk, facts)
        # the accepted (expected, wire) pairs of the big-number fast path: diagonal + (int, nat), nothing else
        nb = 0
        for fname in ("deserialize_seq", "deserialize_map"):
            h = c.method(r"^&mut candid::de::Deserializer", fname, r"de::Deserializer$")
            chk.analysed(h["key"])
            s = Sides({}, SEEDS)
            s.scan(h["body"])
            for m in nodes(h["body"], "match"):
                if not (m.get("src") == "Normal" and variant_paths(m, BN)):
                    continue
                if not (m["sty"].startswith("(") and "TypeInner" in m["sty"]):
                    continue

                def direct(a):
                    b = unblock(a["body"])
                    return b.get("k") == "call" and (callee(b) or "").endswith("Option::Some") and bool(variant_paths(b, BN))
                if not any(direct(a) for a in m["arms"]):
                    continue
                nb += 1
                sc = unblock(m["scrut"])
                sides = [tuple(sorted(s.of(e))) for e in sc.get("es", [])] if sc.get("k") == "tup" else None
                chk.expect(sides == [(1,), (2,)], f"{fname}:bignum-selector:operands",
                           f"{fname}: the big-number fast-path selector must match on (expected element type, wire element type); "
                           f"operand sides are {sides}", ok_detail="(expected, wire)")
                got = {}
                for r in arm_rows(m):
                    vs = variant_paths(r["body"], BN)
                    for hd in r["heads"]:
                        key = tuple(x[len(TI):] if isinstance(x, str) and x.startswith(TI) else x for x in hd)
                        got[key] = vs[0] if len(vs) == 1 else (vs or None)
                want = {("Nat", "Nat"): "Nat", ("Int", "Int"): "Int", ("Int", "Nat"): "NatAsInt", ("_",): None}
                chk.expect(got == want, f"{fname}:bignum-selector:pairs",
                           f"{fname}: big-number fast path must be selected exactly for (nat,nat), (int,int) and expected int / wire nat; found {got}",
                           ok_detail=str(got))
        chk.floor("big-number fast-path selectors", nb, 2)
        # every accessor is built with the expected component types in `expect` and the wire component types in `wire`: the accessors
        # hand these back as self.expect_type / self.wire_type for each component, and everything else trusts that labelling
        n_style = 0
        for k_, hh in sorted(c.hir.items()):
            if hh.get("body") is None or not hh["span"]["file"].endswith("candid/src/de.rs"):
                continue
            sts = [x for x in walk(hh["body"]) if x.get("k") == "struct" and (x.get("res") or {}).get("path", "").startswith("candid::de::Style::")]
            if not sts:
                continue
            ss = Sides({}, SEEDS)
            ss.scan(hh["body"])
            for st_ in sts:
                fl = dict(st_["fields"])
                sd = {n_: tuple(sorted(ss.of(e_))) for n_, e_ in fl.items() if n_ in ("expect", "wire")}
                if not any(sd.values()):
                    continue          # a pattern-like rebuild without provenance (Debug impl, accessors matching on self.style)
                n_style += 1
                chk.expect(sd.get("expect") == (1,) and sd.get("wire") == (2,), f"style-sides:{hh['name']}:{st_['res']['path'].rsplit('::', 1)[-1]}",
                           f"{k_} builds {st_['res']['path'].rsplit('::', 1)[-1]} with `expect` derived from side(s) {sd.get('expect')} and `wire` from "
                           f"{sd.get('wire')} (1 = expected type, 2 = wire type): a component's wire type taken from the expected type makes the "
                           f"decoder read the bytes at the type the receiver hopes for instead of the type they were written at",
                           where=f"{hh['span']['file']}:{st_.get('ln')}", ok_detail="expect <- expected type, wire <- wire type")
        chk.floor("Style literals built from the two types", n_style, 5)
        # a vector of records is read as a map only if *both* entry types are pairs with the labels 0 and 1: positions are not labels
        hm = c.method(r"^&mut candid::de::Deserializer", "deserialize_map", r"de::Deserializer$")
        sm = Sides({}, SEEDS)
        sm.scan(hm["body"])
        covered = set()
        for x in walk(hm["body"]):
            if x.get("k") == "bin" and x.get("op") == "Eq":
                for a_, b_ in ((x["a"], x["b"]), (x["b"], x["a"])):
                    ids = [lit_value(y["args"][0]) for y in walk(b_) if y.get("k") == "call" and (callee(y) or "").endswith("Label::Id") and y.get("args")]
                    if len(ids) == 1 and isinstance(ids[0], int):
                        for sd_ in sm.of(a_):
                            covered.add((sd_, ids[0]))
            if x.get("k") == "mcall" and x["m"] == "is_tuple":
                for sd_ in sm.of(x["recv"]):
                    covered.update({(sd_, 0), (sd_, 1)})
        want_cov = {(1, 0), (1, 1), (2, 0), (2, 1)}
        chk.expect(want_cov <= covered, "deserialize_map:entry-labels-both-sides",
                   f"deserialize_map must test that the expected *and* the wire entry record have exactly the labels 0 and 1 before reading the two "
                   f"fields as key and value; label tests found for (side, label) {sorted(covered)} (1 = expected, 2 = wire): a wire record "
                   f"{{key; value}} with other labels would be read positionally, which the untyped decoder rejects",
                   where=f"{hm['span']['file']}:{hm['span']['lo']}", ok_detail="labels 0 and 1 tested on both sides")
        # key_text_fast: both the expected and the wire key type are text
        h = c.method(r"^&mut candid::de::Deserializer", "deserialize_map", r"de::Deserializer$")
        s = Sides({}, SEEDS)
        s.scan(h["body"])
        ok = False
        for st in nodes(h["body"], "slet"):
            if st.get("init") is None:
                continue
            ini = unblock(st["init"])
            if ini.get("k") == "bin" and ini.get("op") == "And":
                ms = [m for m in nodes(ini, "match") if any(v == "Text" for v in variant_paths_pat(m))]
                if len(ms) == 2:
                    sd = sorted(tuple(sorted(s.of(m["scrut"]))) for m in ms)
                    onlytext = all(sorted(set(variant_paths_pat(m))) == ["Text"] for m in ms)
                    ok = sd == [(1,), (2,)] and onlytext
                    chk.expect(ok, "deserialize_map:text-key-selector",
                               f"the text-key fast path must require BOTH the expected and the wire key type to be text; operand sides {sd}")
        if not ok:
            chk.bad("deserialize_map:text-key-selector", "selector `matches!(ek, Text) && matches!(wk, Text)` not found (anchor moved or one side dropped)")

    def r3():
        producers = {}
        for fname, ctor in (("deserialize_int", "Int"), ("deserialize_nat", "Nat"), ("deserialize_principal", "Principal"),
                            ("deserialize_reserved", "Reserved"), ("deserialize_service", "Service"),
                            ("deserialize_function", "Func"), ("deserialize_blob", "Blob")):
            h = c.method(r"^candid::de::Deserializer", fname, "")
            chk.analysed(h["key"])
            producers[ctor] = first_byte_of_buffer(h)
        # the big-number payloads: int buffers carry the two's-complement bytes of a BigInt, nat buffers the magnitude bytes of a BigUint —
        # what follows the tag is produced by exactly that conversion and by nothing else (a hand-rolled sign byte is a second encoder)
        for fname, conv in (("deserialize_int", "to_signed_bytes_le"), ("deserialize_nat", "to_bytes_le")):
            h = c.method(r"^candid::de::Deserializer", fname, "")
            appends = [x for x in walk(h["body"]) if x.get("k") == "mcall" and x["m"] in ("extend_from_slice", "extend", "push", "append", "insert", "resize")
                       and (expr_path(x["recv"]) or "") not in ("", "self") and "Vec<u8>" in str(x.get("recv_ty") or "")]
            if not appends:
                raise AnchorMissing(f"{fname}: no append to the tagged byte buffer found")
            odd = [x for x in appends if not any(y.get("k") == "mcall" and y["m"] == conv for y in walk(x["args"][0] if x.get("args") else {}))]
            chk.expect(not odd, f"payload:{fname}:{conv}",
                       f"Deserializer::{fname} appends to its tagged buffer something that is not `.{conv}()` of the decoded number "
                       f"(`.{odd[0]['m'] if odd else ''}(..)` at line {odd[0].get('ln') if odd else ''}): the consumer reads the payload with the inverse of `{conv}`, so a "
                       f"hand-made byte sequence (e.g. magnitude bytes plus a conditional zero byte) is read as a different number for some values",
                       where=f"{h['span']['file']}:{odd[0].get('ln') if odd else ''}", ok_detail=f"the payload is {conv}()")
        for rx, conv in ((r"number::.*IntVisitor$", "from_signed_bytes_le"), (r"number::.*NatVisitor$", "from_bytes_le")):
            hs = [h_ for k_, h_ in c.hir.items() if re.search(rx.replace("$", "") + r" as serde_core::de::Visitor<'(?:de|_)>>::visit_byte_buf$", k_)]
            if not hs:
                raise AnchorMissing(f"visit_byte_buf of /{rx}/ not found")
            chk.expect(any(re.search(conv + "$", callee(x) or "") for x in walk(hs[0]["body"]) if x.get("k") in ("call", "mcall")), f"payload:consumer:{conv}",
                       f"{hs[0]['key']} does not read the payload with {conv}", ok_detail=conv)
        chk.expect(None not in producers.values() and len(set(producers.values())) == len(producers), "producer-tags-distinct",
                   f"every producer of a tagged byte buffer must start it with its own distinct tag byte; found {producers}",
                   ok_detail=str(producers))
        h = c.method(r"value::IDLValueVisitor$", "visit_byte_buf", r"de::Visitor$")
        chk.analysed(h["key"])
        got = tag_tests(h)
        for ctor, tag in sorted(producers.items()):
            chk.expect(got.get(tag) == [ctor], f"IDLValueVisitor:{ctor}",
                       f"the decoder tags {ctor} buffers with {tag}, but IDLValueVisitor::visit_byte_buf builds {got.get(tag)} for that tag",
                       ok_detail=f"tag {tag} -> IDLValue::{ctor}")
        for tag in sorted(set(got) - set(producers.values())):
            chk.bad(f"IDLValueVisitor:tag{tag}", f"IDLValueVisitor accepts tag {tag} which no decoder routine produces")
        consumers = [("candid", r"number::.*IntVisitor$", {"Int", "Nat"}), ("candid", r"number::.*NatVisitor$", {"Nat"}),
                     ("candid", r"reference::FuncVisitor$", {"Func"}), ("candid", r"reference::.*ServVisitor$", {"Service"}),
                     ("ic_principal", r"PrincipalVisitor$", {"Principal"})]
        for crate, vis, ctors in consumers:
            cc = facts.crate(crate)
            h = cc.method(vis, "visit_byte_buf", r"de::Visitor$")
            chk.analysed(h["key"])
            tags = set(tag_tests(h))
            want = {producers[x] for x in ctors}
            chk.expect(tags == want, f"consumer:{vis.split('::')[-1].rstrip('$').lstrip('.*')}",
                       f"{h['key']} accepts tags {sorted(tags)}; the decoder produces {sorted(want)} for {sorted(ctors)}")
        # payload order of function references: (leb128 length, method bytes, principal bytes)
        h = c.method(r"^candid::de::Deserializer", "deserialize_function", "")
        seq = []
        for n in walk(h["body"]):
            if n.get("k") == "call" and (callee(n) or "").endswith("leb128::write::unsigned"):
                seq.append("len")
            if n.get("k") == "mcall" and n["m"] == "extend_from_slice":
                p = expr_path(n["args"][0]) or ""
                seq.append("principal" if "id" in p.split(".")[0] and "inner" in p else ("method" if p else "?"))
        chk.expect(seq == ["len", "method", "principal"], "func-payload:producer",
                   f"deserialize_function must lay out the buffer as length, method name, principal; found {seq}")
        for crate, vis in (("candid", r"reference::FuncVisitor$"), ("candid", r"value::IDLValueVisitor$")):
            h = facts.crate(crate).method(vis, "visit_byte_buf", r"de::Visitor$")
            order = [(callee(n) or n.get("m") or "").rsplit("::", 1)[-1] for n in walk(h["body"]) if n.get("k") in ("call", "mcall")]
            order = [x for x in order if x in ("unsigned", "read_exact", "from_utf8")]
            chk.expect(order == ["unsigned", "read_exact", "from_utf8"], f"func-payload:{vis.split('::')[-1].rstrip('$')}",
                       f"{vis}: function payload must be read as length, method bytes, then principal; found {order}")

    def r4():
        mx.check_decoder(chk)

    def r5():
        # dispatch of non-primitive constructors in deserialize_any, and the bignum gate
        want = {"Int": ["deserialize_int"], "Nat": ["deserialize_nat"], "Text": ["deserialize_string"], "Null": ["deserialize_unit"],
                "Principal": ["deserialize_principal"], "Opt": ["deserialize_option"], "Record": ["deserialize_struct"],
                "Variant": ["deserialize_enum"], "Service": ["deserialize_service"], "Func": ["deserialize_function"],
                "Empty": ["deserialize_empty"], "Future": ["deserialize_future"]}
        for X, calls_ in sorted(want.items()):
            rows = mx.any.get(X) or []
            chk.expect(bool(rows) and all(r["calls"] == calls_ for r in rows), f"dispatch:{X}",
                       f"deserialize_any: expected type {X} must be decoded by {calls_}; found {rows}")
        h = c.method(r"^&mut candid::de::Deserializer", "deserialize_any", r"de::Deserializer$")
        m = [m for m in nodes(h["body"], "match") if "BigNumFastPath" in m.get("sty", "")]
        got = {}
        for mm in m:
            for r in arm_rows(mm):
                for hd in r["heads"]:
                    if isinstance(hd[0], str) and hd[0].startswith(BN):
                        got[hd[0][len(BN):]] = [n["m"] for n in method_calls(r["body"], r"^deserialize_")]
        chk.expect(got == {"Nat": ["deserialize_nat"], "Int": ["deserialize_int"], "NatAsInt": ["deserialize_int"]}, "dispatch:bignum-fast",
                   f"under the big-number fast path, Nat must go to deserialize_nat and Int/NatAsInt to deserialize_int; found {got}")
        # string-ish entry points are pure forwards
        for name, tgt in (("deserialize_string", "deserialize_str"),):
            h = c.method(r"^&mut candid::de::Deserializer", name, r"de::Deserializer$")
            ms = [n["m"] for n in method_calls(h["body"], r"^deserialize_")]
            chk.expect(ms == [tgt], f"forward:{name}", f"{name} must forward to {tgt}; found {ms}")

    def r7():
        de_rules.rule_visitor_table(chk, facts)
        reader_follows_wire_type()

    def reader_follows_wire_type():
        # in deserialize_int a number is read with the signed reader iff the *wire* type is int and with the unsigned reader iff it is nat
        # (expected int / wire nat is the one coercion): the choice must come from a test of self.wire_type, not from a fast-path flag
        h = c.method(r"^candid::de::Deserializer", "deserialize_int", "")
        chk.analysed(h["key"])
        par = {}
        def index(n, p_):
            if isinstance(n, dict):
                if "k" in n:
                    par[id(n)] = p_
                    p_ = n
                for v in n.values():
                    index(v, p_)
            elif isinstance(n, list):
                for v in n:
                    index(v, p_)
        index(h["body"], None)
        lets = {st["pat"]["n"]: st for st in nodes(h["body"], "slet") if (st.get("pat") or {}).get("k") == "bind" and st.get("init") is not None}

        def wire_variant_of(cond):
            """`matches!(self.wire_type.as_ref(), TypeInner::X)` (directly or through a let-bound bool) -> X"""
            cnd = unblock(cond)
            if cnd.get("k") == "path" and (cnd.get("res") or {}).get("path") in lets:
                cnd = unblock(lets[cnd["res"]["path"]]["init"])
            if cnd.get("k") == "match" and "wire_type" in (expr_path(unblock(cnd["scrut"]).get("recv") or cnd["scrut"]) or ""):
                vs = [v for a in cnd["arms"] if lit_value(a["body"]) is True for v in variant_paths_pat({"arms": [a]})]
                return vs[0] if len(vs) == 1 else None
            return None
        READERS = {"try_read_leb_i64": "Int", "try_read_leb_u64": "Nat"}
        n_r = 0
        for x in walk(h["body"]):
            nm = x.get("m") if x.get("k") == "mcall" else ((callee(x) or "").rsplit("::", 2)[-2] + "::" + (callee(x) or "").rsplit("::", 1)[-1] if x.get("k") == "call" else None)
            want = READERS.get(nm) or {"Int::decode": "Int", "Nat::decode": "Nat"}.get(nm or "")
            if not want:
                continue
            n_r += 1
            got = None
            p_ = par.get(id(x))
            child = x
            while p_ is not None and got is None:
                if p_.get("k") == "if" and any(y is child for y in walk(p_["t"])):
                    got = wire_variant_of(p_["c"]) or "?"
                if p_.get("k") == "match" and p_.get("src") == "Normal" and "wire_type" in (expr_path(unblock(p_["scrut"]).get("recv") or p_["scrut"]) or ""):
                    for a in p_["arms"]:
                        if any(y is child for y in walk(a["body"])):
                            vs = variant_paths_pat({"arms": [a]})
                            got = vs[0] if len(vs) == 1 else "?"
                child = p_
                p_ = par.get(id(p_))
            chk.expect(got == want, f"deserialize_int:reader:{nm}",
                       f"deserialize_int calls {nm} in a branch selected by {'a test of self.wire_type == ' + str(got) if got and got != '?' else 'something other than a test of self.wire_type'}: "
                       f"the {('signed' if want == 'Int' else 'unsigned')} reader is for wire type {want.lower()} only (a nat read as signed LEB128 turns 64..127 negative)",
                       where=f"{h['span']['file']}:{x.get('ln')}", ok_detail=f"{nm} under wire_type == {want}")
        chk.floor("number readers in deserialize_int", n_r, 4)

    def r6():
        hs = [h for k, h in c.hir.items() if "bounded_vec" in k and k.endswith("::deserialize")]
        if not hs:
            raise AnchorMissing("BoundedVec's Deserialize impl not found")
        h = hs[0]
        chk.analysed(h["key"])
        # the visitor's visit_seq is a nested item: its own HIR entry
        vs = [hh for k, hh in c.hir.items() if "bounded_vec" in k and k.endswith("::visit_seq")]
        if not vs:
            raise AnchorMissing("BoundedVec's SeqVisitor::visit_seq not found")
        v = vs[0]
        chk.analysed(v["key"])
        loops = [n for n in nodes(v["body"], "loop")]
        if not loops:
            raise AnchorMissing("visit_seq: element loop not found")
        body = loops[0]
        # the block that contains the push
        blk = None
        for b in [n for n in walk(body) if n.get("k") == "block"]:
            items = list(b.get("stmts") or []) + ([b["e"]] if b.get("e") else [])
            if any((st.get("e") if st.get("k") == "semi" else st).get("k") == "mcall" and (st.get("e") if st.get("k") == "semi" else st)["m"] == "push" for st in items):
                blk = items
        if blk is None:
            raise AnchorMissing("visit_seq: `elements.push(element)` not found as a statement of the loop body")
        push_at = [i for i, st in enumerate(blk) if (st.get("e") if st.get("k") == "semi" else st).get("k") == "mcall"
                   and (st.get("e") if st.get("k") == "semi" else st)["m"] == "push"][0]
        tests = []
        sanctioned = []
        for i, st in enumerate(blk[:push_at]):
            s = st.get("e") if st.get("k") == "semi" else st
            if s.get("k") == "if" and unblock(s["c"]).get("k") == "bin" and any(x.get("k") == "ret" for x in walk(s["t"])):
                cnd = unblock(s["c"])
                rhs = expr_path(cnd["b"]) or ""
                lhs_len = any(x.get("k") == "mcall" and x["m"] == "len" for x in walk(cnd["a"]))
                tests.append((cnd["op"], rhs.rsplit("::", 1)[-1], lhs_len))
                sanctioned.append(s)
        # ... and these are the only rejections of the visitor's own making: every other explicit `return Err(..)` / Err tail refuses
        # vectors by some other measure than the three limits (errors of the element decoder, propagated with `?`, are not the visitor's)
        own = [x for x in walk(v["body"]) if x.get("k") == "call" and (callee(x) or "").endswith("Result::Err")]
        extra = [x for x in own if not any(any(y is x for y in walk(sx["t"])) for sx in sanctioned)]
        chk.expect(not extra, "bounded-vec:no-other-rejection",
                   f"BoundedVec's visit_seq builds an error outside the three limit tests ({len(extra)} site(s), first at line "
                   f"{extra[0].get('ln') if extra else None}): a vector within its limits may be refused (or the limits are measured by something "
                   f"other than len() / DataSize::data_size())", where=f"{v['span']['file']}:{extra[0].get('ln')}" if extra else None,
                   ok_detail=f"{len(own)} Err(..) constructions, all inside the three limit tests")
        want = {("Ge", "MAX_ALLOWED_LEN", True), ("Gt", "MAX_ALLOWED_ELEMENT_DATA_SIZE", False), ("Gt", "MAX_ALLOWED_TOTAL_DATA_SIZE", False)}
        chk.expect(set(tests) == want, "bounded-vec:three-limit-tests-before-push",
                   f"BoundedVec's visit_seq must reject, before pushing an element, when len() >= MAX_ALLOWED_LEN, when the element's data size "
                   f"> MAX_ALLOWED_ELEMENT_DATA_SIZE and when the new total > MAX_ALLOWED_TOTAL_DATA_SIZE (so that exactly the vectors within the "
                   f"limits are accepted); found tests {sorted(tests)}", ok_detail=str(sorted(tests)))
        # the running total is the sum that was tested, and it is stored back
        sums = [x for st in blk[:push_at] for x in walk(st) if x.get("k") == "bin" and x.get("op") == "Add"]
        stores = [(expr_path(x["a"]), expr_path(x["b"])) for st in blk[:push_at + 1] for x in walk(st) if x.get("k") == "assign"]
        lets = {st["pat"].get("n"): st.get("init") for st in blk[:push_at] if st.get("k") == "slet" and st.get("pat", {}).get("k") == "bind"}
        tot_var = [n for n, ini in lets.items() if ini is not None and unblock(ini).get("k") == "bin" and unblock(ini).get("op") == "Add"]
        okk = len(tot_var) == 1 and any(b == tot_var[0] for a, b in stores)
        if okk:
            add = unblock(lets[tot_var[0]])
            ops = {expr_path(add["a"]), expr_path(add["b"])}
            acc = [a for a, b in stores if b == tot_var[0]][0]
            okk = acc in ops and len(ops) == 2
            # the other summand is this element's DataSize::data_size()
            other = [o for o in ops if o != acc]
            ini = lets.get(other[0]) if other else None
            okk = okk and ini is not None and unblock(ini).get("k") == "mcall" and unblock(ini)["m"] == "data_size"
        chk.expect(okk, "bounded-vec:running-total", "the total that is tested against the limit must be `total + element.data_size()`, and must be stored back as the new running total")

    for rid, desc, fn in (("C08.R1", "every wire read is preceded by tests of both the expected and the wire type", r1),
                          ("C08.R2", "fast paths are justified by tests of both component types and re-scoped per component", r2),
                          ("C08.R3", "tagged byte-buffer protocol: producers and all visitors agree on tags and layout", r3),
                          ("C08.R4", "primitive matrix, decoder rows", r4),
                          ("C08.R5", "dispatch table of deserialize_any", r5),
                          ("C08.R6", "bounded vectors: the three limit tests precede every push", r6),
                          ("C08.R7", "visitor-call table: every decoder routine hands the visitor the kind of value it is for", r7)):
        if only and only != rid:
            continue
        chk.run_rule(rid, desc, fn)
    if only is None:
        import c09
        chk.include(c09, "C09.R1", "C08.R8", facts)     # the documented host limit (128-bit range) is decided exactly by the number kernels
        import c10
        chk.include(c10, "C10.R6", "C08.R9", facts)     # untyped variant decoding: accessor hint and accessor test read the same (expected) type
        import c01
        chk.include(c01, "C01.R10", "C08.R10", facts)   # the fast path accepts exactly the element types the element-wise path accepts (newtype structs around a primitive)
        import c02 as _c02
        chk.include(_c02, "C02.R14", "C08.R11", facts)  # both decoders see the same error class (recoverable below opt or not)


def variant_paths_pat(m):
    out = []
    for a in m["arms"]:
        for n in walk(a["pat"]):
            r = n.get("res")
            if isinstance(r, dict) and isinstance(r.get("path"), str) and r["path"].startswith(TI):
                out.append(r["path"][len(TI):])
    return out
