"""C04 — accepted subtyping means decoding at the supertype cannot fail (checker/decoder rule-table agreement)."""
import re

from facts import AnchorMissing, callee, expr_path, nodes, pat_alternatives, pat_head, unblock, walk
from shared import TI, Matrix, Spec, arm_rows, heads_of, method_calls, the_match, variant_paths
from subtyping import Table, ctor, type_ctors

TITLE = ("C04: every accepting rule of the subtype checker has its accepting counterpart in the decoder, and the decoder "
         "accepts no cross-constructor pair the checker rejects (tables extracted from both, paired explicitly).")

DE = r"^&mut candid::de::Deserializer"


def wire_tests(fn_hir):
    """TypeInner constructors that the function tests self.wire_type against (== , matches!, match arms)"""
    out = set()
    for n in walk(fn_hir["body"]):
        if n.get("k") == "bin" and n.get("op") in ("Eq", "Ne"):
            for side, other in ((n["a"], n["b"]), (n["b"], n["a"])):
                p = expr_path(side) or ""
                if p.endswith(".wire_type"):
                    out.update(variant_paths(other, TI))
        if n.get("k") == "match":
            p = expr_path(n["scrut"]) or ""
            if p.endswith(".wire_type"):
                for a in n["arms"]:
                    body_is_false = unblock(a["body"]).get("k") == "lit" and unblock(a["body"]).get("v", {}).get("bool") is False
                    if body_is_false:
                        continue
                    for alt in pat_alternatives(a["pat"]):
                        h = pat_head(alt)
                        if isinstance(h, str) and h.startswith(TI):
                            out.add(h[len(TI):])
    return out


def rule_tables(chk, facts):
    c = facts.crate("candid")
    mx = Matrix(facts)
    if True:
        t = Table(facts, "subtype_")
        chk.analysed(t.fn["key"])
        ctors = [x for x in type_ctors(facts) if x not in ("Var", "Knot", "Unknown", "Class", "Future")]
        # 1. dispatch: expected constructor -> decoding routine
        disp = {k: v for k, v in mx.any.items()}
        want_disp = {"Int": "deserialize_int", "Nat": "deserialize_nat", "Principal": "deserialize_principal",
                     "Opt": "deserialize_option", "Record": "deserialize_struct", "Variant": "deserialize_enum",
                     "Service": "deserialize_service", "Func": "deserialize_function", "Empty": "deserialize_empty",
                     "Text": "deserialize_string", "Null": "deserialize_unit"}
        for X, f in sorted(want_disp.items()):
            rows = disp.get(X) or []
            chk.expect(bool(rows) and all(f in r["calls"] for r in rows), f"dispatch:{X}",
                       f"deserialize_any: expected type {X} should be decoded by {f}, found {rows}",
                       ok_detail=f"{X} -> {f}")
        vec_rows = disp.get("Vec") or []
        chk.expect(sorted(sum((r["calls"] for r in vec_rows), [])) == ["deserialize_blob", "deserialize_seq"], "dispatch:Vec",
                   f"deserialize_any: Vec should dispatch to deserialize_blob (blob) or deserialize_seq, found {vec_rows}")
        # 2. cross-constructor acceptance of the scalar routines
        cross = {}
        for fname, E in (("deserialize_int", "Int"), ("deserialize_nat", "Nat"), ("deserialize_principal", "Principal")):
            h = c.method(r"^candid::de::Deserializer", fname, "")
            chk.analysed(h["key"])
            cross[E] = wire_tests(h)
        h128 = c.method(DE, "deserialize_i128", r"de::Deserializer$")
        cross["Int/i128"] = wire_tests(h128)
        hu128 = c.method(DE, "deserialize_u128", r"de::Deserializer$")
        cross["Nat/u128"] = wire_tests(hu128)
        for E, ws in sorted(cross.items()):
            Ec = E.split("/")[0]
            for w in sorted(ws):
                g, final = t.decide(w, Ec)
                accepted = (w == Ec) or (final is not None and not g and final["class"] == "accept")
                chk.expect(accepted, f"decoder-accepts:{w}->{E}",
                           f"the decoder reads wire type {w} at expected type {E}, but subtype_ does not accept {w} <: {Ec}")
        # converse: every scalar axiom of the checker is honoured by the decoder
        for w in ctors:
            for e in ("Int", "Nat", "Principal"):
                if w == e or w == "Empty":
                    continue
                g, final = t.decide(w, e)
                if final is not None and not g and final["class"] == "accept":
                    keys = [k for k in cross if k.split("/")[0] == e]
                    for k in keys:
                        chk.expect(w in cross[k], f"checker-accepts:{w}<:{k}",
                                   f"subtype_ accepts {w} <: {e} but the decoding routine for {k} does not read wire type {w}: "
                                   f"a message the checker declares compatible would fail to decode",
                                   ok_detail=f"{k} reads {sorted(cross[k])}")
        # 3. reserved: any wire type is skipped
        rows = mx.any.get("Reserved") or []
        chk.expect(bool(rows) and all(r["calls"] == ["deserialize_ignored_any", "deserialize_reserved"] for r in rows),
                   "reserved:skips-any-wire", f"expected `reserved` must skip whatever is on the wire (deserialize_ignored_any) "
                   f"and then produce reserved; found {rows}")
        hres = c.method(r"^candid::de::Deserializer", "deserialize_reserved", "")
        chk.expect(not wire_tests(hres), "reserved:no-wire-test", "deserialize_reserved must not test the wire type")
        # 4. option rules
        hopt = c.method(DE, "deserialize_option", r"de::Deserializer$")
        chk.analysed(hopt["key"])
        m = the_match(hopt, r"TypeInner", 3)
        rows = arm_rows(m)
        got = []
        for r in rows:
            calls = [n["m"] for n in method_calls(r["body"], r"^(visit_none|recoverable_visit_some|visit_some)$")]
            hs = sorted({(ctor(h[0]), ctor(h[1])) for h in r["heads"] if len(h) == 2})
            got.append((hs, sorted(set(calls))))
        # decided by first-match simulation over sample pairs, so the order of disjoint arms does not matter
        def first_match(w, e):
            for hs, calls_ in got:
                for hw, he in hs:
                    if hw in ("_", w) and he in ("_", e):
                        return calls_
            return None
        want = {("Null", "Opt"): ["visit_none"], ("Reserved", "Opt"): ["visit_none"], ("Opt", "Opt"): ["recoverable_visit_some", "visit_none"],
                ("Nat", "Opt"): ["recoverable_visit_some"], ("Record", "Opt"): ["recoverable_visit_some"], ("Empty", "Opt"): ["recoverable_visit_some"]}
        dec = {k: first_match(*k) for k in want}
        chk.expect(dec == want, "option-rules",
                   f"deserialize_option must decide: (null|reserved, opt) -> none; (opt, opt) -> inner with recovery / none; "
                   f"(other, opt) -> constituent with recovery. Decisions found {dec} from arms {got}", ok_detail=str(dec))
        rej = {k: first_match(*k) for k in (("Nat", "Nat"), ("Opt", "Nat"), ("Null", "Null"), ("Record", "Variant"))}
        chk.expect(all(v is not None and not v for v in rej.values()), "option-rules:else-rejects",
                   f"deserialize_option: a pair whose expected type is not opt must be rejected; decisions {rej}")
        # the checker's opt rules all end in acceptance, so recovery must map a failed coercion to none:
        hrec = c.method(r"^candid::de::Deserializer", "recoverable_visit_some", "")
        chk.analysed(hrec["key"])
        m = the_match(hrec, r"Result<", 2)
        rec = {}
        for r in arm_rows(m):
            calls = [n["m"] for n in method_calls(r["body"], r"^visit_none$")]
            pats = variant_paths(r["pat"], "candid::error::Error::") or []
            hd = [h[0] for h in r["heads"]]
            # pattern structure Err(Error::Subtype(_))
            sub = [x for x in walk(r["pat"]) if x.get("k") in ("ts", "struct", "path") and "candid::error::Error::" in ((x.get("res") or {}).get("path") or "")]
            rec[tuple(sorted((x["res"]["path"].rsplit("::", 1)[-1]) for x in sub)) or tuple(str(h).rsplit("::", 1)[-1] for h in hd)] = bool(calls)
        chk.expect(rec.get(("Subtype",)) is True, "recovery:subtype-error-yields-none",
                   f"recoverable_visit_some must turn a subtype (coercion) failure below opt into none; arms: {rec}")
        # 5. structural rules have structural decoders that test both constructors
        for fname, E in (("deserialize_struct", "Record"), ("deserialize_enum", "Variant"), ("deserialize_seq", "Vec")):
            h = c.method(DE, fname, r"de::Deserializer$")
            m = the_match(h, r"TypeInner", 2, first=True)
            pairs = sorted({(ctor(hd[0]), ctor(hd[1])) for r in arm_rows(m) for hd in r["heads"] if len(hd) == 2 and hd != ("_", "_")})
            ok = (E, E) in pairs and all(a == b for a, b in pairs)
            chk.expect(ok, f"structural:{E}", f"{fname} must accept exactly matching constructors (and {E},{E}); found {pairs}",
                       ok_detail=str(pairs))
        for fname in ("deserialize_service", "deserialize_function"):
            h = c.method(r"^candid::de::Deserializer", fname, "")
            cs = [n["m"] for n in method_calls(h["body"], r"^(check_subtype|read_bool_val|read_len|borrow_bytes)$")]
            chk.expect(cs[:1] == ["check_subtype"], f"reference:{fname}",
                       f"{fname} must call check_subtype (wire <: expected, the checker itself) before reading the reference; calls: {cs}")
        hcs = c.method(r"^candid::de::Deserializer", "check_subtype", "")
        cs = [n for n in walk(hcs["body"]) if n.get("k") == "call" and (callee(n) or "").endswith("subtype::subtype_with_config")]
        okargs = False
        if len(cs) == 1:
            a = cs[0]["args"]
            okargs = (expr_path(a[3]) or "").endswith(".wire_type") and (expr_path(a[4]) or "").endswith(".expect_type")
        chk.expect(okargs, "reference:check_subtype-orientation",
                   "check_subtype must ask subtype_with_config(.., wire_type, expect_type) in that order")



def run(chk, facts, tier, only=None):
    import de_rules
    if not only or only == "C04.R2":
        chk.run_rule("C04.R2", "type names are resolved before any test of the expected / wire type (aliases of opt/null/reserved are honoured)",
                     lambda: (de_rules.rule_unrolled(chk, facts), de_rules.rule_raw_field_tests(chk, facts)))
    if not only or only in ("C04.R3", "C04.R4"):
        import c05
        chk.include(c05, "C05.R1", "C04.R3", facts)     # what the checker accepts is what the spec's rules accept
        chk.include(c05, "C05.R3", "C04.R4", facts)     # ... and stale memo entries cannot make it accept more
        import c08
        chk.include(c08, "C08.R5", "C04.R5", facts)     # the value decoded at the supertype is a value *of* the supertype: nat read at int goes through deserialize_int
        import c07
        chk.include(c07, "C07.R3", "C04.R6", facts)     # a failed coercion under opt restores the whole decoder state, so the accepted subtype still decodes
        chk.include(c08, "C08.R2", "C04.R7", facts)     # components are decoded at (expected, wire) of that component, never (expected, expected)
        import c10
        chk.include(c10, "C10.R6", "C04.R8", facts)     # variant payloads: the accessor follows the expected payload type, so null at opt T decodes
        import c02
        chk.include(c02, "C02.R4", "C04.R9", facts)     # header validation incl. replace_empty: only vacuous records become `empty`; check_subtype accepts only through the check
        import c03
        chk.include(c03, "C03.R2", "C04.R10", facts)    # "encoded at t": the encoder's type table is one the decoder can read (indices signed, primitives never tabled)
        chk.include(c02, "C02.R14", "C04.R11", facts)   # a coercion failure below an opt stays a coercion failure on its way up (the accepted subtype decodes to null, not to an error)
        chk.include(c05, "C05.R5", "C04.R12", facts)    # the upgrade check compares (new, old merged with every clashing name renamed): no definition is shared between the revisions unchecked
    if not only or only == "C04.R1":
        chk.run_rule("C04.R1", "checker rule table and decoder acceptance table agree in both directions",
                     lambda: rule_tables(chk, facts))
